//! Families `wire` (C01) and `parse` (C02): header/message codec, every emission route, every
//! parsing and stream-reading entry point.  Usage: fam_wire <wire|parse> --tier T --seed N --out DIR
use repe::{Header, Message, MessageView};
use repe_verif_harness::frames::{RawFrame, RawHeader};
use repe_verif_harness::*;

fn mode_name() -> &'static str {
    if cfg!(debug_assertions) { "checks" } else { "wraps" }
}

fn rt() -> tokio::runtime::Runtime {
    tokio::runtime::Builder::new_current_thread().enable_all().build().unwrap()
}


/// A sink whose `write` accepts at most `max` bytes per call and which implements nothing but `write`/`flush`
/// (so the default `write_vectored`/`write_all` machinery is exercised with short writes).
struct ShortWriter {
    out: Vec<u8>,
    max: usize,
}
impl std::io::Write for ShortWriter {
    fn write(&mut self, buf: &[u8]) -> std::io::Result<usize> {
        let n = buf.len().min(self.max.max(1));
        self.out.extend_from_slice(&buf[..n]);
        Ok(n)
    }
    fn flush(&mut self) -> std::io::Result<()> {
        Ok(())
    }
}
impl tokio::io::AsyncWrite for ShortWriter {
    fn poll_write(mut self: std::pin::Pin<&mut Self>, _cx: &mut std::task::Context<'_>, buf: &[u8]) -> std::task::Poll<std::io::Result<usize>> {
        let n = buf.len().min(self.max.max(1));
        self.out.extend_from_slice(&buf[..n]);
        std::task::Poll::Ready(Ok(n))
    }
    fn poll_flush(self: std::pin::Pin<&mut Self>, _cx: &mut std::task::Context<'_>) -> std::task::Poll<std::io::Result<()>> {
        std::task::Poll::Ready(Ok(()))
    }
    fn poll_shutdown(self: std::pin::Pin<&mut Self>, _cx: &mut std::task::Context<'_>) -> std::task::Poll<std::io::Result<()>> {
        std::task::Poll::Ready(Ok(()))
    }
}

/// A sync sink that takes at most `max` bytes per call and answers every third call with `Interrupted`
/// (which `write_all` must retry), or an async sink that returns `Pending` (after waking itself) on every
/// other poll.  What arrives must be the same bytes as into a plain `Vec`.
struct MoodySink {
    out: Vec<u8>,
    max: usize,
    calls: usize,
    moody: bool,
    /// more bytes than this means the writer is running away (restarting a part for ever): fail instead of hanging
    limit: usize,
}
impl MoodySink {
    fn new(max: usize, moody: bool) -> MoodySink {
        MoodySink { out: Vec::new(), max, calls: 0, moody, limit: 1 << 20 }
    }
    fn limited(max: usize, moody: bool, limit: usize) -> MoodySink {
        MoodySink { out: Vec::new(), max, calls: 0, moody, limit }
    }
}
impl std::io::Write for MoodySink {
    fn write(&mut self, buf: &[u8]) -> std::io::Result<usize> {
        self.calls += 1;
        if self.out.len() > self.limit {
            return Err(std::io::Error::other("runaway writer: far more bytes than any frame of this run"));
        }
        if self.moody && self.calls % 3 == 0 {
            return Err(std::io::Error::from(std::io::ErrorKind::Interrupted));
        }
        let n = buf.len().min(self.max.max(1));
        self.out.extend_from_slice(&buf[..n]);
        Ok(n)
    }
    fn flush(&mut self) -> std::io::Result<()> {
        Ok(())
    }
}
impl tokio::io::AsyncWrite for MoodySink {
    fn poll_write(mut self: std::pin::Pin<&mut Self>, cx: &mut std::task::Context<'_>, buf: &[u8]) -> std::task::Poll<std::io::Result<usize>> {
        self.calls += 1;
        if self.out.len() > self.limit {
            // a writer that restarts a part for ever must not hang the harness
            return std::task::Poll::Ready(Err(std::io::Error::other("runaway writer: far more bytes than any frame of this run")));
        }
        if self.moody && self.calls % 2 == 0 {
            cx.waker().wake_by_ref();
            return std::task::Poll::Pending;
        }
        let n = buf.len().min(self.max.max(1));
        self.out.extend_from_slice(&buf[..n]);
        std::task::Poll::Ready(Ok(n))
    }
    fn poll_flush(self: std::pin::Pin<&mut Self>, _cx: &mut std::task::Context<'_>) -> std::task::Poll<std::io::Result<()>> {
        std::task::Poll::Ready(Ok(()))
    }
    fn poll_shutdown(self: std::pin::Pin<&mut Self>, _cx: &mut std::task::Context<'_>) -> std::task::Poll<std::io::Result<()>> {
        std::task::Poll::Ready(Ok(()))
    }
}

/// A stream that delivers its bytes in fragments (the way a socket does) and then EOF.  `frag` = 0: all that
/// is asked for; n > 0: at most n bytes per read; the async side additionally returns `Pending` before every
/// other fragment when `frag` is odd.
/// How a stream is delivered: `frag` = at most that many bytes per read (0 = whatever is asked for); `cuts` = absolute
/// stream offsets no read crosses (2–3 pieces with PRNG-chosen cut points: inside the header, at 48, inside the query,
/// at the query/body boundary, inside the body, at frame boundaries); `panic_at` = the reader itself panics when asked
/// for the byte at that offset (audit class m: what a reused buffer looks like after an unwind).
#[derive(Clone, Default)]
struct FragSpec {
    frag: usize,
    cuts: Vec<usize>,
    panic_at: Option<usize>,
    /// class p: the stream's read() answers ONE call with this error when asked for the byte at that offset, then goes on
    err_at: Option<(usize, std::io::ErrorKind)>,
}

const IO_KINDS: &[(&str, std::io::ErrorKind)] = &[
    ("NotFound", std::io::ErrorKind::NotFound), ("PermissionDenied", std::io::ErrorKind::PermissionDenied), ("ConnectionRefused", std::io::ErrorKind::ConnectionRefused),
    ("ConnectionReset", std::io::ErrorKind::ConnectionReset), ("ConnectionAborted", std::io::ErrorKind::ConnectionAborted), ("NotConnected", std::io::ErrorKind::NotConnected),
    ("AddrInUse", std::io::ErrorKind::AddrInUse), ("BrokenPipe", std::io::ErrorKind::BrokenPipe), ("AlreadyExists", std::io::ErrorKind::AlreadyExists),
    ("WouldBlock", std::io::ErrorKind::WouldBlock), ("InvalidInput", std::io::ErrorKind::InvalidInput), ("InvalidData", std::io::ErrorKind::InvalidData),
    ("TimedOut", std::io::ErrorKind::TimedOut), ("WriteZero", std::io::ErrorKind::WriteZero), ("Interrupted", std::io::ErrorKind::Interrupted),
    ("Unsupported", std::io::ErrorKind::Unsupported), ("UnexpectedEof", std::io::ErrorKind::UnexpectedEof), ("OutOfMemory", std::io::ErrorKind::OutOfMemory),
    ("Other", std::io::ErrorKind::Other),
];
fn parse_frag(tok: Option<&str>) -> FragSpec {
    let mut sp = FragSpec::default();
    if let Some(t) = tok {
        if let Some(c) = t.strip_prefix('c') {
            sp.cuts = c.split('.').filter_map(|x| x.parse().ok()).collect();
            sp.cuts.sort();
        } else if let Some(k) = t.strip_prefix('p') {
            sp.panic_at = k.parse().ok();
        } else if let Some(e) = t.strip_prefix('e') {
            if let Some((k, kind)) = e.split_once('.') {
                sp.err_at = IO_KINDS.iter().find(|(n, _)| *n == kind).and_then(|(_, kd)| k.parse().ok().map(|k| (k, *kd)));
            }
        } else {
            sp.frag = t.parse().unwrap_or(0);
        }
    }
    sp
}

struct FragReader<'a> {
    data: &'a [u8],
    spec: FragSpec,
    pos: usize,
    polls: usize,
}
impl<'a> FragReader<'a> {
    fn new(data: &'a [u8], spec: &FragSpec) -> FragReader<'a> {
        FragReader { data, spec: spec.clone(), pos: 0, polls: 0 }
    }
    fn take(&mut self, want: usize) -> &'a [u8] {
        let mut lim = if self.spec.frag == 0 { want } else { want.min(self.spec.frag) };
        if let Some(c) = self.spec.cuts.iter().find(|c| **c > self.pos) {
            lim = lim.min(*c - self.pos);
        }
        if let Some((k, _)) = self.spec.err_at {
            if self.pos < k { lim = lim.min(k - self.pos); }
        }
        if let Some(k) = self.spec.panic_at {
            if self.pos >= k && want > 0 {
                panic!("the stream's read() panicked");
            }
            lim = lim.min(k - self.pos);
        }
        let n = lim.min(self.data.len());
        let (a, b) = self.data.split_at(n);
        self.data = b;
        self.pos += n;
        a
    }
    /// the injected error, once, when the next byte to deliver is the one at its offset
    fn injected(&mut self, want: usize) -> Option<std::io::Error> {
        match self.spec.err_at {
            Some((k, kind)) if self.pos >= k && want > 0 => { self.spec.err_at = None; Some(std::io::Error::from(kind)) }
            _ => None,
        }
    }
    fn pending_now(&mut self) -> bool {
        self.polls += 1;
        (self.spec.frag % 2 == 1 || !self.spec.cuts.is_empty()) && self.polls % 2 == 0
    }
}
impl<'a> std::io::Read for FragReader<'a> {
    fn read(&mut self, buf: &mut [u8]) -> std::io::Result<usize> {
        if let Some(e) = self.injected(buf.len()) { return Err(e); }
        let a = self.take(buf.len());
        buf[..a.len()].copy_from_slice(a);
        Ok(a.len())
    }
}
impl<'a> tokio::io::AsyncRead for FragReader<'a> {
    fn poll_read(mut self: std::pin::Pin<&mut Self>, cx: &mut std::task::Context<'_>, buf: &mut tokio::io::ReadBuf<'_>) -> std::task::Poll<std::io::Result<()>> {
        if self.pending_now() {
            cx.waker().wake_by_ref();
            return std::task::Poll::Pending;
        }
        if let Some(e) = self.injected(buf.remaining()) { return std::task::Poll::Ready(Err(e)); }
        let a = self.take(buf.remaining());
        buf.put_slice(a);
        std::task::Poll::Ready(Ok(()))
    }
}

/// State that outlives one op: persistent sinks (several frames through ONE writer), a recycled body buffer.
struct World {
    sync_sink: std::io::BufWriter<MoodySink>,
    async_sink: tokio::io::BufWriter<MoodySink>,
    plain_sink: Vec<u8>,
    expected: Vec<u8>,
    since_sink: Vec<String>,
    n_since: usize,
    recycled: Vec<u8>,
}
impl World {
    fn new() -> World {
        World {
            sync_sink: std::io::BufWriter::with_capacity(61, MoodySink::new(13, true)),
            async_sink: tokio::io::BufWriter::with_capacity(61, MoodySink::new(13, true)),
            plain_sink: Vec::new(),
            expected: Vec::new(),
            since_sink: Vec::new(),
            n_since: 0,
            recycled: Vec::new(),
        }
    }
}

// ------------------------------------------------------------------------------------------
// execution of op lines against the real code
// ------------------------------------------------------------------------------------------

fn parse_header_words(w: &[&str]) -> Option<RawHeader> {
    if w.len() < 11 {
        return None;
    }
    Some(RawHeader {
        length: w[0].parse().ok()?,
        spec: w[1].parse().ok()?,
        version: w[2].parse().ok()?,
        notify: w[3].parse().ok()?,
        reserved: w[4].parse().ok()?,
        id: w[5].parse().ok()?,
        query_length: w[6].parse().ok()?,
        body_length: w[7].parse().ok()?,
        query_format: w[8].parse().ok()?,
        body_format: w[9].parse().ok()?,
        ec: w[10].parse().ok()?,
    })
}

fn same(r0: &[u8], x: &[u8]) -> String {
    if r0 == x { "=".into() } else { hex(x) }
}

fn show_msg(h: &Header, q: &[u8], b: &[u8]) -> String {
    format!("{} {} {}", RawHeader::of(h).fields(), hex(q), hex(b))
}

fn show_res<T>(r: Result<Result<T, repe::RepeError>, String>, f: impl Fn(&T) -> String) -> String {
    match r {
        Ok(Ok(v)) => format!("ok {}", f(&v)),
        Ok(Err(e)) => format!("err {}", err_class(&e)),
        Err(_) => "PANIC".into(),
    }
}

/// Execute one op line; returns (observation line, nontrivial?).
fn exec(out: &mut Out, world: &mut World, line: &str, rtm: &tokio::runtime::Runtime) -> (String, bool) {
    let w = words(line);
    let idx = w.get(1).copied().unwrap_or("?");
    match w[0] {
        "msg" => {
            let rh = parse_header_words(&w[2..13]).expect("msg header");
            let q = unhex(w[13]).unwrap();
            let b = unhex(w[14]).unwrap();
            let cap: usize = w[15].parse().unwrap();
            // optional: spare capacity of the query Vec, and the per-call limit of the short-write sinks
            let qspare: usize = w.get(16).and_then(|x| x.parse().ok()).unwrap_or(0);
            let wmax: usize = w.get(17).and_then(|x| x.parse().ok()).unwrap_or(7);
            // optional: sinks that interrupt (sync) / return Pending (async) between fragments
            let moody: bool = w.get(18).map(|x| *x == "1").unwrap_or(false);
            let h = rh.to_repe();
            let mk_query = || {
                let mut v = Vec::with_capacity(q.len() + qspare);
                v.extend_from_slice(&q);
                v
            };
            let mk_body = || {
                let mut v = Vec::with_capacity(cap.max(b.len()));
                v.extend_from_slice(&b);
                v
            };
            let m = Message { header: h, query: q.clone(), body: mk_body() };
            let r0 = m.to_vec();
            let mut r1 = Vec::new();
            if cap % 8 == 0 {
                // class j: every observer of Message / Header / MessageView hammered from two threads while the message is
                // being emitted; they take &self, so the message and what is emitted must be untouched
                let before = m.clone();
                let seen = std::sync::atomic::AtomicU64::new(0);
                std::thread::scope(|sc| {
                    for _ in 0..2 {
                        sc.spawn(|| {
                            for _ in 0..40 {
                                let n = m.serialized_len() + m.is_error() as usize + m.error_code().is_some() as usize + m.query_utf8().len() + m.body_utf8().len()
                                    + m.query_str().is_ok() as usize + m.error_message_utf8().map(|x| x.len()).unwrap_or(0) + format!("{:?}", m.header).len()
                                    + (m.header == m.header.clone()) as usize + m.header.encode().len()
                                    + MessageView { header: m.header, query: &m.query, body: &m.body }.query_str().is_ok() as usize;
                                seen.fetch_add(n as u64, std::sync::atomic::Ordering::Relaxed);
                            }
                        });
                    }
                    m.write_to(&mut r1).unwrap();
                });
                if m != before {
                    out.oracle_fail("wire.observers.mutated", "a Message changed while only observers ran on it", &[line.to_string()]);
                }
                out.count("wire.observers");
            } else {
                m.write_to(&mut r1).unwrap();
            }
            let body2 = mk_body();
            let realcap = body2.capacity();
            if realcap != cap.max(b.len()) {
                out.count("wire.cap_not_exact");
            }
            let r2 = Message { header: h, query: mk_query(), body: body2 }.into_wire_bytes();
            let mut r3 = Vec::new();
            repe::write_message(&mut r3, &m).unwrap();
            let mut r4 = Vec::new();
            rtm.block_on(async { repe::async_io::write_message_async(&mut r4, &m).await.unwrap() });
            // the same routes into sinks that take only a few bytes per write call
            let mut sw = ShortWriter { out: Vec::new(), max: wmax };
            m.write_to(&mut sw).unwrap();
            let r1s = std::mem::take(&mut sw.out);
            repe::write_message(&mut sw, &m).unwrap();
            let r3s = std::mem::take(&mut sw.out);
            rtm.block_on(async { repe::async_io::write_message_async(&mut sw, &m).await.unwrap() });
            let r4s = std::mem::take(&mut sw.out);
            let _ = repe::write_message_streaming(&mut sw, h, &q, b.len() as u64, |w: &mut ShortWriter| std::io::Write::write_all(w, &b));
            let r5short = std::mem::take(&mut sw.out);
            // the same routes into sinks that interrupt / stay pending between fragments
            let mut ms = MoodySink::limited(wmax, moody, 2 * (48 + q.len() + b.len()) + 4096);
            let e1 = m.write_to(&mut ms).is_err();
            let r1m = std::mem::take(&mut ms.out);
            let e3 = repe::write_message(&mut ms, &m).is_err();
            let r3m = std::mem::take(&mut ms.out);
            let e4 = rtm.block_on(async { repe::async_io::write_message_async(&mut ms, &m).await.is_err() });
            let r4m = std::mem::take(&mut ms.out);
            // several frames through ONE buffered writer each (checked at the next `sink` op)
            let persist_err = {
                let a = repe::write_message(&mut world.sync_sink, &m).is_err();
                let b = rtm.block_on(async { repe::async_io::write_message_async(&mut world.async_sink, &m).await.is_err() });
                let c = m.write_to(&mut world.plain_sink).is_err();
                a || b || c
            };
            world.since_sink.push(line.to_string());
            world.n_since += 1;
            // a body buffer recycled from the previous frame's output (stale bytes beyond len, arbitrary capacity)
            let r2r = {
                let mut body = std::mem::take(&mut world.recycled);
                body.clear();
                body.extend_from_slice(&b);
                Message { header: h, query: mk_query(), body }.into_wire_bytes()
            };
            let mut r5 = Vec::new();
            let r5res = catch(|| {
                repe::write_message_streaming(&mut r5, h, &q, b.len() as u64, |w: &mut Vec<u8>| {
                    std::io::Write::write_all(w, &b)
                })
            });
            // --- direct oracle: independent layout, all routes equal
            let want = RawFrame { h: rh.clone(), query: q.clone(), body: b.clone() }.to_vec();
            let ops = vec![line.to_string()];
            world.expected.extend_from_slice(&want);
            if e1 || e3 || e4 || persist_err {
                out.oracle_fail("wire.route.sink_error", &format!("a route failed on a sink that only interrupts / stays pending between fragments (write_to {} write_message {} async {} persistent {})", e1, e3, e4, persist_err), &ops);
            }
            for (name, r) in [("write_to.moody_sink", &r1m), ("write_message.moody_sink", &r3m), ("write_message_async.moody_sink", &r4m), ("into_wire_bytes.recycled_buffer", &r2r)] {
                if *r != want {
                    out.oracle_fail(&format!("wire.route.{}", name), &format!("route {} differs from the spec layout frame (cap {}, sink max {}, moody {})", name, cap, wmax, moody), &ops);
                }
            }
            world.recycled = r2r;
            if m.serialized_len() != want.len() {
                out.oracle_fail("wire.serialized_len", &format!("serialized_len() = {} but the frame has {} bytes", m.serialized_len(), want.len()), &ops);
            }
            if r0 != want {
                out.oracle_fail("wire.to_vec.layout", &format!("to_vec differs from the spec layout at case {}", idx), &ops);
            }
            for (name, r) in [("write_to", &r1), ("into_wire_bytes", &r2), ("write_message", &r3), ("write_message_async", &r4),
                ("write_to.short_writes", &r1s), ("write_message.short_writes", &r3s), ("write_message_async.short_writes", &r4s)] {
                if *r != r0 {
                    out.oracle_fail(&format!("wire.route.{}", name), &format!("route {} differs from to_vec (cap {})", name, cap), &ops);
                }
            }
            let total = 48 + q.len() + b.len();
            let rel = if cap < total { "cap<total" } else if cap == total { "cap=total" } else { "cap>total" };
            out.count(&format!("wire.{}", rel));
            let mut ph = rh.clone();
            ph.query_length = q.len() as u64;
            ph.body_length = b.len() as u64;
            ph.length = 48 + q.len() as u64 + b.len() as u64;
            let want5 = RawFrame { h: ph, query: q.clone(), body: b.clone() }.to_vec();
            if r5short != want5 {
                out.oracle_fail("wire.route.write_message_streaming.short_writes", &format!("streamed frame through a sink taking {} bytes per write differs from the patched spec layout", wmax), &ops);
            }
            let r5s = match r5res {
                Ok(Ok(())) => {
                    if r5 != want5 {
                        out.oracle_fail("wire.route.write_message_streaming", "streamed frame differs from the patched spec layout", &ops);
                    }
                    hex(&r5)
                }
                Ok(Err(e)) => format!("err:{}", err_class(&e)),
                Err(_) => "PANIC".into(),
            };
            let consistent = rh.consistent() && rh.query_length == q.len() as u64 && rh.body_length == b.len() as u64;
            if consistent {
                out.count("wire.consistent");
                // round trip through every parser
                let ok1 = matches!(Message::from_slice(&r0), Ok(ref p) if *p == m);
                let ok2 = matches!(Message::from_slice_exact(&r0), Ok(ref p) if *p == m);
                let ok3 = matches!(MessageView::from_slice(&r0), Ok(v) if v.header == m.header && v.query == &q[..] && v.body == &b[..] && v.to_message() == m);
                let ok4 = matches!(MessageView::from_slice_exact(&r0), Ok(v) if v.header == m.header && v.query == &q[..] && v.body == &b[..]);
                let ok5 = matches!(repe::read_message(&mut &r0[..]), Ok(ref p) if *p == m);
                // a frame followed by more bytes (pipelining): the non-exact parsers must return exactly the frame
                let mut longer = r0.clone();
                longer.extend_from_slice(&[0xA5, 0x5A, 0x00, 0xFF, 0x07][..(1 + cap % 5)]);
                let ok6 = matches!(Message::from_slice(&longer), Ok(ref p) if *p == m);
                let ok7 = matches!(MessageView::from_slice(&longer), Ok(v) if v.header == m.header && v.query == &q[..] && v.body == &b[..]);
                let ok8 = MessageView::from_slice_exact(&longer).is_err() && Message::from_slice_exact(&longer).is_err();
                if !(ok6 && ok7 && ok8) {
                    out.oracle_fail("wire.roundtrip.trailing", &format!("frame followed by extra bytes: owned {} view {} exact-rejects {}", ok6, ok7, ok8), &ops);
                }
                if !(ok1 && ok2 && ok3 && ok4 && ok5) {
                    out.oracle_fail("wire.roundtrip", &format!("parse(emit(m)) != m ({} {} {} {} {})", ok1, ok2, ok3, ok4, ok5), &ops);
                }
            } else {
                out.count("wire.inconsistent_header");
            }
            (format!("{} {} {} {} {} {} {}", idx, hex(&r0), same(&r0, &r1), same(&r0, &r2), same(&r0, &r3), same(&r0, &r4), r5s), consistent)
        }
        "build" => {
            let id: u64 = w[2].parse().unwrap();
            let notify = w[3] == "1";
            let ec: u32 = w[4].parse().unwrap();
            let qf: u16 = w[5].parse().unwrap();
            let bf: u16 = w[6].parse().unwrap();
            let q = unhex(w[7]).unwrap();
            let b = unhex(w[8]).unwrap();
            // optional: the order in which the (independent) setters are called, and which twin setter is used
            let order: u64 = w.get(9).and_then(|x| x.parse().ok()).unwrap_or(0);
            let code = repe::ErrorCode::try_from(ec).ok();
            let roomy = |v: &Vec<u8>, extra: usize| { let mut x = Vec::with_capacity(v.len() + extra); x.extend_from_slice(v); x };
            let set_q = |bld: repe::message::MessageBuilder| match (order % 3, std::str::from_utf8(&q)) {
                (1, Ok(sq)) => bld.query_str(sq),
                (2, _) => bld.query_bytes(roomy(&q, 64)),
                _ => bld.query_bytes(q.clone()),
            };
            let set_b = |bld: repe::message::MessageBuilder| if order % 2 == 1 { bld.body_bytes(roomy(&b, 48 + q.len())) } else { bld.body_bytes(&b[..]) };
            let set_ec = |bld: repe::message::MessageBuilder| match code { Some(c) => bld.error_code(c), None => bld };
            let m = match order % 4 {
                0 => set_b(set_q(set_ec(Message::builder().id(id).notify(notify).query_format_code(qf).body_format_code(bf)))).build(),
                1 => set_ec(set_q(set_b(Message::builder())).body_format_code(bf).query_format_code(qf).notify(notify).id(id)).build(),
                2 => set_q(set_ec(set_b(Message::builder().notify(!notify).id(!id)).id(id)).notify(notify).body_format_code(bf)).query_format_code(qf).build(),
                _ => {
                    // the enum-typed setters where the code is one of the named formats
                    let mut bld = set_ec(Message::builder().id(id).notify(notify));
                    bld = match repe::QueryFormat::try_from(qf) { Ok(f) => bld.query_format(f), Err(_) => bld.query_format_code(qf) };
                    bld = set_b(set_q(bld));
                    bld = match repe::BodyFormat::try_from(bf) { Ok(f) => bld.body_format(f), Err(_) => bld.body_format_code(bf) };
                    bld.build()
                }
            };
            let v = m.to_vec();
            let ops = vec![line.to_string()];
            let want = RawFrame {
                h: RawHeader {
                    length: 48 + q.len() as u64 + b.len() as u64, spec: 0x1507, version: 1, notify: notify as u8, reserved: 0, id,
                    query_length: q.len() as u64, body_length: b.len() as u64, query_format: qf, body_format: bf, ec,
                },
                query: q.clone(), body: b.clone(),
            };
            if v != want.to_vec() {
                out.oracle_fail("wire.build", "builder output differs from the spec layout / lengths", &ops);
            }
            if m.clone().into_wire_bytes() != v || m.serialized_len() != v.len() {
                out.oracle_fail("wire.build.routes", "a built message: into_wire_bytes / serialized_len disagree with to_vec", &ops);
            }
            out.count("wire.build");
            (format!("{} {}", idx, hex(&v)), true)
        }
        "bodyfmt" => {
            // bodyfmt <idx> <which: utf8|json|beve> <id> <query> <json value> <expected body, serialised by the harness>:
            // the builder's serialising body setters set body AND format code (Utf8 3 / Json 2 / Beve 1)
            let ops = vec![line.to_string()];
            let which = w[2];
            let id: u64 = w[3].parse().unwrap();
            let q = unhex(w[4]).unwrap();
            let value: serde_json::Value = serde_json::from_str(&String::from_utf8(unhex(w[5]).unwrap()).unwrap()).unwrap();
            let body = unhex(w[6]).unwrap();
            let bld = Message::builder().id(id).query_format_code(1).query_bytes(q.clone());
            let (m, bf) = match which {
                "utf8" => (bld.body_utf8(std::str::from_utf8(&body).expect("utf8 body")).build(), 3u16),
                "json" => (bld.body_json(&value).expect("json").build(), 2),
                _ => (bld.body_beve(&value).expect("beve").build(), 1),
            };
            let want = RawFrame::request(id, false, 1, &q, bf, &body).to_vec();
            if m.to_vec() != want {
                out.oracle_fail(&format!("wire.bodyfmt.{}", which), "builder body setter: the frame is not header(format code of the setter) + query + the serialised value", &ops);
            }
            out.count(&format!("wire.bodyfmt.{}", which));
            (format!("{} {}", idx, hex(&m.to_vec())), true)
        }
        "sink" => {
            // everything the persistent sinks received since the last `sink`: exactly the frames, in order
            use std::io::Write as _;
            let ops: Vec<String> = world.since_sink.iter().cloned().chain(std::iter::once(line.to_string())).collect();
            let f1 = world.sync_sink.flush().is_err();
            let f2 = rtm.block_on(async { tokio::io::AsyncWriteExt::flush(&mut world.async_sink).await.is_err() });
            let a = std::mem::take(&mut world.sync_sink.get_mut().out);
            let b = std::mem::take(&mut world.async_sink.get_mut().out);
            let c = std::mem::take(&mut world.plain_sink);
            let want = std::mem::take(&mut world.expected);
            let n = world.n_since;
            world.n_since = 0;
            world.since_sink.clear();
            for (name, got, failed) in [("write_message.bufwriter", &a, f1), ("write_message_async.bufwriter", &b, f2), ("write_to.vec", &c, false)] {
                if *got != want || failed {
                    let frames = RawFrame::split_stream(got).0.len();
                    out.oracle_fail(&format!("wire.sequence.{}", name), &format!("{} frames written through one writer: the sink received {} bytes holding {} whole frames, the frames are {} bytes", n, got.len(), frames, want.len()), &ops);
                }
            }
            out.count("wire.sink");
            (format!("{} n={} {}:{:016x}", idx, n, a.len(), fnv(&a)), n > 1)
        }
        "new" => {
            let rh = parse_header_words(&w[2..13]).expect("new header");
            let q = unhex(w[13]).unwrap();
            let b = unhex(w[14]).unwrap();
            let r = catch(|| Message::new(rh.to_repe(), q.clone(), b.clone()));
            let sl = Message { header: rh.to_repe(), query: q.clone(), body: b.clone() }.serialized_len();
            out.count("wire.new");
            (format!("{} {} {}", idx, show_res(r, |_| "new".to_string()), sl), true)
        }
        "errmsg" | "errlike" => {
            let ops = vec![line.to_string()];
            let (m, want) = if w[0] == "errmsg" {
                let code: u32 = w[2].parse().unwrap();
                let text = String::from_utf8(unhex(w[3]).unwrap()).expect("utf8 text");
                let ec = repe::ErrorCode::try_from(code).expect("named code");
                (repe::message::create_error_message(ec, &text),
                 RawFrame { h: RawHeader { length: 48 + text.len() as u64, spec: 0x1507, version: 1, body_length: text.len() as u64, body_format: 3, ec: code, ..Default::default() }, query: vec![], body: text.into_bytes() })
            } else {
                let id: u64 = w[2].parse().unwrap();
                let rq = unhex(w[3]).unwrap();
                let code: u32 = w[4].parse().unwrap();
                let text = String::from_utf8(unhex(w[5]).unwrap()).expect("utf8 text");
                let ec = repe::ErrorCode::try_from(code).expect("named code");
                // the request object may carry declared lengths that are not those of its payloads (a hand-built or
                // re-used Message): the response must be framed from the real query
                let mut req = Message::builder().id(id).query_bytes(rq.clone()).query_format_code(1).body_bytes(vec![1u8, 2, 3]).build();
                if let (Some(sq), Some(sb)) = (w.get(6).and_then(|x| x.parse::<u64>().ok()), w.get(7).and_then(|x| x.parse::<u64>().ok())) {
                    req.header.query_length = sq;
                    req.header.body_length = sb;
                    req.header.length = sq.wrapping_add(sb);
                }
                (repe::message::create_error_response_like(&req, ec, &text),
                 RawFrame { h: RawHeader { length: 48 + rq.len() as u64 + text.len() as u64, spec: 0x1507, version: 1, id, query_length: rq.len() as u64, body_length: text.len() as u64, body_format: 3, ec: code, ..Default::default() }, query: rq, body: text.into_bytes() })
            };
            let v = m.to_vec();
            // what the property asks of any message the library builds: a consistent canonical frame that parses back
            let consistent = matches!(RawFrame::parse_prefix(&v), Some((ref f, n)) if n == v.len() && f.query == m.query && f.body == m.body);
            if !consistent || m.clone().into_wire_bytes() != v || !matches!(Message::from_slice_exact(&v), Ok(ref p) if *p == m) {
                out.oracle_fail(&format!("wire.{}.inconsistent", w[0]), "an error message built by the library is not a consistent frame / does not round-trip", &ops);
            }
            if m.query != want.query || m.body != want.body || m.header.ec != want.h.ec {
                out.oracle_fail(&format!("wire.{}.content", w[0]), "error message does not carry the given code / text / echoed query", &ops);
            }
            out.count(&format!("wire.{}", w[0]));
            (format!("{} {}", idx, hex(&v)), true)
        }
        "resp" => {
            // resp <idx> <req id> <req qf> <req query> <body format> <expected body (serialised independently)> <json value>
            let ops = vec![line.to_string()];
            let id: u64 = w[2].parse().unwrap();
            let qf: u16 = w[3].parse().unwrap();
            let rq = unhex(w[4]).unwrap();
            let bf: u16 = w[5].parse().unwrap();
            let body = unhex(w[6]).unwrap();
            let value: serde_json::Value = serde_json::from_str(&String::from_utf8(unhex(w[7]).unwrap()).unwrap()).unwrap();
            let req = Message::builder().id(id).query_bytes(rq.clone()).query_format_code(qf).body_bytes(vec![9u8]).build();
            let r = repe::message::create_response(&req, &value, repe::BodyFormat::try_from(bf).expect("named body format"));
            match r {
                Ok(m) => {
                    let v = m.to_vec();
                    let consistent = matches!(RawFrame::parse_prefix(&v), Some((ref f, n)) if n == v.len() && f.query == rq && f.body == body);
                    if !consistent || m.clone().into_wire_bytes() != v {
                        out.oracle_fail("wire.resp.inconsistent", "a response built by the library is not a consistent frame echoing the query and carrying the serialised body", &ops);
                    }
                    out.count("wire.resp");
                    (format!("{} {}", idx, hex(&v)), true)
                }
                Err(e) => (format!("{} err:{}", idx, err_class(&e)), false),
            }
        }
        "twin" => {
            // twin <idx> <kind> <11 header fields> <query> <element bytes> <payload>: the streamed slice writers with ANY header
            // argument (every field over its boundary classes: pre-set lengths, formats, ec, notify, reserved, id).
            // Documented: body_format is set to BEVE, the three lengths are filled in, "the bytes on the wire are identical
            // to a MessageBuilder::body_typed_slice message written with write_message".
            let ops = vec![line.to_string()];
            let kind = w[2];
            let rh = parse_header_words(&w[3..14]).expect("twin header");
            let q = unhex(w[14]).unwrap();
            let raw = unhex(w[15]).unwrap();
            let h = rh.to_repe();
            let mut streamed = MoodySink::new(9, true);
            let mut streamed2 = MoodySink::new(1000, false);
            // the same call once more with a header the builder can express (fresh header + id + query format): twins
            let mut hb = Header::new();
            hb.id = rh.id;
            hb.query_format = rh.query_format;
            hb.query_length = rh.query_length; // stale lengths the writer must overwrite
            hb.body_length = rh.body_length;
            hb.length = rh.length;
            let bld = || Message::builder().id(rh.id).query_format_code(rh.query_format).query_bytes(q.clone());
            let (res, res2, built) = match kind {
                "f64" => {
                    let xs: Vec<f64> = raw.chunks_exact(8).map(|c| f64::from_le_bytes(c.try_into().unwrap())).collect();
                    (repe::write_message_typed_slice(&mut streamed, h, &q, &xs), repe::write_message_typed_slice(&mut streamed2, hb, &q, &xs), bld().body_typed_slice(&xs).build())
                }
                "i32" => {
                    let xs: Vec<i32> = raw.chunks_exact(4).map(|c| i32::from_le_bytes(c.try_into().unwrap())).collect();
                    (repe::write_message_typed_slice(&mut streamed, h, &q, &xs), repe::write_message_typed_slice(&mut streamed2, hb, &q, &xs), bld().body_typed_slice(&xs).build())
                }
                "u8" => (repe::write_message_typed_slice(&mut streamed, h, &q, &raw[..]), repe::write_message_typed_slice(&mut streamed2, hb, &q, &raw[..]), bld().body_typed_slice(&raw[..]).build()),
                _ => {
                    let xs: Vec<repe::Complex<f32>> = raw.chunks_exact(8).map(|c| repe::Complex { re: f32::from_le_bytes(c[..4].try_into().unwrap()), im: f32::from_le_bytes(c[4..].try_into().unwrap()) }).collect();
                    (repe::write_message_complex_slice(&mut streamed, h, &q, &xs), repe::write_message_complex_slice(&mut streamed2, hb, &q, &xs), bld().body_complex_slice(&xs).build())
                }
            };
            // independent expectation: the header as given, lengths patched, body format BEVE, then query, then the payload
            let mut ph = rh.clone();
            ph.query_length = q.len() as u64;
            ph.body_length = built.body.len() as u64;
            ph.length = 48 + q.len() as u64 + built.body.len() as u64;
            ph.body_format = 1;
            let want = RawFrame { h: ph, query: q.clone(), body: built.body.clone() }.to_vec();
            if res.is_err() || streamed.out != want {
                out.oracle_fail(&format!("wire.slice_writer.{}.header_argument", kind), &format!("streamed slice writer given a header with body_format {} / lengths {} {} {}: the frame is not that header with the lengths filled in and body_format BEVE (ok {})", rh.body_format, rh.length, rh.query_length, rh.body_length, res.is_ok()), &ops);
            }
            let mut buffered = Vec::new();
            repe::write_message(&mut buffered, &built).unwrap();
            let same_frame = streamed2.out == buffered && built.clone().into_wire_bytes() == buffered;
            if res2.is_err() || !same_frame {
                out.oracle_fail(&format!("wire.twin.{}", kind), &format!("streamed slice writer vs builder + write_message: ok {} identical {}", res2.is_ok(), same_frame), &ops);
            }
            out.count(&format!("wire.twin.{}", kind));
            (format!("{} {}", idx, hex(&streamed.out)), true)
        }
        "cb" => {
            // cb <idx> <behaviour> <11 header fields> <query> <body>: write_message_streaming with a body callback that
            // errs / panics / is slow / writes a nested frame through the same sink.  The property is silent about a
            // failing or panicking callback: those are run (the harness must survive) and nothing is asserted.
            let ops = vec![line.to_string()];
            let beh = w[2];
            let rh = parse_header_words(&w[3..14]).expect("cb header");
            let q = unhex(w[14]).unwrap();
            let b = unhex(w[15]).unwrap();
            let h = rh.to_repe();
            let inner = RawFrame::request(5, true, 1, b"/inner", 0, &b);
            let body: Vec<u8> = if beh == "nested" { inner.to_vec() } else { b.clone() };
            let mut sink = MoodySink::new(11, true);
            let r = catch(|| {
                repe::write_message_streaming(&mut sink, h, &q, body.len() as u64, |w: &mut MoodySink| -> Result<(), repe::RepeError> {
                    match beh {
                        "err_io" => Err(std::io::Error::other("callback failed").into()),
                        "err_repe" => Err(repe::RepeError::UnknownEnumValue(7)),
                        "panic_str" => panic!("callback panicked"),
                        "panic_string" => panic!("{}", format!("callback {}", 7)),
                        "panic_other" => std::panic::panic_any(7u32),
                        "slow" => { std::thread::sleep(std::time::Duration::from_millis(3)); std::io::Write::write_all(w, &body).map_err(Into::into) }
                        "nested" => {
                            let mut ih = Header::new();
                            ih.id = 5;
                            ih.notify = 1;
                            ih.query_format = 1;
                            repe::write_message_streaming(w, ih, b"/inner", b.len() as u64, |w2: &mut MoodySink| std::io::Write::write_all(w2, &b))
                        }
                        _ => std::io::Write::write_all(w, &body).map_err(Into::into),
                    }
                })
            });
            out.count(&format!("wire.cb.{}.{}", beh, match &r { Ok(Ok(())) => "ok", Ok(Err(_)) => "err", Err(_) => "panic" }));
            if matches!(beh, "slow" | "nested" | "plain") {
                let mut ph = rh.clone();
                ph.query_length = q.len() as u64;
                ph.body_length = body.len() as u64;
                ph.length = 48 + q.len() as u64 + body.len() as u64;
                let want = RawFrame { h: ph, query: q.clone(), body: body.clone() }.to_vec();
                if !matches!(r, Ok(Ok(()))) || sink.out != want {
                    out.oracle_fail(&format!("wire.cb.{}", beh), "streamed frame with a slow / re-entrant body callback differs from the patched spec layout", &ops);
                }
            }
            (format!("{} ran", idx), false)
        }
        "readm" => {
            // readm <idx> <reader 0..3> <frag> <stream> <stream> …: ONE reader value and ONE reused buffer over several
            // streams in a row; a stream may end in an error or mid-frame — the next one must be read as with a fresh buffer
            let kind = w[2];
            let frag = parse_frag(Some(w[3]));
            // a stream token `p<k>:<hex>`: the stream's own read() panics when asked for byte k (the unwind passes through the
            // reader; the buffer is then reused for the next stream)
            // `e<k>.<kind>:<hex>`: the stream's read() fails once with that io::ErrorKind when asked for byte k
            let mut injected: Vec<Option<(usize, std::io::ErrorKind, String)>> = Vec::new();
            let streams: Vec<(Option<usize>, Vec<u8>)> = w[4..].iter().map(|x| {
                if let Some((spec, h)) = x.strip_prefix('e').and_then(|t| t.split_once(':')) {
                    let sp = parse_frag(Some(&format!("e{}", spec)));
                    injected.push(sp.err_at.map(|(k, kd)| (k, kd, spec.split_once('.').map(|p| p.1.to_string()).unwrap_or_default())));
                    return (None, unhex(h).unwrap());
                }
                injected.push(None);
                match x.strip_prefix('p').and_then(|t| t.split_once(':')) {
                    Some((k, h)) => (k.parse().ok(), unhex(h).unwrap()),
                    None => (None, unhex(x).unwrap()),
                }
            }).collect();
            let ops = vec![line.to_string()];
            let r = catch(|| {
                let mut buf: Vec<u8> = Vec::with_capacity(17);
                buf.extend_from_slice(b"stale-bytes-from-an-earlier-use");
                let mut per: Vec<(Vec<Vec<u8>>, String)> = Vec::new();
                for (si, (panic_at, sbytes)) in streams.iter().enumerate() {
                    let mut spec = frag.clone();
                    spec.panic_at = *panic_at;
                    spec.err_at = injected[si].as_ref().map(|(k, kd, _)| (*k, *kd));
                    let mut cur = FragReader::new(sbytes, &spec);
                    let mut frames: Vec<Vec<u8>> = Vec::new();
                    let end = loop {
                        let one = catch(|| -> Result<Vec<u8>, repe::RepeError> {
                            match kind {
                                "0" => repe::read_message(&mut cur).map(|m| m.to_vec()),
                                "2" => rtm.block_on(async { repe::async_io::read_message_async(&mut cur).await }).map(|m| m.to_vec()),
                                "1" => repe::read_message_into(&mut cur, &mut buf).map(|_| buf.clone()),
                                _ => rtm.block_on(async { repe::async_io::read_message_into_async(&mut cur, &mut buf).await }).map(|_| buf.clone()),
                            }
                        });
                        match one {
                            Ok(Ok(f)) => frames.push(f),
                            Ok(Err(e)) => break err_class(&e),
                            Err(_) if panic_at.is_some() => break "panicked".to_string(),
                            Err(m) => std::panic::panic_any(m),
                        }
                        if frames.len() > 10_000 { break "runaway".to_string(); }
                    };
                    per.push((frames, end));
                }
                per
            });
            match r {
                Err(msg) => {
                    out.oracle_fail(&format!("parse.readm{}.panic", kind), &format!("reading several streams with one buffer panicked: {}", msg), &ops);
                    (format!("{} PANIC", idx), false)
                }
                Ok(per) => {
                    let mut shown = Vec::new();
                    for (i, (frames, end)) in per.iter().enumerate() {
                        // an injected error other than Interrupted ends the reading at its offset; Interrupted may be retried (the blocking
                        // helper does, like Read::read_exact) or reported: both the whole stream and its cut are admissible
                        let cut_at = match (&injected[i], streams[i].0) { (Some((k, _, _)), _) => Some(*k), (None, pk) => pk };
                        let visible = match cut_at { Some(k) => &streams[i].1[..k.min(streams[i].1.len())], None => &streams[i].1[..] };
                        if let Some((_, kd, _)) = &injected[i] {
                            let whole: Vec<Vec<u8>> = RawFrame::split_stream(&streams[i].1).0.iter().map(|f| f.to_vec()).collect();
                            if *kd == std::io::ErrorKind::Interrupted && *frames == whole { continue_ok(&mut shown, frames, end); continue; }
                        }
                        let (want, _) = RawFrame::split_stream(visible);
                        let want: Vec<Vec<u8>> = want.iter().map(|f| f.to_vec()).collect();
                        if *frames != want {
                            out.oracle_fail(&format!("parse.readm{}.frames_after_reuse", kind), &format!("stream {} of {} read with a reused buffer: got {} frames, the stream holds {} whole frames (or their bytes differ)", i + 1, per.len(), frames.len(), want.len()), &ops);
                        }
                        let fs: Vec<String> = frames.iter().map(|f| format!("{}:{:016x}", f.len(), fnv(f))).collect();
                        shown.push(format!("n={} [{}] end={}", frames.len(), fs.join(","), end));
                    }
                    out.count(&format!("parse.readm{}", kind));
                    (format!("{} {}", idx, shown.join(" | ")), true)
                }
            }
        }
        "hdr" => {
            let bs = unhex(w[2]).unwrap();
            let r = catch(|| Header::decode(&bs));
            let nontrivial = matches!(r, Ok(Ok(_)));
            parse_oracle(out, line, "hdr", &bs, &r.as_ref().map(|x| x.as_ref().map(|h| (RawHeader::of(h), Vec::new(), Vec::new())).map_err(|e| err_class(e))).map_err(|e| e.clone()));
            (format!("{} {}", idx, show_res(r, |h| RawHeader::of(h).fields())), nontrivial)
        }
        "slice" | "slicex" | "view" | "viewx" => {
            let bs = unhex(w[2]).unwrap();
            let op = w[0];
            let r: Result<Result<(Header, Vec<u8>, Vec<u8>), repe::RepeError>, String> = catch(|| match op {
                "slice" => Message::from_slice(&bs).map(|m| (m.header, m.query, m.body)),
                "slicex" => Message::from_slice_exact(&bs).map(|m| (m.header, m.query, m.body)),
                "view" => MessageView::from_slice(&bs).map(|v| (v.header, v.query.to_vec(), v.body.to_vec())),
                _ => MessageView::from_slice_exact(&bs).map(|v| (v.header, v.query.to_vec(), v.body.to_vec())),
            });
            let nontrivial = matches!(r, Ok(Ok(_)));
            parse_oracle(out, line, op, &bs, &r.as_ref().map(|x| x.as_ref().map(|(h, q, b)| (RawHeader::of(h), q.clone(), b.clone())).map_err(|e| err_class(e))).map_err(|e| e.clone()));
            (format!("{} {}", idx, show_res(r, |(h, q, b)| show_msg(h, q, b))), nontrivial)
        }
        "read0" | "read2" => {
            let bs = unhex(w[2]).unwrap();
            let op = w[0];
            let frag = parse_frag(w.get(3).copied());
            let r = catch(|| {
                let mut src = FragReader::new(&bs, &frag);
                if op == "read0" {
                    repe::read_message(&mut src)
                } else {
                    rtm.block_on(async { repe::async_io::read_message_async(&mut src).await })
                }
            });
            let nontrivial = matches!(r, Ok(Ok(_)));
            parse_oracle(out, line, op, &bs, &r.as_ref().map(|x| x.as_ref().map(|m| (RawHeader::of(&m.header), m.query.clone(), m.body.clone())).map_err(|e| err_class(e))).map_err(|e| e.clone()));
            (format!("{} {}", idx, show_res(r, |m| show_msg(&m.header, &m.query, &m.body))), nontrivial)
        }
        "read1" | "read3" => {
            let bs = unhex(w[2]).unwrap();
            let op = w[0];
            let frag = parse_frag(w.get(3).copied());
            let r = catch(|| {
                let mut buf = Vec::new();
                let mut src = FragReader::new(&bs, &frag);
                let res = if op == "read1" {
                    repe::read_message_into(&mut src, &mut buf)
                } else {
                    rtm.block_on(async { repe::async_io::read_message_into_async(&mut src, &mut buf).await })
                };
                res.map(|_| buf)
            });
            let nontrivial = matches!(r, Ok(Ok(_)));
            let conv = r.as_ref().map(|x| {
                x.as_ref()
                    .map(|buf| match RawFrame::parse_prefix(buf) {
                        Some((f, n)) if n == buf.len() => (f.h, f.query, f.body),
                        _ => (RawHeader::default(), vec![0xff], vec![0xff]),
                    })
                    .map_err(|e| err_class(e))
            }).map_err(|e| e.clone());
            parse_oracle(out, line, op, &bs, &conv);
            (format!("{} {}", idx, show_res(r, |buf| hex(buf))), nontrivial)
        }
        "reads0" | "reads1" | "reads2" | "reads3" => {
            // a whole stream of pipelined frames read with ONE reader value and (for the into-readers) ONE reused
            // buffer that starts with spare capacity, the way the servers use them
            let bs = unhex(w[2]).unwrap();
            let op = w[0];
            let frag = parse_frag(w.get(3).copied());
            let r = catch(|| {
                let mut frames: Vec<Vec<u8>> = Vec::new();
                let mut cur = FragReader::new(&bs, &frag);
                let mut buf: Vec<u8> = Vec::with_capacity(4096);
                let end = loop {
                    let res: Result<Vec<u8>, repe::RepeError> = match op {
                        "reads0" => repe::read_message(&mut cur).map(|m| m.to_vec()),
                        "reads2" => rtm.block_on(async { repe::async_io::read_message_async(&mut cur).await }).map(|m| m.to_vec()),
                        "reads1" => repe::read_message_into(&mut cur, &mut buf).map(|_| buf.clone()),
                        _ => rtm.block_on(async { repe::async_io::read_message_into_async(&mut cur, &mut buf).await }).map(|_| buf.clone()),
                    };
                    match res {
                        Ok(f) => frames.push(f),
                        Err(e) => break err_class(&e),
                    }
                    if frames.len() > 10_000 { break "runaway".to_string(); }
                };
                (frames, end)
            });
            let ops = vec![line.to_string()];
            match r {
                Err(msg) => {
                    out.oracle_fail(&format!("parse.{}.panic", op), &format!("pipelined read panicked: {}", msg), &ops);
                    (format!("{} PANIC", idx), false)
                }
                Ok((frames, end)) => {
                    // independent oracle: the frames are exactly the whole consistent frames at the front of the stream
                    let (want, _tail) = RawFrame::split_stream(&bs);
                    let want: Vec<Vec<u8>> = want.iter().map(|f| f.to_vec()).collect();
                    if frames != want {
                        out.oracle_fail(&format!("parse.{}.pipelined_frames", op), &format!("reading a pipelined stream returned {} frames, the stream holds {} whole frames (or their bytes differ)", frames.len(), want.len()), &ops);
                    }
                    out.count(&format!("parse.{}.frames", op));
                    let shown: Vec<String> = frames.iter().map(|f| format!("{}:{:016x}", f.len(), fnv(f))).collect();
                    (format!("{} n={} [{}] end={}", idx, frames.len(), shown.join(","), end), !frames.is_empty())
                }
            }
        }
        other => panic!("unknown op {}", other),
    }
}

fn continue_ok(shown: &mut Vec<String>, frames: &[Vec<u8>], end: &str) {
    let fs: Vec<String> = frames.iter().map(|f| format!("{}:{:016x}", f.len(), fnv(f))).collect();
    shown.push(format!("n={} [{}] end={}", frames.len(), fs.join(","), end));
}

/// Direct oracle for C02, independent of the model: no panic; success iff the independent parser
/// finds a whole consistent frame (and, for exact variants, nothing after it); returned parts are the
/// corresponding input bytes.
fn parse_oracle(out: &mut Out, line: &str, op: &str, bs: &[u8], r: &Result<Result<(RawHeader, Vec<u8>, Vec<u8>), String>, String>) {
    let ops = vec![line.to_string()];
    let r = match r {
        Err(msg) => {
            out.count("parse.PANIC");
            let h = RawHeader::parse(bs);
            let sig = match h {
                Some(h) if 48u64.checked_add(h.query_length).and_then(|x| x.checked_add(h.body_length)).is_none() => format!("parse.{}.panic.sum_overflow", op),
                Some(h) if h.query_length >= (1 << 62) || h.body_length >= (1 << 62) => format!("parse.{}.panic.huge_declared", op),
                _ => format!("parse.{}.panic", op),
            };
            out.oracle_fail(&sig, &format!("entry point {} panicked: {}", op, msg), &ops);
            return;
        }
        Ok(r) => r,
    };
    let exact = op == "slicex" || op == "viewx";
    let expect: Option<(RawHeader, Vec<u8>, Vec<u8>)> = if op == "hdr" {
        match RawHeader::parse(bs) {
            Some(h) if h.consistent() => Some((h, vec![], vec![])),
            _ => None,
        }
    } else {
        match RawFrame::parse_prefix(bs) {
            Some((f, n)) if !exact || n == bs.len() => Some((f.h, f.query, f.body)),
            _ => None,
        }
    };
    match (r, expect) {
        (Ok(got), Some(want)) => {
            out.count(&format!("parse.{}.ok", op));
            if *got != want {
                out.oracle_fail(&format!("parse.{}.wrong_parts", op), "parsed parts are not the corresponding input bytes", &ops);
            }
        }
        (Ok(_), None) => {
            out.oracle_fail(&format!("parse.{}.accepts_inconsistent", op), "parse succeeded on bytes that are not a whole consistent frame", &ops);
        }
        (Err(class), Some(_)) => {
            // a whole consistent frame that fails to parse: only acceptable for readers refusing an allocation
            out.oracle_fail(&format!("parse.{}.rejects_consistent", op), &format!("consistent frame rejected with {}", class), &ops);
        }
        (Err(class), None) => {
            out.count(&format!("parse.{}.err.{}", op, class));
        }
    }
}

// ------------------------------------------------------------------------------------------
// generators
// ------------------------------------------------------------------------------------------

fn gen_len(r: &mut Rng, big: bool) -> usize {
    match r.below(if big { 12 } else { 10 }) {
        0 | 1 => 0,
        2 => 1,
        3 => *r.pick(&[47usize, 48, 49]),
        4 | 5 | 6 => r.below(24) as usize,
        7 | 8 => r.below(200) as usize,
        9 => *r.pick(&[255usize, 256, 257, 511, 512, 1023, 1024]),
        10 => *r.pick(&[4095usize, 4096, 4097, 8191, 8192, 8193]),
        _ => *r.pick(&[65535usize, 65536, 65537]),
    }
}

fn gen_wire(r: &mut Rng, n: usize, big_every: usize) -> Vec<String> {
    let mut ops = Vec::new();
    let mut next_sink = 6usize;
    for i in 0..n {
        let big = big_every > 0 && i % big_every == 0;
        let q = { let l = gen_len(r, big); r.bytes(l) };
        let b = { let l = gen_len(r, big); r.bytes(l) };
        let consistent = r.chance(7, 10);
        let h = RawHeader {
            length: if consistent { 48 + q.len() as u64 + b.len() as u64 } else { r.boundary(64) },
            spec: if consistent || r.chance(1, 2) { 0x1507 } else { r.boundary(16) as u16 },
            version: r.boundary(8) as u8,
            notify: r.boundary(8) as u8,
            reserved: r.boundary(32) as u32,
            id: r.boundary(64),
            query_length: if consistent { q.len() as u64 } else { r.boundary(64) },
            body_length: if consistent { b.len() as u64 } else { r.boundary(64) },
            query_format: r.boundary(16) as u16,
            body_format: r.boundary(16) as u16,
            ec: r.boundary(32) as u32,
        };
        let total = 48 + q.len() + b.len();
        let cap = match r.below(6) {
            0 => total.saturating_sub(1),
            1 => total,
            2 => total + 1,
            3 => b.len(),
            4 => 2 * total,
            _ => b.len() + r.below(total as u64 + 2) as usize,
        };
        let qspare = *r.pick(&[0usize, 0, 1, 47, 48, 49, 128, 4096]);
        let wmax = *r.pick(&[1usize, 2, 7, 8, 47, 48, 49, 50, 64, 1000]);
        ops.push(format!("msg {} {} {} {} {} {} {} {}", i, h.fields(), hex(&q), hex(&b), cap, qspare, wmax, r.below(2)));
        if i % 5 == 0 {
            let ec = *r.pick(&[0u32, 1, 2, 3, 4, 5, 6, 7, 8, 9, 4096]);
            ops.push(format!("build {}b {} {} {} {} {} {} {} {}", i, r.boundary(64), r.below(2), ec, r.boundary(16), r.boundary(16), hex(&q), hex(&b), r.below(12)));
        }
        if i >= next_sink || i + 1 == n {
            // class g: 1, 2, 7, 8, 9, 16, 17 (thorough: 64, 65, 256, 1000) frames in a row through the persistent writers
            ops.push(format!("sink {}s", i));
            next_sink = i + *r.pick(if big_every <= 40 { &[1usize, 2, 7, 8, 9, 16, 17, 64, 65, 256, 1000][..] } else { &[1usize, 2, 7, 8, 9, 16, 17][..] });
        }
        if i % 9 == 0 {
            gen_aux(r, &mut ops, i, &h, &q, &b);
        }
    }
    ops
}

const TEXTS: &[&str] = &["", "x", "not found", "naïve — ünïcödé ✓", "tab\there\nnewline", "\u{0}nul inside", " leading and trailing "];
const CODES: &[u32] = &[0, 1, 2, 3, 4, 5, 6, 7, 8, 9, 4096];

fn gen_text(r: &mut Rng) -> String {
    match r.below(9) {
        0 => "e".repeat(*r.pick(&[255usize, 256, 4096, 70_000])),
        _ => r.pick(TEXTS).to_string(),
    }
}

fn gen_query(r: &mut Rng) -> Vec<u8> {
    match r.below(8) {
        0 => vec![],
        1 => b"/".to_vec(),
        2 => "/é/ü/√".as_bytes().to_vec(),
        3 => vec![0xff, 0xfe, 0x00, 0x2f],          // not UTF-8
        4 => { let mut v = b"/long".to_vec(); v.extend(std::iter::repeat(b'q').take(*r.pick(&[47usize, 48, 49, 4096, 66_000]))); v }
        _ => { let l = r.below(40) as usize; let mut v = b"/".to_vec(); v.extend(r.bytes(l).iter().map(|x| b'a' + x % 26)); v }
    }
}

/// Ops for the entry points beside the plain emission routes: Message::new / serialized_len, the library's own
/// message constructors, the documented slice-writer twins, body callbacks of the streaming writer.
fn gen_aux(r: &mut Rng, ops: &mut Vec<String>, i: usize, h: &RawHeader, q: &[u8], b: &[u8]) {
    // Message::new with matching and mismatching declared lengths (each off by one, both, wrapped)
    let mut nh = h.clone();
    match r.below(6) {
        0 => { nh.query_length = q.len() as u64; nh.body_length = b.len() as u64; }
        1 => { nh.query_length = q.len() as u64 + 1; nh.body_length = b.len() as u64; }
        2 => { nh.query_length = q.len() as u64; nh.body_length = (b.len() as u64).wrapping_sub(1); }
        3 => { nh.query_length = b.len() as u64; nh.body_length = q.len() as u64; }
        4 => { nh.query_length = (q.len() as u64) | (1 << 32); nh.body_length = b.len() as u64; }
        _ => {}
    }
    ops.push(format!("new {}n {} {} {}", i, nh.fields(), hex(q), hex(b)));
    let code = *r.pick(CODES);
    ops.push(format!("errmsg {}e {} {}", i, code, hex(gen_text(r).as_bytes())));
    let rq = gen_query(r);
    let (sq, sb) = if r.chance(1, 2) { (rq.len() as u64, 3) } else { (r.boundary(64), r.boundary(64)) };
    ops.push(format!("errlike {}l {} {} {} {} {} {}", i, r.boundary(64), hex(&rq), *r.pick(CODES), hex(gen_text(r).as_bytes()), sq, sb));
    // create_response: the body is serialised here, independently, with the same serialisers the crate documents
    let value = match r.below(6) {
        0 => serde_json::Value::Null,
        1 => serde_json::json!(r.next() as i64),
        2 => serde_json::json!(gen_text(r)),
        3 => serde_json::json!([1, 2, {"k": r.below(100)}]),
        4 => serde_json::json!({"a": {"b": [true, false, null]}, "s": gen_text(r)}),
        _ => serde_json::json!([]),
    };
    let bf = *r.pick(&[0u16, 1, 2, 3]);
    let body = match bf {
        1 => beve::to_vec(&value).unwrap(),
        3 => serde_json::to_string(&value).unwrap().into_bytes(),
        _ => serde_json::to_vec(&value).unwrap(),
    };
    let rqf = *r.pick(&[0u16, 1, 1, 2, 4095, 65535]);
    ops.push(format!("resp {}r {} {} {} {} {} {}", i, r.boundary(64), rqf, hex(&gen_query(r)), bf, hex(&body), hex(serde_json::to_string(&value).unwrap().as_bytes())));
    let which = *r.pick(&["utf8", "json", "beve"]);
    let fbody = match which { "utf8" => gen_text(r).into_bytes(), "json" => serde_json::to_vec(&value).unwrap(), _ => beve::to_vec(&value).unwrap() };
    ops.push(format!("bodyfmt {}f {} {} {} {} {}", i, which, r.boundary(64), hex(&gen_query(r)), hex(serde_json::to_string(&value).unwrap().as_bytes()), hex(&fbody)));
    // documented twins: slice writers
    let kind = *r.pick(&["f64", "i32", "u8", "c32"]);
    let unit = match kind { "f64" | "c32" => 8, "i32" => 4, _ => 1 };
    let count = *r.pick(&[0usize, 1, 2, 3, 63, 64, 65, 1000]);
    let raw = r.bytes(unit * count);
    // the header ARGUMENT over every field's boundary classes: a fresh header, one copied from a JSON / UTF-8 / custom-format
    // message, stale lengths, error code, notify, reserved, any version
    let mut th = h.clone();
    let any_bf = r.boundary(16) as u16;
    th.body_format = *r.pick(&[0u16, 0, 1, 2, 3, 0x1001, 0xFFFF, any_bf]);
    th.query_format = *r.pick(&[0u16, 1, 7, 65535]);
    if r.chance(1, 3) { th.spec = 0x1507; th.version = 1; th.notify = 0; th.reserved = 0; th.ec = 0; }
    let tq = gen_query(r);
    let payload = match kind {
        "f64" => Message::builder().body_typed_slice(&raw.chunks_exact(8).map(|c| f64::from_le_bytes(c.try_into().unwrap())).collect::<Vec<f64>>()).build().body,
        "i32" => Message::builder().body_typed_slice(&raw.chunks_exact(4).map(|c| i32::from_le_bytes(c.try_into().unwrap())).collect::<Vec<i32>>()).build().body,
        "u8" => Message::builder().body_typed_slice(&raw[..]).build().body,
        _ => Message::builder().body_complex_slice(&raw.chunks_exact(8).map(|c| repe::Complex { re: f32::from_le_bytes(c[..4].try_into().unwrap()), im: f32::from_le_bytes(c[4..].try_into().unwrap()) }).collect::<Vec<repe::Complex<f32>>>()).build().body,
    };
    ops.push(format!("twin {}t {} {} {} {} {}", i, kind, th.fields(), hex(&tq), hex(&raw), hex(&payload)));
    let beh = *r.pick(&["plain", "err_io", "err_repe", "panic_str", "panic_string", "panic_other", "slow", "nested"]);
    ops.push(format!("cb {}c {} {} {} {}", i, beh, h.fields(), hex(q), hex(&b[..b.len().min(300)])));
}

const FRAGS: &[usize] = &[0, 0, 1, 2, 3, 7, 47, 48, 49, 64, 1000, 4097];
const RUNS_QUICK: &[usize] = &[1, 2, 7, 8, 9, 16, 17, 64, 65];
const RUNS_THOROUGH: &[usize] = &[1, 2, 7, 8, 9, 16, 17, 64, 65, 256, 1000];

/// class h: every query length and every body length 0..=max once (an internal threshold — inline buffer, stack array, small-
/// size fast path — can sit at any value, not only next to a power of two), plus 2^k-3..2^k+3 up to 64 KiB.
fn gen_dense(r: &mut Rng, max: usize, pow2_up_to: u32) -> Vec<String> {
    let mut lens: Vec<usize> = (0..=max).collect();
    for k in 9..=pow2_up_to {
        for d in -3i64..=3 {
            let v = (1i64 << k) + d;
            if v as usize > max { lens.push(v as usize); }
        }
    }
    let mut ops = Vec::new();
    for (i, &l) in lens.iter().enumerate() {
        for which in 0..2 {
            let (ql, bl) = if which == 0 { (l, r.below(9) as usize) } else { (r.below(9) as usize, l) };
            let (q, b) = (r.bytes(ql), r.bytes(bl));
            let mut h = RawFrame::request(r.next(), false, 1, &q, 2, &b).h;
            h.reserved = r.next() as u32;
            let total = 48 + ql + bl;
            let cap = *r.pick(&[bl, total - 1, total, total + 1, 2 * total]);
            ops.push(format!("msg d{}{} {} {} {} {} {} {} {}", i, which, h.fields(), hex(&q), hex(&b), cap, *r.pick(&[0usize, 48, 300]), *r.pick(&[1usize, 7, 48, 1000]), r.below(2)));
        }
        if i % 16 == 15 { ops.push(format!("sink d{}s", i)); }
    }
    ops.push("sink dend".to_string());
    ops
}

/// 2–3 pieces with cut points at the places that matter for a frame `48 + ql + bl` long starting at `base`.
fn gen_cuts(r: &mut Rng, base: usize, ql: usize, bl: usize) -> String {
    let total = 48 + ql + bl;
    let mut pts = Vec::new();
    for _ in 0..r.range(1, 2) {
        pts.push(base + match r.below(7) {
            0 => 1 + r.below(47) as usize,
            1 => 48,
            2 if ql > 1 => 48 + 1 + r.below(ql as u64 - 1) as usize,
            3 => 48 + ql,
            4 if bl > 1 => 48 + ql + 1 + r.below(bl as u64 - 1) as usize,
            5 => total,
            _ => 1 + r.below(total as u64) as usize,
        });
    }
    pts.sort();
    format!("c{}", pts.iter().map(|x| x.to_string()).collect::<Vec<_>>().join("."))
}

/// class p: every io::ErrorKind handed INTO the four readers by the stream, once, at a random offset of a stream of valid
/// frames; then the same buffer on a clean stream.  The reader returns an error (or, for Interrupted, may go on as if nothing
/// happened): never a frame that is not on the stream, never a panic.
fn gen_io_errors(r: &mut Rng, tag: &str) -> Vec<String> {
    let mut ops = Vec::new();
    for (i, (name, _)) in IO_KINDS.iter().enumerate() {
        let mut stream = Vec::new();
        for j in 0..r.range(1, 3) {
            let (ql, bl) = (r.below(20) as usize, r.below(400) as usize);
            let (q, b) = (r.bytes(ql), r.bytes(bl));
            stream.extend(RawFrame::request(j + 1, false, 1, &q, 2, &b).to_vec());
        }
        let k = r.below(stream.len() as u64) as usize;
        let clean = RawFrame::request(9, false, 1, b"/after", 2, b"clean").to_vec();
        for kind in 0..4 {
            ops.push(format!("readm {}{}k{} {} {} e{}.{}:{} {}", tag, i, kind, kind, *r.pick(&[0usize, 1, 7, 48]), k, name, hex(&stream), hex(&clean)));
        }
    }
    ops
}

/// class g for the readers: N identical frames back to back (header-only "keep-alives", small, medium) through one reader
/// and one reused buffer; class i: the same with 2–3-piece delivery.
fn gen_runs(r: &mut Rng, runs: &[usize], tag: &str) -> Vec<String> {
    let mut ops = Vec::new();
    let mut k = 0;
    for &n in runs {
        for kind in 0..3 {
            let (q, b) = match kind { 0 => (vec![], vec![]), 1 => (b"/k".to_vec(), r.bytes(3)), _ => (r.bytes(20), r.bytes(280)) };
            let f = RawFrame::request(7, kind == 0, 1, &q, 2, &b).to_vec();
            let mut stream = Vec::with_capacity(f.len() * n);
            for _ in 0..n { stream.extend_from_slice(&f); }
            let base = f.len() * r.below(n as u64) as usize;
            let spec = if r.chance(1, 2) { gen_cuts(r, base, q.len(), b.len()) } else { r.pick(FRAGS).to_string() };
            for name in ["reads0", "reads1", "reads2", "reads3"] {
                ops.push(format!("{} {}{} {} {}", name, tag, k, hex(&stream), spec));
                k += 1;
            }
        }
    }
    ops
}


const MIB16: u64 = 16 << 20;

/// The property's quantifier for stream readers: declared sizes at most 16 MiB or at least 2^62.
fn reader_in_scope(bs: &[u8]) -> bool {
    match RawHeader::parse(bs) {
        None => true,
        Some(h) => {
            let ok = |x: u64| x <= MIB16 || x >= (1 << 62);
            ok(h.query_length) && ok(h.body_length)
        }
    }
}

fn lattice(r: &mut Rng, buf_len: u64) -> u64 {
    let base = [0u64, 1, 2, 47, 48, 49, buf_len.saturating_sub(48), buf_len.saturating_sub(47), buf_len.saturating_sub(49), buf_len,
        1 << 31, 1 << 32, (1 << 32) + 1, 1 << 62, (1 << 62) + 1, 1 << 63, (1 << 63) + 7, u64::MAX];
    match r.below(4) {
        0 => u64::MAX - r.below(65),
        1 => r.below(64),
        _ => *r.pick(&base),
    }
}

fn gen_parse_inputs(r: &mut Rng, n: usize) -> Vec<Vec<u8>> {
    let mut v: Vec<Vec<u8>> = Vec::new();
    // corpus: the two findings of DESIGN.md §9 first
    let f1 = RawHeader { length: 48, spec: 0x1507, version: 1, query_length: u64::MAX, body_length: 1, ..Default::default() };
    v.push(f1.encode().to_vec());
    let f2 = RawHeader { length: 48 + (1 << 62), spec: 0x1507, version: 1, query_length: 1 << 62, ..Default::default() };
    v.push(f2.encode().to_vec());
    let f3 = RawHeader { length: 48u64.wrapping_add(1 << 63), spec: 0x1507, version: 1, body_length: 1 << 63, ..Default::default() };
    v.push(f3.encode().to_vec());
    // class r: the "too long" classes have siblings that EXIST at that length — valid frames of 4 KiB, 8 KiB ± 1, 64 KiB ± 1
    // (thorough: 1 MiB) through every entry point, whole and with one byte missing / one byte extra
    for &total in if n > 10_000 { &[4096usize, 8191, 8192, 8193, 65535, 65536, 65537, 1 << 20][..] } else { &[4096usize, 8192, 8193, 65536][..] } {
        let ql = *r.pick(&[0usize, 5, 300]);
        let (q, b) = (r.bytes(ql), r.bytes(total - 48 - ql));
        let f = RawFrame::request(r.next(), false, 1, &q, 2, &b).to_vec();
        v.push(f.clone());
        v.push(f[..f.len() - 1].to_vec());
        let mut g = f; g.push(0); v.push(g);
    }
    for i in 0..n {
        let valid = {
            let q = { let l = r.below(20) as usize; r.bytes(l) };
            let b = { let l = r.below(40) as usize; r.bytes(l) };
            let mut f = RawFrame::request(r.boundary(64), r.chance(1, 4), r.boundary(16) as u16, &q, r.boundary(16) as u16, &b);
            // the fields no parser may care about take their full ranges here too (a third of the inputs keep the
            // ordinary values so that the ordinary paths stay densely covered)
            if r.chance(2, 3) {
                f.h.version = r.boundary(8) as u8;
                f.h.notify = r.boundary(8) as u8;
                f.h.reserved = r.boundary(32) as u32;
                f.h.ec = r.boundary(32) as u32;
            }
            f
        };
        let mut bs = valid.to_vec();
        match i % 8 {
            0 => {
                // arbitrary bytes
                let l = match r.below(6) { 0 => r.below(48) as usize, 1 => 48, 2 => 48 + r.below(8) as usize, 3 => r.below(4096) as usize, _ => r.below(200) as usize };
                bs = r.bytes(l);
                if r.chance(1, 2) && bs.len() >= 10 {
                    bs[8] = 0x07;
                    bs[9] = 0x15;
                }
            }
            1 => { /* valid frame as is */ }
            2 => {
                // valid frame followed by trailing bytes
                let l = 1 + r.below(60) as usize;
                bs.extend(r.bytes(l));
            }
            3 => {
                // truncated anywhere
                let l = r.below(bs.len() as u64) as usize;
                bs.truncate(l);
            }
            4 => {
                // one length field ±k, or magic flipped
                let mut h = valid.h.clone();
                match r.below(5) {
                    0 => h.length = h.length.wrapping_add(r.range(1, 3)),
                    1 => h.length = h.length.wrapping_sub(r.range(1, 3)),
                    2 => h.query_length = h.query_length.wrapping_add(r.range(1, 3)),
                    3 => h.body_length = h.body_length.wrapping_sub(r.range(1, 3)),
                    _ => h.spec ^= 1 << r.below(16),
                }
                bs[..48].copy_from_slice(&h.encode());
            }
            5 | 6 => {
                // the three length fields over the boundary lattice, incl. sums that wrap
                let mut h = valid.h.clone();
                let bl = bs.len() as u64;
                h.query_length = lattice(r, bl);
                h.body_length = lattice(r, bl);
                h.length = match r.below(4) {
                    0 => lattice(r, bl),
                    1 => 48u64.wrapping_add(h.query_length).wrapping_add(h.body_length),
                    2 => 48u64.saturating_add(h.query_length).saturating_add(h.body_length),
                    _ => bl,
                };
                bs[..48].copy_from_slice(&h.encode());
            }
            _ => {
                // consistent header declaring more than is supplied (small or never-allocatable)
                let mut h = valid.h.clone();
                if r.chance(1, 2) {
                    h.body_length = *r.pick(&[1u64 << 62, (1 << 62) + 5, 1 << 63, u64::MAX - 100]);
                } else {
                    h.body_length += r.range(1, 5000);
                }
                h.length = 48u64.wrapping_add(h.query_length).wrapping_add(h.body_length);
                bs[..48].copy_from_slice(&h.encode());
            }
        }
        v.push(bs);
    }
    v
}

fn gen_parse(r: &mut Rng, n: usize, truncation_sweeps: usize) -> Vec<String> {
    let mut ops = Vec::new();
    let mut k = 0usize;
    // the stream readers get their input in fragments of a size drawn per input (recorded on the op line)
    let frag_state = std::cell::Cell::new(r.next());
    let mut push = |ops: &mut Vec<String>, name: &str, bs: &[u8]| {
        if name.starts_with("read") {
            let mut fr = Rng(frag_state.get() | 1);
            let f = *fr.pick(FRAGS);
            frag_state.set(fr.next());
            ops.push(format!("{} {} {} {}", name, k, hex(bs), f));
        } else {
            ops.push(format!("{} {} {}", name, k, hex(bs)));
        }
        k += 1;
    };
    for bs in gen_parse_inputs(r, n) {
        push(&mut ops, "hdr", &bs);
        for name in ["slice", "slicex", "view", "viewx"] {
            push(&mut ops, name, &bs);
        }
        if reader_in_scope(&bs) {
            for name in ["read0", "read1", "read2", "read3"] {
                push(&mut ops, name, &bs);
            }
        }
    }
    // streams truncated at every byte position
    for _ in 0..truncation_sweeps {
        let q = { let l = r.below(6) as usize; r.bytes(l) };
        let b = { let l = r.below(9) as usize; r.bytes(l) };
        let f = RawFrame::request(r.next(), false, 1, &q, 2, &b).to_vec();
        for cut in 0..=f.len() {
            for name in ["read0", "read1", "read2", "read3", "slice", "viewx"] {
                push(&mut ops, name, &f[..cut]);
            }
        }
    }
    // pipelined streams: several frames of shrinking / growing sizes back to back, optionally cut or followed by garbage
    for _ in 0..(n / 20).max(20) {
        let nf = r.range(1, 6) as usize;
        let mut stream = Vec::new();
        for j in 0..nf {
            let ql = if j == 0 { r.below(40) as usize } else { r.below(8) as usize };
            let bl = match r.below(4) { 0 => 0, 1 => r.below(16) as usize, 2 => r.below(300) as usize, _ => r.below(3000) as usize };
            let q = r.bytes(ql);
            // bodies may themselves contain what looks like a frame
            let b = if r.chance(1, 5) { RawFrame::request(2989, false, 1, b"/x", 2, b"{}").to_vec() } else { r.bytes(bl) };
            stream.extend(RawFrame::request(j as u64 + 1, r.chance(1, 4), 1, &q, 2, &b).to_vec());
        }
        match r.below(4) {
            0 => { let cut = r.below(stream.len() as u64 + 1) as usize; stream.truncate(cut); }
            1 => { let l = r.below(60) as usize; stream.extend(r.bytes(l)); }
            _ => {}
        }
        for name in ["reads0", "reads1", "reads2", "reads3"] {
            push(&mut ops, name, &stream);
        }
    }
    drop(push);
    ops.extend(gen_readm(r, (n / 40).max(12), "pm"));
    ops.extend(gen_runs(r, if n > 10_000 { RUNS_THOROUGH } else { RUNS_QUICK }, "pr"));
    ops.extend(gen_io_errors(r, "pe"));
    ops
}

/// One reader and ONE reused buffer over 2–4 streams in a row; streams end cleanly, mid-frame, in garbage, in a
/// hostile header (so the reuse happens after Ok, after UnexpectedEof, after InvalidSpec/LengthMismatch/alloc refusal).
fn gen_readm(r: &mut Rng, n: usize, tag: &str) -> Vec<String> {
    let mut ops = Vec::new();
    for i in 0..n {
        // class g: now and then 7, 8, 9, 16, 17 error results in a row on the one buffer
        let ns = if i % 5 == 4 { *r.pick(&[7u64, 8, 9, 16, 17]) } else { r.range(2, 4) };
        let mut streams = Vec::new();
        for s in 0..ns {
            let mut stream = Vec::new();
            for j in 0..r.range(1, 3) {
                // a long frame first, shorter ones later (and the other way round)
                let bl = if (s + j) % 2 == 0 { 300 + r.below(2500) as usize } else { r.below(60) as usize };
                let ql = r.below(24) as usize;
                let (q, b) = (r.bytes(ql), r.bytes(bl));
                stream.extend(RawFrame::request(100 * s + j, r.chance(1, 4), 1, &q, 2, &b).to_vec());
            }
            if ns > 4 && stream.len() > 400 { stream.truncate(400 - (s as usize % 7)); }
            let mut panics_at: Option<usize> = None;
            match r.below(7) {
                0 => { let cut = r.below(stream.len() as u64) as usize; stream.truncate(cut); }
                1 => { let l = 1 + r.below(80) as usize; stream.extend(r.bytes(l)); }
                2 => stream.extend(RawHeader { length: 48 + (1 << 62), spec: 0x1507, version: 1, body_length: 1 << 62, ..Default::default() }.encode()),
                3 => stream.extend(RawHeader { length: 47, spec: 0x1507, version: 1, query_length: u64::MAX, ..Default::default() }.encode()),
                // class m: the stream's own read() panics at a random offset; the unwind goes through the reader
                4 if ns <= 4 => panics_at = Some(r.below(stream.len() as u64) as usize),
                _ => {}
            }
            streams.push(match panics_at { Some(k) => format!("p{}:{}", k, hex(&stream)), None => hex(&stream) });
        }
        for kind in 0..4 {
            let spec = if r.chance(1, 3) { gen_cuts(r, 0, 10, 300) } else { r.pick(FRAGS).to_string() };
            ops.push(format!("readm {}{}k{} {} {} {}", tag, i, kind, kind, spec, streams.join(" ")));
        }
    }
    ops
}


// ------------------------------------------------------------------------------------------
// hostile bytes against the real endpoints (C02: "any parsing or stream-reading entry point")
// ------------------------------------------------------------------------------------------
static PANICS: std::sync::atomic::AtomicU64 = std::sync::atomic::AtomicU64::new(0);

fn counting_panic_hook() {
    std::panic::set_hook(Box::new(|_| {
        PANICS.fetch_add(1, std::sync::atomic::Ordering::SeqCst);
    }));
}

#[allow(dead_code)]
struct NetWorld {
    rt: tokio::runtime::Runtime,
    tcp: std::net::SocketAddr,
    atcp: std::net::SocketAddr,
    ws: std::net::SocketAddr,
    /// blocking / async TCP servers configured with a short READ TIMEOUT (the knob is off by default)
    tcprt: std::net::SocketAddr,
    atcprt: std::net::SocketAddr,
    /// how often the handler of `/smuggled` ran on those two servers: no op ever sends a frame addressed to it
    smuggled: std::sync::Arc<std::sync::atomic::AtomicU64>,
    /// every TCP endpoint by name: read timeout × write timeout pairs (class k): tcp/atcp (none, none), tcpw/atcpw
    /// (none, 150 ms), tcprt/atcprt (30 ms, none), tcprw/atcprw (30 ms, 150 ms)
    tcp_eps: std::collections::BTreeMap<&'static str, (std::net::SocketAddr, bool)>,
}

const WRITE_TIMEOUT_MS: u64 = 150;

fn tcp_ep(w: &NetWorld, name: &str) -> (std::net::SocketAddr, bool) {
    *w.tcp_eps.get(name).unwrap_or_else(|| panic!("unknown tcp endpoint {}", name))
}

fn ask_ping(addr: std::net::SocketAddr, ping: &[u8]) -> bool {
    use std::io::{Read, Write};
    if let Ok(mut s) = std::net::TcpStream::connect(addr) {
        let _ = s.set_read_timeout(Some(std::time::Duration::from_secs(10)));
        if s.write_all(ping).is_ok() {
            let mut buf = Vec::new();
            let mut tmp = [0u8; 4096];
            while RawFrame::parse_prefix(&buf).is_none() {
                match s.read(&mut tmp) { Ok(0) | Err(_) => break, Ok(n) => buf.extend_from_slice(&tmp[..n]) }
            }
            return RawFrame::parse_prefix(&buf).map(|(f, _)| f.h.id == 77 && f.h.ec == 0).unwrap_or(false);
        }
    }
    false
}

/// "The endpoint still serves": a well-formed request on a fresh connection is answered.  An endpoint with a short read
/// timeout may legitimately drop a connection whose first bytes arrive late (this process descheduled between connect and
/// write), so there a few fresh connections are tried — the statement is about the endpoint, not about one connection.
fn still_serves(addr: std::net::SocketAddr, has_read_timeout: bool, ping: &[u8]) -> bool {
    // "Dead" means dead: an endpoint that is merely slow to answer (a one-worker runtime shared by every async endpoint and
    // client of this process, a cold or busy machine) is not what the oracle is about.  A few quick tries first; if none is
    // answered, keep asking on fresh connections for up to 45 s before calling the endpoint dead (a crashed accept loop or a
    // panicked serving task stays dead, so nothing real is lost; a run stops after 12 oracle failures anyway).
    for _ in 0..(if has_read_timeout { 6 } else { 2 }) {
        HEARTBEAT.fetch_add(1, std::sync::atomic::Ordering::Relaxed);
        if ask_ping(addr, ping) { return true; }
    }
    let t0 = std::time::Instant::now();
    while t0.elapsed() < std::time::Duration::from_secs(45) {
        HEARTBEAT.fetch_add(1, std::sync::atomic::Ordering::Relaxed);
        std::thread::sleep(std::time::Duration::from_millis(250));
        if ask_ping(addr, ping) {
            SLOW_ANSWERS.fetch_add(1, std::sync::atomic::Ordering::Relaxed);
            return true;
        }
    }
    false
}

/// endpoints that answered only after the quick tries (recorded in the evidence; never a failure)
static SLOW_ANSWERS: std::sync::atomic::AtomicU64 = std::sync::atomic::AtomicU64::new(0);

const READ_TIMEOUT_MS: u64 = 30;

fn net_world(lean: bool) -> NetWorld {
    // class l: half of the runs use a runtime with ONE worker and ONE blocking-pool thread for all async endpoints
    let rt = if lean {
        tokio::runtime::Builder::new_multi_thread().worker_threads(1).max_blocking_threads(1).enable_all().build().unwrap()
    } else {
        tokio::runtime::Builder::new_multi_thread().worker_threads(3).enable_all().build().unwrap()
    };
    let mk = || repe::Router::new().with_json("/ping", |_v| Ok(serde_json::json!("pong")));
    let l = std::net::TcpListener::bind("127.0.0.1:0").unwrap();
    let tcp = l.local_addr().unwrap();
    let srv = repe::Server::new(mk());
    std::thread::spawn(move || {
        let _ = srv.serve(l);
    });
    let r2 = mk();
    let atcp = rt.block_on(async {
        let l = tokio::net::TcpListener::bind("127.0.0.1:0").await.unwrap();
        let a = l.local_addr().unwrap();
        tokio::spawn(async move {
            let _ = repe::AsyncServer::new(r2).serve(l).await;
        });
        a
    });
    let r3 = mk();
    let ws = rt.block_on(async {
        let l = tokio::net::TcpListener::bind("127.0.0.1:0").await.unwrap();
        let a = l.local_addr().unwrap();
        tokio::spawn(async move {
            let _ = repe::websocket_server::WebSocketServer::new(r3).serve_listener(l, "/repe").await;
        });
        a
    });
    let smuggled = std::sync::Arc::new(std::sync::atomic::AtomicU64::new(0));
    let mk_rt = |c: std::sync::Arc<std::sync::atomic::AtomicU64>| {
        mk().with_json("/smuggled", move |_v| {
            c.fetch_add(1, std::sync::atomic::Ordering::SeqCst);
            Ok(serde_json::json!("smuggled"))
        })
    };
    let l = std::net::TcpListener::bind("127.0.0.1:0").unwrap();
    let tcprt = l.local_addr().unwrap();
    let srv = repe::Server::new(mk_rt(smuggled.clone())).read_timeout(Some(std::time::Duration::from_millis(READ_TIMEOUT_MS)));
    std::thread::spawn(move || {
        let _ = srv.serve(l);
    });
    let r4 = mk_rt(smuggled.clone());
    let atcprt = rt.block_on(async {
        let l = tokio::net::TcpListener::bind("127.0.0.1:0").await.unwrap();
        let a = l.local_addr().unwrap();
        tokio::spawn(async move {
            let _ = repe::AsyncServer::new(r4).read_timeout(Some(std::time::Duration::from_millis(READ_TIMEOUT_MS))).serve(l).await;
        });
        a
    });
    let mut tcp_eps = std::collections::BTreeMap::new();
    tcp_eps.insert("tcp", (tcp, false));
    tcp_eps.insert("atcp", (atcp, false));
    tcp_eps.insert("tcprt", (tcprt, true));
    tcp_eps.insert("atcprt", (atcprt, true));
    let ms = std::time::Duration::from_millis;
    for (name, rd) in [("tcpw", None), ("tcprw", Some(ms(READ_TIMEOUT_MS)))] {
        let l = std::net::TcpListener::bind("127.0.0.1:0").unwrap();
        tcp_eps.insert(name, (l.local_addr().unwrap(), rd.is_some()));
        let srv = repe::Server::new(mk_rt(smuggled.clone())).read_timeout(rd).write_timeout(Some(ms(WRITE_TIMEOUT_MS))).tcp_nodelay(name == "tcpw");
        std::thread::spawn(move || {
            let _ = srv.serve(l);
        });
    }
    for (name, rd) in [("atcpw", None), ("atcprw", Some(ms(READ_TIMEOUT_MS)))] {
        let router = mk_rt(smuggled.clone());
        let a = rt.block_on(async {
            let l = tokio::net::TcpListener::bind("127.0.0.1:0").await.unwrap();
            let a = l.local_addr().unwrap();
            tokio::spawn(async move {
                let _ = repe::AsyncServer::new(router).read_timeout(rd).write_timeout(Some(ms(WRITE_TIMEOUT_MS))).serve(l).await;
            });
            a
        });
        tcp_eps.insert(name, (a, rd.is_some()));
    }
    NetWorld { rt, tcp, atcp, ws, tcprt, atcprt, smuggled, tcp_eps }
}

/// Send `bs` to a real endpoint (or answer a real client's call with it) and report whether anything panicked
/// and whether the endpoint still serves a well-formed request afterwards.
fn exec_net(out: &mut Out, w: &NetWorld, line: &str) -> (String, bool) {
    use futures_util::{SinkExt, StreamExt};
    use std::io::{Read, Write};
    use tokio_tungstenite::tungstenite::Message as WsMsg;
    let ws_ = words(line);
    let (idx, ep, bs) = (ws_[1], ws_[2], unhex(ws_[3]).unwrap());
    // optional: first a well-formed request on the SAME connection (answered), then the hostile bytes
    let pre = ws_.get(4).map(|x| *x == "1").unwrap_or(false);
    let before = PANICS.load(std::sync::atomic::Ordering::SeqCst);
    let ping = RawFrame::request(77, false, 1, b"/ping", 2, b"null").to_vec();
    let t = std::time::Duration::from_millis(1500);
    let mut alive = true;
    let extra = ws_.get(5).copied().unwrap_or("");
    // ---- class g: the same hostile bytes on N fresh connections in a row (no well-formed request in between)
    if let Some(n) = extra.strip_prefix('n').and_then(|x| x.parse::<usize>().ok()) {
        if ep == "ws" {
            let url = format!("ws://{}/repe", w.ws);
            alive = w.rt.block_on(async {
                for _ in 0..n {
                    if let Ok((mut c, _)) = tokio_tungstenite::connect_async(&url).await {
                        let _ = c.send(WsMsg::Binary(bs.clone())).await;
                        let _ = tokio::time::timeout(std::time::Duration::from_millis(300), c.next()).await;
                    }
                }
                let Ok((mut c, _)) = tokio_tungstenite::connect_async(&url).await else { return false };
                if c.send(WsMsg::Binary(ping.clone())).await.is_err() { return false; }
                match tokio::time::timeout(std::time::Duration::from_secs(10), c.next()).await {
                    Ok(Some(Ok(WsMsg::Binary(b)))) => RawFrame::parse_prefix(&b).map(|(f, _)| f.h.id == 77 && f.h.ec == 0).unwrap_or(false),
                    _ => false,
                }
            });
        } else {
            let (addr, has_rt) = tcp_ep(w, ep);
            for _ in 0..n {
                HEARTBEAT.fetch_add(1, std::sync::atomic::Ordering::Relaxed);
                if let Ok(mut s) = std::net::TcpStream::connect(addr) {
                    let _ = s.write_all(&bs);
                    let _ = s.shutdown(std::net::Shutdown::Write);
                    let _ = repe_verif_harness::net::drain(&mut s, 1 << 16, std::time::Duration::from_millis(300));
                }
            }
            alive = still_serves(addr, has_rt, &ping);
        }
        return finish_net(out, ep, idx, line, before, alive, &format!("{} hostile connections in a row", n));
    }
    // ---- class l (+g): N large well-formed requests written without ever reading a response (the server's outbound side
    // fills up), then the hostile bytes, then the peer goes away
    if let Some(n) = extra.strip_prefix('f').and_then(|x| x.parse::<usize>().ok()) {
        let (addr, has_rt) = tcp_ep(w, ep);
        let big = RawFrame::request(78, false, 1, b"/ping", 2, &{ let mut b = b"null".to_vec(); b.resize(32 * 1024, b' '); b }).to_vec();
        if let Ok(mut s) = std::net::TcpStream::connect(addr) {
            let _ = s.set_write_timeout(Some(std::time::Duration::from_millis(500)));
            for _ in 0..n {
                if s.write_all(&big).is_err() { break; }
            }
            let _ = s.write_all(&bs);
            std::thread::sleep(std::time::Duration::from_millis(30));
        }
        alive = still_serves(addr, has_rt, &ping);
        return finish_net(out, ep, idx, line, before, alive, &format!("{} unread responses then hostile bytes", n));
    }
    // ---- classes h, i: a well-formed request of a chosen total size written in pieces at chosen cut points, with or without
    // a stall, to an endpoint WITHOUT a read timeout: it is one whole consistent frame, so it is served
    if extra.starts_with('c') && matches!(ep, "tcp" | "atcp" | "tcpw" | "atcpw") {
        let (addr, _) = tcp_ep(w, ep);
        let spec = parse_frag(Some(extra));
        let stall = std::time::Duration::from_millis(ws_.get(6).and_then(|x| x.parse().ok()).unwrap_or(0));
        let mut answered = false;
        if let Ok(mut s) = std::net::TcpStream::connect(addr) {
            let _ = s.set_nodelay(true);
            let mut at = 0usize;
            for &sp in spec.cuts.iter().chain(std::iter::once(&bs.len())) {
                let sp = sp.min(bs.len());
                if sp > at {
                    if s.write_all(&bs[at..sp]).is_err() { break; }
                    at = sp;
                }
                if at < bs.len() && !stall.is_zero() { std::thread::sleep(stall); }
            }
            let _ = s.set_read_timeout(Some(std::time::Duration::from_secs(10)));
            let mut buf = Vec::new();
            let mut tmp = [0u8; 4096];
            while RawFrame::parse_prefix(&buf).is_none() {
                match s.read(&mut tmp) { Ok(0) | Err(_) => break, Ok(n) => buf.extend_from_slice(&tmp[..n]) }
            }
            let want_id = RawHeader::parse(&bs).map(|h| h.id).unwrap_or(0);
            answered = RawFrame::parse_prefix(&buf).map(|(f, _)| f.h.id == want_id && f.h.ec == 0).unwrap_or(false);
        }
        if !answered {
            out.oracle_fail(&format!("parse.net.{}.whole_frame_in_pieces_not_served", ep), &format!("a whole consistent {}-byte request delivered in pieces (cuts {:?}, stall {} ms) to an endpoint without a read timeout was not answered", bs.len(), spec.cuts, stall.as_millis()), &[line.to_string()]);
        }
        return finish_net(out, ep, idx, line, before, true, "pieces");
    }
    match ep {
        "tcp" | "atcp" | "tcpw" | "atcpw" | "tcprt" | "atcprt" | "tcprw" | "atcprw" if extra.is_empty() => {
            let (addr, has_rt) = tcp_ep(w, ep);
            let pre = pre && !has_rt;
            if let Ok(mut s) = std::net::TcpStream::connect(addr) {
                if pre {
                    let _ = s.set_read_timeout(Some(std::time::Duration::from_secs(10)));
                    let mut answered = false;
                    if s.write_all(&ping).is_ok() {
                        let mut buf = Vec::new();
                        let mut tmp = [0u8; 4096];
                        while RawFrame::parse_prefix(&buf).is_none() {
                            match s.read(&mut tmp) { Ok(0) | Err(_) => break, Ok(n) => buf.extend_from_slice(&tmp[..n]) }
                        }
                        answered = RawFrame::parse_prefix(&buf).map(|(f, _)| f.h.id == 77 && f.h.ec == 0).unwrap_or(false);
                    }
                    if !answered {
                        out.oracle_fail(&format!("parse.net.{}.dead_before", ep), "a well-formed request on a fresh connection was not answered", &[line.to_string()]);
                    }
                }
                let _ = s.write_all(&bs);
                let _ = s.shutdown(std::net::Shutdown::Write);
                let _ = s.set_read_timeout(Some(t));
                let mut sink = [0u8; 4096];
                let mut said = Vec::new();
                let t0 = std::time::Instant::now();
                while t0.elapsed() < t {
                    match s.read(&mut sink) { Ok(0) | Err(_) => break, Ok(n) => said.extend_from_slice(&sink[..n]) }
                }
                // class u: whatever the server says on this (error) path is made of whole canonical frames (C01's clause on
                // somebody else's path); which error it reports is not judged here
                let (_, tail) = RawFrame::split_stream(&said);
                if tail.len() >= 48 && !RawHeader::parse(&tail).map(|h| h.consistent()).unwrap_or(false) {
                    out.oracle_fail(&format!("parse.net.{}.emitted_inconsistent_frame", ep), "bytes the server sent back on an error path are not a sequence of consistent frames", &[line.to_string()]);
                }
            }
            // the server must still answer a fresh connection
            alive = still_serves(addr, has_rt, &ping);
        }
        "ws" => {
            let url = format!("ws://{}/repe", w.ws);
            let mut served_inexact = false;
            let mut emitted_bad = false;
            alive = w.rt.block_on(async {
                if let Ok((mut c, _)) = tokio_tungstenite::connect_async(&url).await {
                    if pre {
                        let _ = c.send(WsMsg::Binary(ping.clone())).await;
                        let _ = tokio::time::timeout(std::time::Duration::from_secs(10), c.next()).await;
                    }
                    let _ = c.send(WsMsg::Binary(bs.clone())).await;
                    let inexact = !matches!(RawFrame::parse_prefix(&bs), Some((_, n)) if n == bs.len());
                    if let Ok(Some(Ok(WsMsg::Binary(b)))) = tokio::time::timeout(t, c.next()).await {
                        // class u: an error reply is itself exactly one consistent frame
                        if !matches!(RawFrame::parse_prefix(&b), Some((_, n)) if n == b.len()) { emitted_bad = true; }
                        // a WebSocket message that is not exactly one consistent frame must not be answered as a request
                        if inexact && RawFrame::parse_prefix(&b).map(|(f, _)| f.h.ec == 0).unwrap_or(false) {
                            served_inexact = true;
                        }
                    }
                }
                let Ok((mut c, _)) = tokio_tungstenite::connect_async(&url).await else { return false };
                if c.send(WsMsg::Binary(ping.clone())).await.is_err() { return false; }
                match tokio::time::timeout(std::time::Duration::from_secs(10), c.next()).await {
                    Ok(Some(Ok(WsMsg::Binary(b)))) => RawFrame::parse_prefix(&b).map(|(f, _)| f.h.id == 77 && f.h.ec == 0).unwrap_or(false),
                    _ => false,
                }
            });
            if emitted_bad {
                out.oracle_fail("parse.net.ws.emitted_inconsistent_frame", "the WebSocket server's reply on an error path is not exactly one consistent frame", &[line.to_string()]);
            }
            if served_inexact {
                out.oracle_fail("parse.net.ws.served_inexact_message", "the WebSocket server answered (ec 0) a binary message that is not exactly one consistent frame", &[line.to_string()]);
            }
        }
        // a real client whose peer answers its call with hostile bytes: the call must return (Ok or Err)
        "client" | "aclient" | "wsclient" => {
            let returned = match ep {
                "client" => {
                    let l = std::net::TcpListener::bind("127.0.0.1:0").unwrap();
                    let addr = l.local_addr().unwrap();
                    let reply = bs.clone();
                    std::thread::spawn(move || {
                        if let Ok((mut s, _)) = l.accept() {
                            let mut tmp = [0u8; 4096];
                            let _ = s.read(&mut tmp);
                            let _ = s.write_all(&reply);
                            std::thread::sleep(std::time::Duration::from_millis(300));
                        }
                    });
                    let c = repe::Client::connect(addr);
                    match c { Ok(c) => { let _ = c.call_json_with_timeout("/x", &serde_json::json!(1), std::time::Duration::from_secs(5)); true } Err(_) => true }
                }
                "aclient" => w.rt.block_on(async {
                    let l = tokio::net::TcpListener::bind("127.0.0.1:0").await.unwrap();
                    let addr = l.local_addr().unwrap();
                    let reply = bs.clone();
                    tokio::spawn(async move {
                        use tokio::io::{AsyncReadExt, AsyncWriteExt};
                        if let Ok((mut s, _)) = l.accept().await {
                            let mut tmp = [0u8; 4096];
                            let _ = s.read(&mut tmp).await;
                            let _ = s.write_all(&reply).await;
                            tokio::time::sleep(std::time::Duration::from_millis(300)).await;
                        }
                    });
                    match repe::AsyncClient::connect(addr).await {
                        Ok(c) => tokio::time::timeout(std::time::Duration::from_secs(10), c.call_json_with_timeout("/x", &serde_json::json!(1), std::time::Duration::from_secs(5))).await.is_ok(),
                        Err(_) => true,
                    }
                }),
                _ => w.rt.block_on(async {
                    let l = tokio::net::TcpListener::bind("127.0.0.1:0").await.unwrap();
                    let addr = l.local_addr().unwrap();
                    let reply = bs.clone();
                    tokio::spawn(async move {
                        if let Ok((s, _)) = l.accept().await {
                            if let Ok(mut wsx) = tokio_tungstenite::accept_async(s).await {
                                let _ = wsx.next().await;
                                let _ = wsx.send(WsMsg::Binary(reply)).await;
                                tokio::time::sleep(std::time::Duration::from_millis(300)).await;
                            }
                        }
                    });
                    match repe::websocket_client::WebSocketClient::connect(&format!("ws://{}/", addr)).await {
                        Ok(c) => tokio::time::timeout(std::time::Duration::from_secs(10), c.call_json_with_timeout("/x", &serde_json::json!(1), std::time::Duration::from_secs(5))).await.is_ok(),
                        Err(_) => true,
                    }
                }),
            };
            if !returned {
                out.oracle_fail(&format!("parse.net.{}.call_hung", ep), "a call answered with hostile bytes did not return within its own timeout", &[line.to_string()]);
            }
        }
        // a server with a read timeout and a sender that stalls INSIDE a frame for longer than that timeout, at offsets
        // where the rest of the stream begins with a complete well-formed request frame to the counting route `/smuggled`
        // (id 99).  Whatever the server does at the timeout (close, or finish the same frame), it must never take up
        // reading in the middle of a frame: nothing embedded is dispatched or answered.
        "tcp" | "atcp" | "tcpw" | "atcpw" | "tcprt" | "atcprt" | "tcprw" | "atcprw" => {
            let (addr, has_rt) = tcp_ep(w, ep);
            let splits: Vec<usize> = ws_.get(5).map(|x| x.split(',').filter_map(|t| t.parse().ok()).collect()).unwrap_or_default();
            let stall = std::time::Duration::from_millis(ws_.get(6).and_then(|x| x.parse().ok()).unwrap_or(4 * READ_TIMEOUT_MS));
            let (bs2, ping2, smug, ep2, line2) = (bs.clone(), ping.clone(), w.smuggled.clone(), ep.to_string(), line.to_string());
            let job = move || stall_case(addr, has_rt, &bs2, &splits, stall, &smug, &ep2, &line2, &ping2);
            if ws_.get(7).copied() == Some("bg") {
                // long stalls run concurrently; their verdicts are collected at the end of the run
                DEFERRED.lock().unwrap().push((line.to_string(), std::thread::spawn(job)));
            } else {
                for (sig, detail) in job() { out.oracle_fail(&sig, &detail, &[line.to_string()]); }
            }
        }
        // the WebSocket proxy entry point (`proxy_connection`): one inbound binary message = one frame, forwarded upstream
        "wsproxy" => {
            let upstream_addr = w.atcp;
            let mut served_inexact = false;
            alive = w.rt.block_on(async {
                let one = |payload: Vec<u8>, wait: std::time::Duration| async move {
                    let l = tokio::net::TcpListener::bind("127.0.0.1:0").await.ok()?;
                    let addr = l.local_addr().ok()?;
                    tokio::spawn(async move {
                        let Ok(upstream) = repe::AsyncClient::connect(upstream_addr).await else { return };
                        let Ok((s, _)) = l.accept().await else { return };
                        let Ok(wsx) = tokio_tungstenite::accept_async(s).await else { return };
                        let _ = repe::websocket_server::proxy_connection(wsx, upstream).await;
                    });
                    let (mut c, _) = tokio_tungstenite::connect_async(&format!("ws://{}/", addr)).await.ok()?;
                    c.send(WsMsg::Binary(payload)).await.ok()?;
                    match tokio::time::timeout(wait, c.next()).await {
                        Ok(Some(Ok(WsMsg::Binary(b)))) => Some(b),
                        _ => None,
                    }
                };
                let inexact = !matches!(RawFrame::parse_prefix(&bs), Some((_, n)) if n == bs.len());
                if let Some(b) = one(bs.clone(), t).await {
                    if inexact && RawFrame::parse_prefix(&b).map(|(f, _)| f.h.ec == 0).unwrap_or(false) {
                        served_inexact = true;
                    }
                }
                match one(ping.clone(), std::time::Duration::from_secs(10)).await {
                    Some(b) => RawFrame::parse_prefix(&b).map(|(f, _)| f.h.id == 77 && f.h.ec == 0).unwrap_or(false),
                    None => false,
                }
            });
            if served_inexact {
                out.oracle_fail("parse.net.wsproxy.served_inexact_message", "the WebSocket proxy forwarded (and got answered, ec 0) a binary message that is not exactly one consistent frame", &[line.to_string()]);
            }
        }
        // EINTR while the blocking Client's reader is blocked INSIDE a response frame whose remaining bytes begin with a
        // well-formed response frame for the same id: the call may fail, or return the real response — never the embedded one
        "eintr" => {
            let cut = ws_.get(5).copied().unwrap_or("0");
            let signals = ws_.get(6).copied().unwrap_or("1");
            let exe = std::env::current_exe().expect("current exe");
            let outp = std::process::Command::new(exe).args(["eintr-child", ws_[3], cut, signals]).output();
            let text = outp.as_ref().map(|o| String::from_utf8_lossy(&o.stdout).to_string()).unwrap_or_default();
            let res = text.lines().find_map(|l| l.strip_prefix("RESULT ")).unwrap_or("none").to_string();
            out.count(&format!("parse.net.eintr.{}", res.split(' ').next().unwrap_or("none")));
            if res.starts_with("ok-other") {
                out.oracle_fail("parse.net.client.resync_inside_frame_after_eintr", &format!("after {} EINTR at offset {} of a response the blocking Client returned Ok with a body that is not the body of the response frame on the stream ({}): bytes inside the frame were parsed as a frame of their own", signals, cut, &res[..res.len().min(80)]), &[line.to_string()]);
            }
        }
        // class i at the clients' entry points: a well-formed response for the client's own id, delivered in pieces at chosen
        // cut points with stalls in between (`bs` = the JSON body of the reply, padded to a chosen size).  It is one whole
        // consistent frame: the call returns Ok with exactly that body.
        "clientfrag" | "aclientfrag" => {
            let spec = parse_frag(Some(extra));
            let stall = std::time::Duration::from_millis(ws_.get(6).and_then(|x| x.parse().ok()).unwrap_or(0));
            let (body, ep2, line2, handle) = (bs.clone(), ep.to_string(), line.to_string(), w.rt.handle().clone());
            let job = move || client_frag_case(&ep2, handle, &body, &spec.cuts, stall, &line2);
            if ws_.get(7).copied() == Some("bg") {
                DEFERRED.lock().unwrap().push((line.to_string(), std::thread::spawn(job)));
            } else {
                for (sig, detail) in job() { out.oracle_fail(&sig, &detail, &[line.to_string()]); }
            }
        }
        // the real WebSocketClient answered with a well-formed response for ITS id followed by extra bytes in the same
        // binary message: one message per buffer, so the exact-length rule says this is not a response
        "wsecho" => {
            let suffix = bs.clone();
            let accepted = w.rt.block_on(async {
                let l = tokio::net::TcpListener::bind("127.0.0.1:0").await.unwrap();
                let addr = l.local_addr().unwrap();
                tokio::spawn(async move {
                    if let Ok((s, _)) = l.accept().await {
                        if let Ok(mut wsx) = tokio_tungstenite::accept_async(s).await {
                            while let Some(Ok(m)) = wsx.next().await {
                                if let WsMsg::Binary(b) = m {
                                    if let Some(h) = RawHeader::parse(&b) {
                                        let mut reply = RawFrame::request(h.id, false, 1, b"/x", 2, b"7").to_vec();
                                        reply.extend_from_slice(&suffix);
                                        let _ = wsx.send(WsMsg::Binary(reply)).await;
                                    }
                                }
                            }
                        }
                    }
                });
                match repe::websocket_client::WebSocketClient::connect(&format!("ws://{}/", addr)).await {
                    Ok(c) => matches!(tokio::time::timeout(std::time::Duration::from_secs(10), c.call_json_with_timeout("/x", &serde_json::json!(1), std::time::Duration::from_secs(3))).await, Ok(Ok(_))),
                    Err(_) => false,
                }
            });
            if accepted && !bs.is_empty() {
                out.oracle_fail("parse.net.wsclient.accepted_inexact_message", "the WebSocket client accepted as a response a binary message holding a frame followed by extra bytes", &[line.to_string()]);
            }
        }
        other => panic!("unknown endpoint {}", other),
    }
    finish_net(out, ep, idx, line, before, alive, "")
}

/// Verdicts of cases that run in the background (long stalls): (signature, detail) pairs, the op line is the last word of detail's owner.
static DEFERRED: std::sync::Mutex<Vec<(String, std::thread::JoinHandle<Vec<(String, String)>>)>> = std::sync::Mutex::new(Vec::new());

const ID_MARK: u64 = 0x5a5a_5a5a_5a5a_5a5a;

/// Replace every 8-byte id marker in a template by the id the real client chose.
fn stamp_id(template: &[u8], id: u64) -> Vec<u8> {
    let mut real = template.to_vec();
    let marker = ID_MARK.to_le_bytes();
    let mut i = 0;
    while i + 8 <= real.len() {
        if real[i..i + 8] == marker { real[i..i + 8].copy_from_slice(&id.to_le_bytes()); i += 8; } else { i += 1; }
    }
    real
}

/// One frame written in pieces with a stall at each split; the remaining bytes after the (last) split begin with a complete
/// well-formed request frame (id 99 → `/smuggled`).  Nothing embedded may be dispatched or answered.
#[allow(clippy::too_many_arguments)]
fn stall_case(addr: std::net::SocketAddr, has_rt: bool, bs: &[u8], splits: &[usize], stall: std::time::Duration, smuggled: &std::sync::atomic::AtomicU64, ep: &str, line: &str, ping: &[u8]) -> Vec<(String, String)> {
    use std::io::Write;
    let mut fails = Vec::new();
    let count0 = smuggled.load(std::sync::atomic::Ordering::SeqCst);
    let mut got = Vec::new();
    if let Ok(mut s) = std::net::TcpStream::connect(addr) {
        let _ = s.set_nodelay(true);
        let mut at = 0usize;
        for &sp in splits.iter().chain(std::iter::once(&bs.len())) {
            let sp = sp.min(bs.len());
            if sp > at {
                if s.write_all(&bs[at..sp]).is_err() { break; }
                at = sp;
            }
            if at < bs.len() { std::thread::sleep(stall); }
        }
        let _ = s.shutdown(std::net::Shutdown::Write);
        got = repe_verif_harness::net::drain(&mut s, 1 << 20, std::time::Duration::from_millis(400));
    }
    // give a dispatch that is still in flight on the server a moment to show
    std::thread::sleep(std::time::Duration::from_millis(20));
    let answered_99 = RawFrame::split_stream(&got).0.iter().any(|f| f.h.id == 99);
    let ran = smuggled.load(std::sync::atomic::Ordering::SeqCst) != count0;
    if answered_99 || ran {
        fails.push((format!("parse.net.{}.embedded_frame_dispatched", ep), format!("after a stall inside a frame (endpoint read timeout {}, stall {} ms at offsets {:?}) bytes INSIDE that frame were read as a frame of their own: handler ran {}, response for the embedded id arrived {} [{}]", if has_rt { "30 ms" } else { "none" }, stall.as_millis(), splits, ran, answered_99, &line[..line.len().min(40)])));
    }
    if !still_serves(addr, has_rt, ping) {
        fails.push((format!("parse.net.{}.dead_after", ep), "the endpoint no longer answers a well-formed request after a stalled frame".to_string()));
    }
    fails
}

/// A well-formed response for the client's own id delivered in pieces with stalls; `body` may itself contain a well-formed
/// response frame for the same id (marker id, stamped here) right after a cut.  The call returns exactly that response.
fn client_frag_case(ep: &str, handle: tokio::runtime::Handle, body: &[u8], cuts: &[usize], stall: std::time::Duration, line: &str) -> Vec<(String, String)> {
    use std::io::{Read, Write};
    let l = std::net::TcpListener::bind("127.0.0.1:0").unwrap();
    let addr = l.local_addr().unwrap();
    let (cuts2, body2) = (cuts.to_vec(), body.to_vec());
    let (tx, rx) = std::sync::mpsc::channel::<Vec<u8>>();
    std::thread::spawn(move || {
        if let Ok((mut s, _)) = l.accept() {
            let _ = s.set_nodelay(true);
            let mut got = Vec::new();
            let mut tmp = [0u8; 4096];
            while RawFrame::parse_prefix(&got).is_none() {
                match s.read(&mut tmp) { Ok(0) | Err(_) => return, Ok(n) => got.extend_from_slice(&tmp[..n]) }
            }
            let id = RawHeader::parse(&got).map(|h| h.id).unwrap_or(0);
            let reply = RawFrame::request(id, false, 1, b"/x", 0, &stamp_id(&body2, id)).to_vec();
            let _ = tx.send(reply.clone());
            let mut at = 0usize;
            for &sp in cuts2.iter().chain(std::iter::once(&reply.len())) {
                let sp = sp.min(reply.len());
                if sp > at {
                    if s.write_all(&reply[at..sp]).is_err() { return; }
                    at = sp;
                }
                if at < reply.len() && !stall.is_zero() { std::thread::sleep(stall); }
            }
            std::thread::sleep(std::time::Duration::from_millis(300));
        }
    });
    let limit = std::time::Duration::from_secs(10) + 4 * stall;
    let got: Result<Message, String> = if ep == "clientfrag" {
        match repe::Client::connect(addr) {
            Ok(c) => c.call_with_formats_and_timeout("/x", 1, Some(b"{}"), 2, limit).map_err(|e| err_class(&e)),
            Err(e) => Err(format!("connect: {}", e)),
        }
    } else {
        handle.block_on(async {
            match repe::AsyncClient::connect(addr).await {
                Ok(c) => c.call_with_formats_and_timeout("/x", 1, Some(b"{}"), 2, limit).await.map_err(|e| err_class(&e)),
                Err(e) => Err(format!("connect: {}", e)),
            }
        })
    };
    let reply = rx.recv_timeout(std::time::Duration::from_secs(2)).unwrap_or_default();
    let same = match (&got, RawFrame::parse_prefix(&reply)) {
        (Ok(m), Some((f, _))) => m.body == f.body && m.query == f.query && RawHeader::of(&m.header) == f.h,
        _ => false,
    };
    if same { return vec![]; }
    vec![(format!("parse.net.{}.fragmented_reply_wrong", ep), format!("a whole consistent {}-byte response delivered in pieces ({} cuts, first {:?}, stall {} ms) did not come back as itself: {} [{}]", reply.len(), cuts.len(), cuts.first(), stall.as_millis(), match &got { Ok(m) => format!("Ok with a {}-byte body, format {}", m.body.len(), m.header.body_format), Err(e) => format!("Err {}", e) }, &line[..line.len().min(40)]))]
}

fn finish_net(out: &mut Out, ep: &str, idx: &str, line: &str, before: u64, alive: bool, what: &str) -> (String, bool) {
    let after = PANICS.load(std::sync::atomic::Ordering::SeqCst);
    if after != before {
        out.oracle_fail(&format!("parse.net.{}.panic", ep), &format!("{} panic(s) inside the endpoint while it handled hostile bytes {}", after - before, what), &[line.to_string()]);
    }
    if !alive {
        out.oracle_fail(&format!("parse.net.{}.dead_after", ep), &format!("the endpoint no longer answers a well-formed request after receiving hostile bytes {}", what), &[line.to_string()]);
    }
    out.count(&format!("parse.net.{}{}", ep, if what.is_empty() { String::new() } else { format!(".{}", what.split(' ').last().unwrap_or("")) }));
    (format!("{} survived", idx), false)
}

/// Frames sent in 2–3 pieces to the servers that have a read timeout, with a stall (longer than the timeout) at an offset
/// chosen so that the REST of the stream begins with a complete well-formed request frame (id 99, `/smuggled`):
/// inside the header (offset 40: the outer header's last 8 bytes double as the embedded `length` field), at 48 (the outer
/// query is the embedded frame), inside the query, at the query/body boundary, inside the body.
fn gen_stall(r: &mut Rng, n: usize) -> Vec<String> {
    let mut ops = Vec::new();
    let n_long = if n > 16 { 48 } else { 8 };
    for i in 0..n {
        let ebody = { let l = r.below(24) as usize; r.bytes(l) };
        let emb = RawFrame::request(99, r.chance(1, 3), 1, b"/smuggled", 2, if r.chance(1, 2) { b"null" } else { &ebody[..] }).to_vec();
        let junk = |r: &mut Rng, lo: u64, hi: u64| { let l = r.range(lo, hi) as usize; r.bytes(l) };
        let (frame, pos): (Vec<u8>, usize) = match r.below(5) {
            0 => {
                // stall at 40, inside the header
                let l = emb.len() as u64;
                let mut f = RawFrame::request(1, false, (l & 0xffff) as u16, &emb[8..], ((l >> 16) & 0xffff) as u16, &junk(r, 0, 20));
                f.h.ec = (l >> 32) as u32;
                (f.to_vec(), 40)
            }
            1 => (RawFrame::request(1, false, 1, &emb, 2, &junk(r, 0, 40)).to_vec(), 48),
            2 => {
                let k = junk(r, 1, 30);
                let mut q = k.clone();
                q.extend_from_slice(&emb);
                (RawFrame::request(1, false, 1, &q, 2, &junk(r, 0, 40)).to_vec(), 48 + k.len())
            }
            3 => (RawFrame::request(1, false, 1, b"/ping", 2, &{ let mut b = emb.clone(); b.extend(junk(r, 0, 30)); b }).to_vec(), 48 + 5),
            _ => {
                let k = junk(r, 1, 60);
                let mut b = k.clone();
                b.extend_from_slice(&emb);
                b.extend(junk(r, 0, 30));
                (RawFrame::request(1, false, 1, b"/ping", 2, &b).to_vec(), 48 + 5 + k.len())
            }
        };
        // the critical stall alone, or with one more stall before / after it; now and then no stall at all (control)
        let mut splits = vec![pos];
        match r.below(6) {
            0 => splits.insert(0, r.below(pos as u64) as usize),
            1 => splits.push(pos + 1 + r.below((frame.len() - pos) as u64) as usize),
            _ => {}
        }
        let stall_ms = if r.chance(1, 8) { 0 } else { *r.pick(&[4 * READ_TIMEOUT_MS, 5 * READ_TIMEOUT_MS, 7 * READ_TIMEOUT_MS]) };
        let sp: Vec<String> = splits.iter().map(|x| x.to_string()).collect();
        ops.push(format!("net st{} {} {} 0 {} {}", i, ["tcprt", "atcprt", "tcprw", "atcprw"][i % 4], hex(&frame), sp.join(","), stall_ms));
        // stalls longer than any plausible INTERNAL timer (a liveness poll, a keep-alive tick), on every endpoint — also
        // those without a configured read timeout, which then serve the outer frame; run in the background
        if i < n_long {
            let long: &[u64] = if n_long > 8 { &[300, 600, 1100, 2500, 5500, 11000] } else { &[300, 600, 1100] };
            let ep = ["tcp", "atcp", "tcpw", "atcpw", "tcprt", "atcprt", "tcprw", "atcprw"][i % 8];
            ops.push(format!("net sl{} {} {} 0 {} {} bg", i, ep, hex(&frame), pos, long[(i / 8 + i) % long.len()]));
        }
    }
    ops
}

/// Second audit pass, network side: runs of N hostile connections (g), frame sizes around the 8 KiB BufReader/BufWriter
/// capacity and its multiples delivered whole and in pieces (h, i), every read-timeout × write-timeout pair (k), unread
/// responses piling up (l), fragmented replies to the real clients (i).
fn gen_net2(r: &mut Rng, thorough: bool) -> Vec<String> {
    let mut ops = Vec::new();
    let tcp_all = ["tcp", "atcp", "tcpw", "atcpw", "tcprt", "atcprt", "tcprw", "atcprw"];
    let hostile: Vec<Vec<u8>> = vec![
        RawHeader { length: 48, spec: 0, version: 1, ..Default::default() }.encode().to_vec(),
        RawHeader { length: 47, spec: 0x1507, version: 1, query_length: u64::MAX, ..Default::default() }.encode().to_vec(),
        RawHeader { length: 48 + (1 << 62), spec: 0x1507, version: 1, body_length: 1 << 62, ..Default::default() }.encode().to_vec(),
        vec![0x15],
    ];
    // (k) every hostile form once on every timeout combination
    for (i, ep) in tcp_all.iter().enumerate() {
        for (j, h) in hostile.iter().enumerate() {
            ops.push(format!("net k{}{} {} {} {}", i, j, ep, hex(h), r.below(2)));
        }
    }
    // (g) N in a row
    let runs: &[usize] = if thorough { &[1, 2, 7, 8, 9, 16, 17, 64, 65, 256, 1000] } else { &[2, 8, 9, 17] };
    for (i, &n) in runs.iter().enumerate() {
        let eps: Vec<&str> = if thorough { tcp_all.iter().copied().chain(["ws"]).collect() } else { vec![tcp_all[(2 * i) % 8], tcp_all[(2 * i + 1) % 8], "ws"] };
        for ep in eps {
            if ep == "ws" && n > 65 { continue; }
            ops.push(format!("net g{}{} {} {} 0 n{}", i, ep, ep, hex(r.pick(&hostile)), n));
        }
    }
    // (h, i) whole requests whose total size sits around the buffer capacities, in pieces
    let totals: &[usize] = if thorough { &[8191, 8192, 8193, 8192 + 48, 16383, 16384, 16385, 65535, 65536, 65537, 57, 60] } else { &[8191, 8192, 8193, 16384, 57] };
    for (i, &total) in totals.iter().enumerate() {
        for (j, ep) in ["tcp", "atcp", "tcpw", "atcpw"].iter().enumerate() {
            if !thorough && (i + j) % 2 == 1 { continue; }
            let mut body = b"null".to_vec();
            body.resize(total - 48 - 5, b' ');
            let f = RawFrame::request(5000 + i as u64, false, 1, b"/ping", 2, &body).to_vec();
            let cuts = match r.below(4) {
                0 => format!("c{}", (1..f.len().min(200)).map(|x| x.to_string()).collect::<Vec<_>>().join(".")),   // 1-byte pieces
                1 => "c8192".to_string(),
                _ => gen_cuts(r, 0, 5, body.len()),
            };
            // a stall only between 2–3 pieces (a hundred 1-byte pieces with a stall each would just be slow)
            let stall = if cuts.matches('.').count() > 3 { 0 } else { *r.pick(&[0u64, 0, 40, 120]) };
            ops.push(format!("net z{}{} {} {} 0 {} {}", i, j, ep, hex(&f), cuts, stall));
        }
    }
    // (l) unread responses, then hostile bytes
    for (i, ep) in tcp_all.iter().enumerate() {
        if !thorough && i % 2 == 1 { continue; }
        ops.push(format!("net l{} {} {} 0 f{}", i, ep, hex(r.pick(&hostile)), *r.pick(if thorough { &[1usize, 16, 64, 256][..] } else { &[1usize, 16, 64][..] })));
    }
    // (i, g) EINTR inside a response frame to the blocking Client, 1 / 2 / 8 signals in a row, at offsets where the rest of the
    // stream begins with a well-formed response for the same id (the id is stamped in by the child: marker 0x5a…)
    for i in 0..(if thorough { 24 } else { 4 }) {
        let emb = RawFrame::request(ID_MARK, false, 1, b"/x", 2, b"\"SMUGGLED\"").to_vec();
        let (real, pos) = match i % 4 {
            0 => { let mut b = vec![b' '; 1 + r.below(20) as usize]; let k = b.len(); b.extend_from_slice(&emb); (RawFrame::request(ID_MARK, false, 1, b"/x", 0, &b).to_vec(), 48 + 2 + k) }
            1 => { let mut b = emb.clone(); b.extend(r.bytes(5)); (RawFrame::request(ID_MARK, false, 1, b"/x", 0, &b).to_vec(), 48 + 2) }
            2 => (RawFrame::request(ID_MARK, false, 1, &emb, 0, b"tail").to_vec(), 48),
            _ => { let mut b = vec![b' '; 40]; b.extend_from_slice(&emb); (RawFrame::request(ID_MARK, false, 1, b"/x", 0, &b).to_vec(), 1 + r.below(47) as usize) }   // control: EINTR inside the header
        };
        ops.push(format!("net ei{} eintr {} 0 {} {}", i, hex(&real), pos, *r.pick(&[1usize, 2, 8])));
    }
    // (i, h) replies whose remaining bytes after a cut begin with a well-formed response for the same id, with a pause
    // longer than any plausible internal timer of the client's response loop; in the background
    let long: &[u64] = if thorough { &[300, 600, 1100, 2500, 5500, 11000] } else { &[300, 600, 1100] };
    for i in 0..(if thorough { 24 } else { 6 }) {
        let emb = RawFrame::request(ID_MARK, false, 1, b"/x", 2, b"\"SMUGGLED\"").to_vec();
        let k = match i % 3 { 0 => 0, 1 => 1 + r.below(30) as usize, _ => 200 + r.below(9000) as usize };
        let mut body = r.bytes(k);
        body.extend_from_slice(&emb);
        let tl = r.below(20) as usize;
        body.extend(r.bytes(tl));
        ops.push(format!("net cl{} {} {} 0 c{} {} bg", i, if i % 2 == 0 { "clientfrag" } else { "aclientfrag" }, hex(&body), 48 + 2 + k, long[(i / 2) % long.len()]));
    }
    // (i) replies to the real clients in pieces: every cut class for both clients, with and without a stall
    for i in 0..(if thorough { 80 } else { 12 }) {
        let total = *r.pick(&[57usize, 60, 300, 8191, 8192, 8193, 16384, 70_000]);
        let mut body = b"[1,2,3]".to_vec();
        body.resize(total - 50, b' ');
        let cuts = match (i / 2) % 6 {
            0 => format!("c{}", (1..total.min(120)).map(|x| x.to_string()).collect::<Vec<_>>().join(".")),   // 1-byte pieces
            1 => format!("c{}", 1 + r.below(47)),                         // inside the header
            2 => "c48".to_string(),
            3 => "c49.50".to_string(),                                    // inside the query, at the body boundary
            4 => format!("c{}", 51 + r.below(body.len() as u64 - 1)),     // inside the body
            _ => gen_cuts(r, 0, 2, body.len()),
        };
        // a stall between 2–3 pieces; a hundred 1-byte pieces get 1 ms each so that they really arrive one by one
        let stall = if cuts.matches('.').count() > 3 { 1 } else { *r.pick(&[0u64, 30, 90]) };
        ops.push(format!("net cf{} {} {} 0 {} {}", i, if i % 2 == 0 { "clientfrag" } else { "aclientfrag" }, hex(&body), cuts, stall));
    }
    ops
}

fn gen_net(r: &mut Rng, n: usize) -> Vec<String> {
    // (the large valid siblings of gen_parse_inputs go to the functions only; the endpoints get sized requests of their own)
    let inputs: Vec<Vec<u8>> = gen_parse_inputs(r, n).into_iter().filter(|b| b.len() <= 5000).collect();
    let eps = ["tcp", "atcp", "ws", "client", "aclient", "wsclient", "wsproxy"];
    let mut ops: Vec<String> = inputs.iter().enumerate().map(|(i, bs)| format!("net n{} {} {} {}", i, eps[i % eps.len()], hex(bs), r.below(2))).collect();
    for i in 0..(n / 40).max(4) {
        let suffix = match i % 4 { 0 => vec![], 1 => vec![0], 2 => RawFrame::request(1, false, 1, b"/x", 2, b"7").to_vec(), _ => { let l = 1 + r.below(40) as usize; r.bytes(l) } };
        ops.push(format!("net e{} wsecho {}", i, hex(&suffix)));
    }
    ops.extend(gen_stall(r, (n / 15).max(16)));
    ops.extend(gen_net2(r, n > 1000));
    // a well-formed request to a registered route followed by trailing bytes / a second frame, as ONE WebSocket message:
    // the exact-length rule says it must not be served
    for i in 0..(n / 12).max(12) {
        let mut m = RawFrame::request(4242, false, 1, b"/ping", 2, b"null").to_vec();
        match i % 3 {
            0 => { let l = 1 + r.below(9) as usize; m.extend(r.bytes(l)); }
            1 => m.extend(RawFrame::request(4243, false, 1, b"/ping", 2, b"null").to_vec()),
            _ => m.push(0),
        }
        ops.push(format!("net x{} {} {}", i, if i % 2 == 0 { "ws" } else { "wsproxy" }, hex(&m)));
    }
    ops
}

/// The repository's interop fixtures (frames produced by other REPE implementations): each must parse with
/// every parser, and re-serialise to exactly the fixture bytes (one encoding).
fn fixture_ops(out: &mut Out) -> Vec<String> {
    let repo = std::env::var("VERIF_REPO").unwrap_or_else(|_| "/repo".into());
    let dir = std::path::Path::new(&repo).join("interop/fixtures");
    let mut ops = Vec::new();
    let mut names: Vec<_> = std::fs::read_dir(&dir).map(|d| d.filter_map(|e| e.ok()).map(|e| e.path()).filter(|p| p.extension().map(|x| x == "repe").unwrap_or(false)).collect()).unwrap_or_default();
    names.sort();
    for (i, p) in names.iter().enumerate() {
        let Ok(bytes) = std::fs::read(p) else { continue };
        for name in ["hdr", "slice", "slicex", "view", "viewx", "read0", "read1", "read2", "read3"] {
            ops.push(format!("{} fx{}{} {}", name, i, name, hex(&bytes)));
        }
        match Message::from_slice_exact(&bytes) {
            Ok(m) => {
                if m.to_vec() != bytes || m.clone().into_wire_bytes() != bytes {
                    out.oracle_fail("wire.fixture.reencode", &format!("fixture {:?} does not re-serialise to its own bytes", p.file_name()), &[format!("slicex fx{} {}", i, hex(&bytes))]);
                }
                out.count("wire.fixture.ok");
            }
            Err(e) => out.oracle_fail("wire.fixture.parse", &format!("fixture {:?} does not parse: {}", p.file_name(), err_class(&e)), &[format!("slicex fx{} {}", i, hex(&bytes))]),
        }
    }
    ops
}

// ------------------------------------------------------------------------------------------
// EINTR inside a response frame (child process: signals are process-wide, so this runs in a process of its own whose only
// thread able to take the signal is the blocking Client's reader thread)
// ------------------------------------------------------------------------------------------
// ------------------------------------------------------------------------------------------
// (n) which public entry points of the anchored files these two families drive
// ------------------------------------------------------------------------------------------
const DRIVEN: &[(&str, &[&str])] = &[
    ("header.rs", &["new", "encode", "decode"]),
    ("message.rs", &["new", "builder", "to_vec", "serialized_len", "write_to", "into_wire_bytes", "from_slice", "from_slice_exact", "is_error", "error_code",
        "error_message_utf8", "query_utf8", "query_str", "body_utf8", "to_message", "id", "notify", "query_format", "query_format_code", "body_format",
        "body_format_code", "query_bytes", "body_bytes", "body_json", "body_beve", "body_typed_slice", "body_complex_slice", "build",
        "body_utf8", "create_error_message", "create_error_response_like", "create_response"]),
    ("io.rs", &["read_message", "read_message_into", "write_message", "write_message_streaming", "write_message_typed_slice", "write_message_complex_slice"]),
    ("async_io.rs", &["read_message_async", "read_message_into_async", "write_message_async"]),
];
/// Not driven here, because: body decoders (the BEVE / JSON payload is C08's and C03's subject, no framing involved);
/// `body_aligned_typed_slice` is driven by the emit family (aligned client calls) and by C08.
const NOT_DRIVEN_BECAUSE: &[(&str, &str)] = &[
    ("json_body", "body decoding, no framing (C03/C08)"), ("beve_body", "body decoding, no framing (C08)"),
    ("decode_typed_slice", "body decoding (C08)"), ("decode_complex_slice", "body decoding (C08)"),
    ("body_aligned_typed_slice", "driven by fam_emit (aligned client calls) and C08"),
];

fn source_fn_names(file: &str) -> Vec<String> {
    let repo = std::env::var("VERIF_REPO").unwrap_or_else(|_| "/repo".into());
    let text = std::fs::read_to_string(std::path::Path::new(&repo).join("src").join(file)).unwrap_or_default();
    // message.rs has public code after its test module: drop only the lines of `mod tests { … }`
    let mut names = Vec::new();
    let mut in_tests = false;
    for line in text.lines() {
        if line.starts_with("mod tests") || line.starts_with("#[cfg(test)]") { in_tests = true; }
        if in_tests { if line == "}" { in_tests = false; } continue; }
        let t = line.trim_start();
        for pre in ["pub async fn ", "pub fn "] {
            if let Some(rest) = t.strip_prefix(pre) {
                let name: String = rest.chars().take_while(|c| c.is_alphanumeric() || *c == '_').collect();
                if !name.is_empty() && !names.contains(&name) { names.push(name); }
            }
        }
    }
    names
}

fn entry_point_audit(out: &mut Out) -> Vec<String> {
    let mut missing = Vec::new();
    for (file, driven) in DRIVEN {
        for name in source_fn_names(file) {
            if !driven.contains(&name.as_str()) && !NOT_DRIVEN_BECAUSE.iter().any(|(n, _)| *n == name) {
                out.count(&format!("wire.NOT_DRIVEN.{}.{}", file, name));
                missing.push(format!("{}::{}", file, name));
            }
        }
    }
    out.extra.insert("not_driven".into(), serde_json::json!(missing));
    out.extra.insert("not_driven_because".into(), serde_json::json!(NOT_DRIVEN_BECAUSE.iter().map(|(n, w)| format!("{}: {}", n, w)).collect::<Vec<_>>()));
    missing
}

// ------------------------------------------------------------------------------------------
// (o) liveness of the harness on a broken tree: every op bumps a heartbeat; if the op in progress makes no progress for
// longer than any bound the harness itself waits for, the call into the code under test never returned — that is recorded
// as an oracle failure with the op, and the process ends (an in-process call cannot be abandoned).
// ------------------------------------------------------------------------------------------
static HEARTBEAT: std::sync::atomic::AtomicU64 = std::sync::atomic::AtomicU64::new(0);
static CURRENT_OP: std::sync::Mutex<String> = std::sync::Mutex::new(String::new());

fn start_watchdog(dir: std::path::PathBuf, family: String, limit: std::time::Duration) {
    std::thread::spawn(move || {
        let mut last = (0u64, std::time::Instant::now());
        loop {
            std::thread::sleep(std::time::Duration::from_millis(500));
            let hb = HEARTBEAT.load(std::sync::atomic::Ordering::Relaxed);
            if hb != last.0 { last = (hb, std::time::Instant::now()); continue; }
            if hb > 0 && last.1.elapsed() > limit {
                let op = CURRENT_OP.lock().map(|g| g.clone()).unwrap_or_default();
                let what = op.split(' ').next().unwrap_or("op").to_string();
                let v = serde_json::json!({"sig": format!("{}.{}.call_never_returned", family, what),
                    "detail": format!("a call into the code under test did not return within {} s (every wait of the harness itself is shorter): hang", limit.as_secs()),
                    "ops": [op]});
                use std::io::Write;
                if let Ok(mut f) = std::fs::OpenOptions::new().append(true).create(true).open(dir.join("oracle.txt")) {
                    let _ = writeln!(f, "{}", v);
                }
                let _ = std::fs::write(dir.join("stats.json"), serde_json::json!({"evaluations": hb, "distinct_nontrivial": 0, "distinct": 0, "oracle_failures": 1,
                    "rule": "stopped by the harness watchdog: a call never returned", "distribution": {}, "samples": [], "extra": {}}).to_string());
                std::process::exit(3);
            }
        }
    });
}

extern "C" fn eintr_noop(_: libc::c_int) {}

fn block_sigusr1() {
    unsafe {
        let mut set: libc::sigset_t = std::mem::zeroed();
        libc::sigemptyset(&mut set);
        libc::sigaddset(&mut set, libc::SIGUSR1);
        libc::pthread_sigmask(libc::SIG_BLOCK, &set, std::ptr::null_mut());
    }
}

/// `fam_wire eintr-child <hex of the real response with id 0> <offset> <signals>`: a peer sends the response up to
/// `offset`, delivers `signals` SIGUSR1 (handler installed without SA_RESTART, so the reader's blocked read() returns
/// EINTR), then sends the rest.  Prints what the call returned.
fn eintr_child(extra: &[String]) {
    use std::io::{Read, Write};
    let template = unhex(&extra[1]).expect("hex");
    let cut: usize = extra[2].parse().expect("offset");
    let signals: usize = extra[3].parse().expect("signals");
    unsafe {
        let mut sa: libc::sigaction = std::mem::zeroed();
        sa.sa_sigaction = eintr_noop as *const () as usize;
        sa.sa_flags = 0;
        libc::sigaction(libc::SIGUSR1, &sa, std::ptr::null_mut());
    }
    let l = std::net::TcpListener::bind("127.0.0.1:0").unwrap();
    let addr = l.local_addr().unwrap();
    let (tx, rx) = std::sync::mpsc::channel::<Vec<u8>>();
    let server = std::thread::spawn(move || {
        block_sigusr1();
        let Ok((mut s, _)) = l.accept() else { return };
        let _ = s.set_nodelay(true);
        let mut got = Vec::new();
        let mut tmp = [0u8; 4096];
        while RawFrame::parse_prefix(&got).is_none() {
            match s.read(&mut tmp) { Ok(0) | Err(_) => return, Ok(n) => got.extend_from_slice(&tmp[..n]) }
        }
        let id = RawHeader::parse(&got).map(|h| h.id).unwrap_or(0);
        let real = stamp_id(&template, id);
        let _ = tx.send(real.clone());
        let cut = cut.min(real.len());
        let _ = s.write_all(&real[..cut]);
        std::thread::sleep(std::time::Duration::from_millis(120));
        for _ in 0..signals {
            unsafe { libc::kill(libc::getpid(), libc::SIGUSR1); }
            std::thread::sleep(std::time::Duration::from_millis(15));
        }
        std::thread::sleep(std::time::Duration::from_millis(60));
        let _ = s.write_all(&real[cut..]);
        std::thread::sleep(std::time::Duration::from_millis(400));
    });
    let c = repe::Client::connect(addr).expect("connect");   // the reader thread inherits this thread's unblocked mask
    block_sigusr1();                                          // now only the reader thread can take SIGUSR1
    let r = c.call_with_formats_and_timeout("/x", 1, Some(b"{}"), 2, std::time::Duration::from_secs(5));
    let real = rx.recv_timeout(std::time::Duration::from_secs(5)).unwrap_or_default();
    match r {
        Ok(m) => {
            let want = RawFrame::parse_prefix(&real).map(|(f, _)| f);
            let same = want.as_ref().map(|f| f.body == m.body && f.query == m.query && RawHeader::of(&m.header) == f.h).unwrap_or(false);
            println!("RESULT {}", if same { "ok-real".to_string() } else { format!("ok-other {}", hex(&m.body)) });
        }
        Err(e) => println!("RESULT err {}", err_class(&e)),
    }
    let _ = server.join();
}

fn main() {
    if std::env::args().nth(1).as_deref() == Some("eintr-child") {
        let extra: Vec<String> = std::env::args().skip(1).collect();
        eintr_child(&extra);
        return;
    }
    let args = Args::parse();
    let family = args.extra.first().cloned().unwrap_or_else(|| "wire".into());
    if family == "parse" { counting_panic_hook(); } else { quiet_panics(); }
    let mut out = Out::new(&args.out);
    let rtm = rt();
    let mut rng = Rng::new(args.seed);
    out.config(&format!("mode {}", mode_name()));
    out.extra.insert("build_profile".into(), serde_json::json!(mode_name()));
    let ops: Vec<String> = if let Some(ops) = args.replay_ops() {
        ops.into_iter().filter(|l| !l.starts_with("mode ")).collect()
    } else if family == "wire" {
        out.rule = "messages with every header field boundary-biased over its full width, 70% consistent; query/body lengths 0..64 KiB biased to 0,1,47-49,255-257,4095-4097,65535-65537; body Vec capacity below/equal/above 48+|q|+|b|; routes to_vec, write_to, into_wire_bytes, write_message, write_message_async, write_message_streaming, builder. Distinct by op line; non-trivial = consistent header (round trip exercised) or a builder case".into();
        let mut ops = fixture_ops(&mut out);
        ops.extend(if args.thorough() { gen_wire(&mut rng, 60000, 40) } else { gen_wire(&mut rng, 3000, 60) });
        // frames read back through every stream reader with ONE reused buffer (a longer frame first, then shorter
        // ones): what the reader leaves in the buffer must be exactly the wire frame
        let mut k = 0usize;
        for _ in 0..(if args.thorough() { 600 } else { 60 }) {
            let mut stream = Vec::new();
            let nf = rng.range(2, 5);
            for j in 0..nf {
                let bl = if j == 0 { 200 + rng.below(3000) as usize } else { rng.below(120) as usize };
                let ql = rng.below(24) as usize;
                let (q, b) = (rng.bytes(ql), rng.bytes(bl));
                stream.extend(RawFrame::request(j + 1, false, 1, &q, 2, &b).to_vec());
            }
            for name in ["reads0", "reads1", "reads2", "reads3"] {
                ops.push(format!("{} rb{} {} {}", name, k, hex(&stream), *rng.pick(FRAGS)));
                k += 1;
            }
        }
        ops.extend(gen_readm(&mut rng, if args.thorough() { 200 } else { 16 }, "wm"));
        ops.extend(if args.thorough() { gen_dense(&mut rng, 4200, 16) } else { gen_dense(&mut rng, 520, 0) });
        ops.extend(gen_runs(&mut rng, if args.thorough() { RUNS_THOROUGH } else { &RUNS_QUICK[..7] }, "wr"));
        ops
    } else {
        out.flush_each = true;
        out.rule = "byte strings: arbitrary (0..4 KiB), valid frames, valid+trailing, truncated, single-field mutations, the three length fields over the boundary lattice {0,small,|buf|-48±1,2^31,2^32,2^62,2^63,2^64-k} incl. wrapping sums, over-declaring headers; each through decode, 4 slice parsers and (when the declared sizes are <=16 MiB or >=2^62) 4 stream readers; plus streams cut at every byte position. Distinct by op line; non-trivial = the entry point returned Ok".into();
        let mut ops = if args.thorough() { gen_parse(&mut rng, 40000, 60) } else { gen_parse(&mut rng, 2500, 8) };
        ops.extend(gen_net(&mut rng, if args.thorough() { 1800 } else { 240 }));
        ops
    };
    if std::env::args().any(|a| a == "--check-entry-points") {
        let missing = entry_point_audit(&mut out);
        println!("entry points of header.rs / message.rs / io.rs / async_io.rs not driven by the wire and parse families: {:?}", missing);
        std::process::exit(if missing.is_empty() { 0 } else { 1 });
    }
    let missing = entry_point_audit(&mut out);
    if !missing.is_empty() {
        eprintln!("fam_wire: public entry points NOT DRIVEN (add them to DRIVEN or NOT_DRIVEN_BECAUSE): {:?}", missing);
    }
    // longest wait of the harness itself: 10 s reads + 4 × 11 s background stalls are not on this thread; a foreground op waits
    // at most ~25 s (six pings of 10 s would be a dead endpoint, reported as such) — 60 s without a heartbeat is a hang
    start_watchdog(args.out.clone(), family.clone(), std::time::Duration::from_secs(if args.thorough() { 120 } else { 60 }));
    let mut world: Option<NetWorld> = None;
    let mut world_state = World::new();
    // class l: odd seeds run the async endpoints on a runtime with one worker and one blocking-pool thread
    let lean_runtime = args.seed % 2 == 1;
    out.extra.insert("lean_runtime".into(), serde_json::json!(lean_runtime));
    for line in ops {
        if out.oracle_failures > 12 {
            // a broken tree: enough failing inputs have been recorded, do not grind through the rest
            break;
        }
        out.begin(&line);
        HEARTBEAT.fetch_add(1, std::sync::atomic::Ordering::Relaxed);
        if let Ok(mut g) = CURRENT_OP.lock() { g.clear(); g.push_str(&line[..line.len().min(200_000)]); }
        if line.starts_with("net ") {
            let w = world.get_or_insert_with(|| net_world(lean_runtime));
            let (obs, nt) = exec_net(&mut out, w, &line);
            out.case(&line, &obs, nt);
            continue;
        }
        let (obs, nt) = exec(&mut out, &mut world_state, &line, &rtm);
        out.case(&line, &obs, nt);
    }
    let jobs: Vec<_> = std::mem::take(&mut *DEFERRED.lock().unwrap());
    for (line, j) in jobs {
        if let Ok(fails) = j.join() {
            for (sig, detail) in fails {
                out.oracle_fail(&sig, &detail, &[line.clone()]);
            }
        }
    }
    out.extra.insert("endpoints_slow_to_answer".into(), serde_json::json!(SLOW_ANSWERS.load(std::sync::atomic::Ordering::Relaxed)));
    out.finish();
}
