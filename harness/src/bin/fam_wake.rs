//! Family `wake` (C12): a real thread parked in `TransferControl::wait_for_credit` /
//! `wait_for_reconnect`, 1–3 real signalling threads, randomized schedules.
//!
//! One case = one op line (see lean/RepeVerif/Driver/Wake.lean for the format):
//!
//!   wake <idx> <credit|reconnect> <len> <window> setup=… thr=…/… order=… got=… fin=…
//!   tmo  <idx> … (short deadline, ops that never make the condition true)
//!
//! The generated part is `<kind> <len> <window> setup thr` (+ whether the signalling threads are
//! serialised by a harness-side lock: `order=` present or `-`); `order/got/fin` are what happened.
//! Replay = re-executing the generated part (each replayed line is run `REPLAY_RUNS` times, the
//! schedule being the one thing a replay cannot pin).
//!
//! Never-false-alarm rules: no expectation that something happens *quickly* except against the
//! watchdog (10 s, after which a wake-up is declared missed); "genuinely parked" is detected from
//! /proc/self/task/<tid>/stat but nothing depends on the detection being right (a waiter that had
//! not parked yet simply checks its condition later — an interleaving the model contains);
//! timeouts are compared one-sidedly on the monotonic clock the code itself uses.
use repe::{CreditError, ReconnectOutcome, TransferControl};
use repe_verif_harness::*;
use std::sync::atomic::{AtomicBool, AtomicI64, Ordering};
use std::sync::mpsc;
use std::sync::{Arc, Mutex};
use std::time::{Duration, Instant};

const WATCHDOG: Duration = Duration::from_secs(10);

// ------------------------------------------------------------------------------------------
// (o) liveness of the harness itself: every call into the crate that is not a wait (the waits have their own
// watchdogs) is counted while in flight; a monitor thread ends the run with an oracle failure if such a call
// has not come back for DEADMAN seconds (a deadlocked `cancel`, a signalling method that blocks for ever ...).
// ------------------------------------------------------------------------------------------
const DEADMAN: Duration = Duration::from_secs(30);
static CALLS_IN_FLIGHT: AtomicI64 = AtomicI64::new(0);
static LAST_PROGRESS_MS: std::sync::atomic::AtomicU64 = std::sync::atomic::AtomicU64::new(0);
static CURRENT_CALL: Mutex<String> = Mutex::new(String::new());
static CURRENT_LINE: Mutex<String> = Mutex::new(String::new());

fn now_ms() -> u64 {
    static START: std::sync::OnceLock<Instant> = std::sync::OnceLock::new();
    START.get_or_init(Instant::now).elapsed().as_millis() as u64
}

struct InCall;
impl InCall {
    fn enter(what: &str) -> InCall {
        let first = CALLS_IN_FLIGHT.fetch_add(1, Ordering::SeqCst) == 0;
        if first { LAST_PROGRESS_MS.store(now_ms(), Ordering::SeqCst); }
        if first || what.starts_with('`') {
            if let Ok(mut c) = CURRENT_CALL.try_lock() { c.clear(); c.push_str(what); }
        }
        InCall
    }
}
impl Drop for InCall {
    fn drop(&mut self) {
        CALLS_IN_FLIGHT.fetch_sub(1, Ordering::SeqCst);
        LAST_PROGRESS_MS.store(now_ms(), Ordering::SeqCst);
    }
}

/// Shadows the library's `catch` for everything except the waits.
fn catch<T>(f: impl FnOnce() -> T) -> Result<T, String> {
    let _g = InCall::enter("a read-only call or a signalling call");
    repe_verif_harness::catch(f)
}

fn spawn_deadman(out_dir: std::path::PathBuf) {
    std::thread::spawn(move || loop {
        std::thread::sleep(Duration::from_millis(500));
        if CALLS_IN_FLIGHT.load(Ordering::SeqCst) > 0 && now_ms().saturating_sub(LAST_PROGRESS_MS.load(Ordering::SeqCst)) > DEADMAN.as_millis() as u64 {
            let what = CURRENT_CALL.lock().map(|c| c.clone()).unwrap_or_default();
            let line = CURRENT_LINE.lock().map(|c| c.clone()).unwrap_or_default();
            let v = serde_json::json!({"sig": "wake.call_never_returned",
                "detail": format!("{} into TransferControl has not returned for {} s (the methods hold the mutex only for counter updates): the run is abandoned", what, DEADMAN.as_secs()),
                "ops": [line]});
            use std::io::Write as _;
            if let Ok(mut f) = std::fs::OpenOptions::new().append(true).create(true).open(out_dir.join("oracle.txt")) { let _ = writeln!(f, "{}", v); }
            let _ = std::fs::write(out_dir.join("stats.json"), serde_json::json!({"evaluations": 0, "distinct_nontrivial": 0, "distinct": 0, "oracle_failures": 1,
                "rule": "run abandoned: a call into the crate never returned", "distribution": {}, "samples": [], "extra": {"abandoned": true}}).to_string());
            eprintln!("fam_wake: {} never returned; abandoning the run", what);
            std::process::exit(0);
        }
    });
}
const FAR: Duration = Duration::from_secs(3600);
const REPLAY_RUNS: usize = 200;
/// every missed wake-up costs a 10 s watchdog: stop generating once the point is made
const MAX_FAILURES: u64 = 3;

// ------------------------------------------------------------------------------------------
// ops
// ------------------------------------------------------------------------------------------
#[derive(Clone, Debug, PartialEq)]
enum Op {
    Sent(u64),
    Ack(u32, u64),
    Cancel(u64),
    Adv(u32),
    Res(u32, u64),
    Push(u64, u64),
    /// `set_peer(PeerHandle{id})` - no effect on either wait (exercised: it takes the same mutex)
    SetPeer(u64),
    /// a read-only call: 0 offsets, 1 is_cancelled, 2 cancel_reason, 3 timestamps, 4 peer, 5/6 replay_chunks_from
    Query(u8),
    /// (setup only) the producer took the staged resume: `wait_for_reconnect(0)`
    Take,
    /// (setup only) an earlier wait of the control's life, replayed with a deadline that has already passed:
    /// `w:r` = wait_for_reconnect(0), `w:c<len>` = wait_for_credit(len, now)
    Waited(Option<u64>),
}

impl Op {
    fn show(&self) -> String {
        match self {
            Op::Sent(n) => format!("sent:{}", n),
            Op::Ack(f, o) => format!("ack:{}:{}", f, o),
            Op::Cancel(r) => format!("cancel:{}", r),
            Op::Adv(f) => format!("adv:{}", f),
            Op::Res(f, o) => format!("res:{}:{}", f, o),
            Op::Push(o, l) => format!("push:{}:{}", o, l),
            Op::SetPeer(p) => format!("peer:{}", p),
            Op::Query(k) => format!("q:{}", k),
            Op::Take => "take".to_string(),
            Op::Waited(None) => "w:r".to_string(),
            Op::Waited(Some(l)) => format!("w:c{}", l),
        }
    }
    fn parse(w: &str) -> Option<Op> {
        let p: Vec<&str> = w.split(':').collect();
        Some(match (p[0], p.len()) {
            ("sent", 2) => Op::Sent(p[1].parse().ok()?),
            ("ack", 3) => Op::Ack(p[1].parse().ok()?, p[2].parse().ok()?),
            ("cancel", 2) => Op::Cancel(p[1].parse().ok()?),
            ("adv", 2) => Op::Adv(p[1].parse().ok()?),
            ("res", 3) => Op::Res(p[1].parse().ok()?, p[2].parse().ok()?),
            ("push", 3) => Op::Push(p[1].parse().ok()?, p[2].parse().ok()?),
            ("peer", 2) => Op::SetPeer(p[1].parse().ok()?),
            ("q", 2) => Op::Query(p[1].parse().ok()?),
            ("take", 1) => Op::Take,
            ("w", 2) => if p[1] == "r" { Op::Waited(None) } else { Op::Waited(Some(p[1].strip_prefix('c')?.parse().ok()?)) },
            _ => return None,
        })
    }
}

fn show_ops(ops: &[Op]) -> String {
    if ops.is_empty() { "-".into() } else { ops.iter().map(|o| o.show()).collect::<Vec<_>>().join(",") }
}

fn parse_ops(s: &str) -> Option<Vec<Op>> {
    if s == "-" || s.is_empty() { return Some(vec![]); }
    s.split(',').map(Op::parse).collect()
}

/// A peer that is never used for sending (request_resume / set_peer only store it; the previous one is
/// dropped under the control's mutex, so some sinks are slow to drop).
fn dummy_peer(id: u64) -> repe::PeerHandle {
    struct Dummy(u64);
    impl repe::PeerSink for Dummy {
        fn send_notify(&self, _method: &str, _body: repe::NotifyBody) -> Result<(), repe::PeerSendError> { Ok(()) }
        fn is_connected(&self) -> bool { self.0 % 2 == 0 }
    }
    impl Drop for Dummy {
        fn drop(&mut self) { if self.0 % 3 == 2 { std::thread::sleep(Duration::from_micros(150)); } }
    }
    repe::PeerHandle::new(repe::PeerId(id), Arc::new(Dummy(id)))
}

/// The text of cancel reason number `k`: the op line carries the number, the control gets this text
/// (empty, non-ASCII, long, padded, digits only, the watchdog's own wording). Injective in `k`.
fn reason_text(k: u64) -> String {
    if k == 0 { return "transfer idle".to_string(); }
    if k == 1 { return String::new(); }
    match k % 6 {
        0 => format!("r{}", k),
        1 => format!("annulé ☃ 取消 {}", k),
        2 => format!("{}{}", "x".repeat(5000), k),
        3 => format!("{}", k),
        4 => format!("  padded \t {} ", k),
        _ => format!("transfer idle {}", k),
    }
}

/// Inverse of `reason_text` (None: not a text the harness ever passed).
fn reason_num(text: &str) -> Option<u64> {
    if text == "transfer idle" { return Some(0); }
    if text.is_empty() { return Some(1); }
    let t = text.trim_end();
    let digits: String = t.chars().rev().take_while(|c| c.is_ascii_digit()).collect::<Vec<_>>().into_iter().rev().collect();
    let k: u64 = digits.parse().ok()?;
    if reason_text(k) == text { Some(k) } else { None }
}

/// `cancel(reason: impl Into<String>)`: a caller-defined type whose conversion takes a while (it runs
/// under the control's mutex).
struct SlowReason(String);
impl From<SlowReason> for String {
    fn from(r: SlowReason) -> String { std::thread::sleep(Duration::from_micros(120)); r.0 }
}

fn push_body_len(off: u64, len: u64) -> usize { [1usize, 0, 17, 1, 3][((off / 1).wrapping_add(len) % 5) as usize] }

/// Replay capacity of the control of a case: a function of the recorded case (so a replay is exact), always
/// large enough that nothing is evicted (eviction belongs to C13; the C12 model has none): `new(window)`,
/// exactly the bytes pushed (boundary of `bytes_held > capacity`), one more, `u64::MAX`.
fn make_control(window: u64, setup: &[Op]) -> Arc<TransferControl> {
    let total: u64 = setup.iter().map(|o| if let Op::Push(o, l) = o { push_body_len(*o, *l) as u64 } else { 0 }).sum();
    let h = setup.iter().fold(window, |h, o| h.wrapping_mul(31).wrapping_add(match o { Op::Push(a, b) => a ^ b, Op::Sent(n) => *n, _ => 7 }));
    match h % 5 {
        0 => TransferControl::with_replay_capacity(window, total),
        1 => TransferControl::with_replay_capacity(window, total + 1),
        2 => TransferControl::with_replay_capacity(window, u64::MAX),
        3 => TransferControl::with_replay_capacity(window, repe::DEFAULT_REPLAY_RING_BYTES),
        _ => TransferControl::new(window),
    }
}

/// `in_flight == 0 || in_flight + len <= window` with the checked add of the source (an overflowing sum does not fit).
fn credit_fits(inf: u64, len: u64, window: u64) -> bool { inf == 0 || inf.checked_add(len).map_or(false, |t| t <= window) }

/// What a `request_resume` answered (needed to know whether a pending resume was staged).
#[derive(Clone, Copy, Debug, PartialEq)]
enum OpRes { Unit, ResumeOk(u64), ResumeErr }

fn apply(tc: &TransferControl, op: &Op) -> OpRes {
    let _g = InCall::enter(&format!("`{}`", op.show()));
    match op {
        Op::Sent(n) => { tc.record_sent(*n); OpRes::Unit }
        Op::Ack(f, o) => { tc.record_ack(*f, *o); OpRes::Unit }
        Op::Cancel(r) => {
            let text = reason_text(*r);
            match r % 3 { 0 => tc.cancel(text), 1 => tc.cancel(text.as_str()), _ => tc.cancel(SlowReason(text)) }
            OpRes::Unit
        }
        Op::Adv(f) => { tc.advance_to_file(*f); OpRes::Unit }
        Op::Res(f, o) => match tc.request_resume(dummy_peer((*f as u64).wrapping_add(*o) % 4), *f, *o) {
            Ok(off) => OpRes::ResumeOk(off),
            Err(e) => { let _ = e.reason(); OpRes::ResumeErr }
        },
        Op::Push(o, l) => { tc.push_replay(*o, *l, (o ^ l) % 3 == 0, vec![0u8; push_body_len(*o, *l)]); OpRes::Unit }
        Op::SetPeer(p) => { tc.set_peer(dummy_peer(*p)); OpRes::Unit }
        Op::Take | Op::Waited(None) => { let _ = tc.wait_for_reconnect(Duration::ZERO); OpRes::Unit }
        Op::Waited(Some(len)) => { let _ = tc.wait_for_credit(*len, Instant::now()); OpRes::Unit }
        Op::Query(k) => {
            match k % 7 {
                0 => { let _ = tc.offsets(); }
                1 => { let _ = tc.is_cancelled(); }
                2 => { let _ = tc.cancel_reason(); }
                3 => { let _ = tc.timestamps(); }
                4 => { let _ = tc.peer().map(|p| p.peer_id()); }
                5 => { let _ = tc.replay_chunks_from(0); }
                _ => { let _ = tc.replay_chunks_from(u64::MAX); }
            }
            OpRes::Unit
        }
    }
}

// ------------------------------------------------------------------------------------------
// cases
// ------------------------------------------------------------------------------------------
#[derive(Clone, Debug, PartialEq)]
enum Kind { Credit(u64), Reconnect }

#[derive(Clone, Debug)]
struct Case {
    /// `tmo`: short deadline, condition never true.
    tmo: bool,
    /// `imm`: deadline already passed at entry, condition already true: the value must win over Timeout
    imm: bool,
    kind: Kind,
    window: u64,
    /// explicit replay capacity (`<window>/<cap>` on the op line); None: derived from the case (`make_control`)
    cap: Option<u64>,
    setup: Vec<Op>,
    threads: Vec<Vec<Op>>,
    /// signalling threads serialised by a harness-side lock (their linearisation is then known)
    seq: bool,
}

impl Case {
    fn head(&self, idx: u64) -> String {
        let (k, len) = match &self.kind { Kind::Credit(l) => ("credit", *l), Kind::Reconnect => ("reconnect", 0) };
        let thr = if self.threads.is_empty() { "-".to_string() } else { self.threads.iter().map(|t| show_ops(t)).collect::<Vec<_>>().join("/") };
        let win = match self.cap { Some(c) => format!("{}/{}", self.window, c), None => self.window.to_string() };
        format!("{} {} {} {} {} setup={} thr={}", if self.imm { "imm" } else if self.tmo { "tmo" } else { "wake" }, idx, k, len, win, show_ops(&self.setup), thr)
    }
    fn parse(line: &str) -> Option<Case> {
        let w = words(line);
        if w.len() < 7 { return None; }
        let (tmo, imm) = match w[0] { "tmo" | "trk" | "sq" => (true, false), "wake" | "race" => (false, false), "imm" => (true, true), _ => return None };
        let kind = match w[2] { "credit" => Kind::Credit(w[3].parse().ok()?), "reconnect" => Kind::Reconnect, _ => return None };
        let mut wc = w[4].split('/');
        let window = wc.next()?.parse().ok()?;
        let cap = match wc.next() { Some(c) => Some(c.parse().ok()?), None => None };
        let setup = parse_ops(w[5].strip_prefix("setup=")?)?;
        let t = w[6].strip_prefix("thr=")?;
        let threads = if t == "-" { vec![] } else { t.split('/').map(parse_ops).collect::<Option<Vec<_>>>()? };
        let seq = w.get(7).map(|o| *o != "order=-" && !o.starts_with("order=d")).unwrap_or(true);
        Some(Case { tmo, imm, kind, window, cap, setup, threads, seq })
    }
}

#[derive(Clone, Debug, PartialEq)]
enum Got { Ok, Cancelled(String), Resume(u64), Timeout, Parked, Panic }

impl Got {
    fn show(&self) -> String {
        match self {
            Got::Ok => "ok".into(),
            Got::Cancelled(r) => match reason_num(r) {
                Some(k) => format!("cancelled:{}", k),
                None if r == "cleanup" => "cancelled:cleanup".to_string(),
                None => format!("cancelled:?{:x}", fnv(r.as_bytes())),
            },
            Got::Resume(o) => format!("resume:{}", o),
            Got::Timeout => "timeout".into(),
            Got::Parked => "parked".into(),
            Got::Panic => "PANIC".into(),
        }
    }
}

/// Every value the property allows a waiter to return when it looks at this state (the property does
/// not say which wins when a cancel and credit / a resume are both there; the model does, see the diff).
fn acceptable(kind: &Kind, window: u64, sent: u64, acked: u64, cancelled: &Option<String>, pending: Option<u64>) -> Vec<Got> {
    let mut v = Vec::new();
    if let Some(r) = cancelled { v.push(Got::Cancelled(r.clone())); }
    match kind {
        Kind::Credit(len) => { let inf = sent.saturating_sub(acked); if credit_fits(inf, *len, window) { v.push(Got::Ok); } }
        Kind::Reconnect => { if let Some(o) = pending { v.push(Got::Resume(o)); } }
    }
    v
}

fn gettid() -> i64 { unsafe { libc::syscall(libc::SYS_gettid) as i64 } }

/// Scheduler state letter of a thread of this process (`S` = sleeping), `?` if unreadable.
fn thread_state(tid: i64) -> char {
    match std::fs::read_to_string(format!("/proc/self/task/{}/stat", tid)) {
        Ok(s) => s.rfind(')').and_then(|i| s[i + 1..].split_whitespace().next().and_then(|x| x.chars().next())).unwrap_or('?'),
        Err(_) => '?',
    }
}

fn jitter(kind: u64) {
    match kind % 8 {
        0 | 1 | 2 => {}
        3 | 4 => std::thread::yield_now(),
        5 => { for _ in 0..(kind >> 3) % 400 { std::hint::spin_loop(); } }
        6 => { for _ in 0..(kind >> 3) % 4000 { std::hint::spin_loop(); } }
        _ => std::thread::sleep(Duration::from_micros((kind >> 3) % 120)),
    }
}

struct Snapshot { thread: usize, op: Op, res: OpRes, sent: u64, acked: u64, cancelled: Option<String> }

struct Exec {
    got: Got,
    fin: (u64, u64, bool),
    order: Option<Vec<usize>>,
    /// harness-side knowledge used by the direct oracles
    must_return: bool,
    snaps: Vec<Snapshot>,
    results: Vec<Vec<OpRes>>,
    parked_seen: bool,
    /// `tmo`: (returned no earlier than the deadline?, elapsed ms)
    tmo_ok: Option<(bool, u128)>,
    cleanup_missed: bool,
    /// the waiter's condition in the real object right after the setup (before the waiter starts)
    entry_want: Vec<Got>,
    /// watchdog that was applied to "must return" (seconds; for the failure text)
    watchdog_s: u64,
}

/// Run one case against the real `TransferControl`.
fn execute(c: &Case, rng: &mut Rng, tmo_ms: u64) -> Exec {
    let tc = match c.cap { Some(cap) => TransferControl::with_replay_capacity(c.window, cap), None => make_control(c.window, &c.setup) };
    let mut setup_pending = None;
    for op in &c.setup {
        match (op, apply(&tc, op)) { (Op::Adv(_), _) => setup_pending = None, (_, OpRes::ResumeOk(o)) => setup_pending = Some(o), _ => {} }
    }
    let entry_want = { let (s, a) = tc.offsets(); acceptable(&c.kind, c.window, s, a, &tc.cancel_reason(), setup_pending) };
    let tmo_ms = if c.imm { 0 } else { tmo_ms };

    // ---- waiter
    let tid = Arc::new(AtomicI64::new(0));
    let entered = Arc::new(AtomicBool::new(false));
    let done = Arc::new(AtomicBool::new(false));
    let (tx, rx) = mpsc::channel::<(Got, Instant, Instant)>();
    let waiter = {
        let (tc, tid, entered, done, kind, tmo) = (tc.clone(), tid.clone(), entered.clone(), done.clone(), c.kind.clone(), c.tmo);
        let window_parity = c.window % 2 == 0;
        let imm_past = c.imm && c.window % 3 == 0;
        std::thread::spawn(move || {
            tid.store(gettid(), Ordering::SeqCst);
            // far deadline: one hour or ten years; `imm`: now, or (credit) already a second in the past
            let span = if tmo { Duration::from_millis(tmo_ms) } else if window_parity { FAR } else { FAR * 87_600 };
            let t0 = Instant::now();
            let deadline = if imm_past { t0.checked_sub(Duration::from_secs(1)).unwrap_or(t0) } else { t0 + span };
            entered.store(true, Ordering::SeqCst);
            let r = repe_verif_harness::catch(|| match kind {
                Kind::Credit(len) => match tc.wait_for_credit(len, deadline) {
                    Ok(()) => Got::Ok,
                    Err(CreditError::Cancelled(r)) => Got::Cancelled(r),
                    Err(CreditError::Timeout) => Got::Timeout,
                },
                Kind::Reconnect => match tc.wait_for_reconnect(span) {
                    ReconnectOutcome::ResumeReady(p) => Got::Resume(p.resume_at_offset),
                    ReconnectOutcome::Cancelled(r) => Got::Cancelled(r),
                    ReconnectOutcome::Timeout => Got::Timeout,
                },
            });
            let t1 = Instant::now();
            done.store(true, Ordering::SeqCst);
            let _ = tx.send((r.unwrap_or(Got::Panic), deadline, t1));
        })
    };

    // ---- wait until the waiter is (very probably) parked; a fraction of the cases races its entry instead
    let mut parked_seen = false;
    let style = rng.below(10);
    if c.imm {
        // returns at once: nothing to wait for
    } else if style < 7 {
        let limit = Instant::now() + Duration::from_secs(2);
        loop {
            if done.load(Ordering::SeqCst) { break; }
            if entered.load(Ordering::SeqCst) && thread_state(tid.load(Ordering::SeqCst)) == 'S' { parked_seen = true; break; }
            if Instant::now() > limit { break; }
            std::thread::yield_now();
        }
    } else if style < 9 {
        jitter(rng.next());
    }

    // ---- signalling threads
    let go = Arc::new(AtomicBool::new(false));
    let oplog: Arc<Mutex<Vec<Snapshot>>> = Arc::new(Mutex::new(Vec::new()));
    let mut handles = Vec::new();
    for (ti, ops) in c.threads.iter().enumerate() {
        let (tc, go, oplog, ops, seq) = (tc.clone(), go.clone(), oplog.clone(), ops.clone(), c.seq);
        // tmo cases: spread the ops over the whole wait, so that wake-ups also land just before the deadline
        let spread_us = if c.tmo && !c.imm { Some(tmo_ms * 1000 + 1) } else { None };
        let jit: Vec<u64> = ops.iter().map(|_| rng.next()).collect();
        handles.push(std::thread::spawn(move || {
            let mut spins = 0u32;
            while !go.load(Ordering::Acquire) {
                spins += 1;
                if spins > 5000 { std::thread::yield_now(); } else { std::hint::spin_loop(); }
            }
            let mut res = Vec::new();
            for (op, j) in ops.iter().zip(jit) {
                match spread_us { Some(us) => std::thread::sleep(Duration::from_micros((j >> 8) % us)), None => jitter(j) }
                if seq {
                    let mut log = oplog.lock().unwrap();
                    let r = catch(|| apply(&tc, op)).unwrap_or(OpRes::ResumeErr);
                    let (s, a) = catch(|| tc.offsets()).unwrap_or((0, 0));
                    let cr = catch(|| tc.cancel_reason()).unwrap_or(None);
                    log.push(Snapshot { thread: ti, op: op.clone(), res: r, sent: s, acked: a, cancelled: cr });
                    res.push(r);
                } else {
                    res.push(catch(|| apply(&tc, op)).unwrap_or(OpRes::ResumeErr));
                }
            }
            res
        }));
    }
    go.store(true, Ordering::Release);
    let results: Vec<Vec<OpRes>> = handles.into_iter().map(|h| h.join().unwrap_or_default()).collect();
    let snaps = std::mem::take(&mut *oplog.lock().unwrap());

    // ---- final state of the real object, and whether the waiter's condition holds in it
    let (sent, acked) = catch(|| tc.offsets()).unwrap_or((0, 0));
    let cancelled = catch(|| tc.is_cancelled()).unwrap_or(true);
    let must_return = cancelled || match &c.kind {
        Kind::Credit(len) => { let inf = sent.saturating_sub(acked); credit_fits(inf, *len, c.window) }
        Kind::Reconnect => pending_after(c, &snaps, &results).is_some(),
    };

    // ---- observe the waiter
    let mut tmo_ok = None;
    let got = if c.tmo {
        match rx.recv_timeout(Duration::from_millis(tmo_ms) + WATCHDOG) {
            Ok((g, deadline, t1)) => { tmo_ok = Some((t1 >= deadline, (t1 + Duration::from_millis(tmo_ms) - deadline).as_millis())); g }
            Err(_) => Got::Parked,
        }
    } else if must_return {
        match rx.recv_timeout(WATCHDOG) { Ok((g, _, _)) => g, Err(_) => Got::Parked }
    } else {
        // the condition is false now; the waiter may have returned while it was true, or sleeps on
        let limit = Instant::now() + Duration::from_micros(150 + rng.below(300));
        loop {
            match rx.try_recv() {
                Ok((g, _, _)) => break g,
                Err(_) if Instant::now() > limit => break Got::Parked,
                Err(_) => std::thread::yield_now(),
            }
        }
    };

    // ---- release a sleeping waiter; a cancel must always wake it
    let mut cleanup_missed = false;
    if got == Got::Parked {
        let _ = catch(|| tc.cancel("cleanup"));
        if rx.recv_timeout(WATCHDOG).is_err() { cleanup_missed = true; }
    }
    if !cleanup_missed { let _ = waiter.join(); }

    let order = if c.seq { Some(snaps.iter().map(|s| s.thread).collect()) } else { None };
    Exec { got, fin: (sent, acked, cancelled), order, must_return, snaps, results, parked_seen, tmo_ok, cleanup_missed, entry_want, watchdog_s: WATCHDOG.as_secs() }
}

/// Is a resume staged after all ops (ignoring that the waiter may have consumed it)?  Uses the real
/// answers of `request_resume`; `res`/`adv` are generated in one thread (or the order is recorded),
/// so their relative order is known.
fn pending_after(c: &Case, snaps: &[Snapshot], results: &[Vec<OpRes>]) -> Option<u64> {
    let mut pending = None;
    if c.seq {
        for s in snaps {
            match (&s.op, s.res) { (Op::Adv(_), _) => pending = None, (Op::Res(..), OpRes::ResumeOk(o)) => pending = Some(o), _ => {} }
        }
    } else {
        for (ti, ops) in c.threads.iter().enumerate() {
            for (oi, op) in ops.iter().enumerate() {
                match (op, results.get(ti).and_then(|r| r.get(oi))) {
                    (Op::Adv(_), _) => pending = None,
                    (Op::Res(..), Some(OpRes::ResumeOk(o))) => pending = Some(*o),
                    _ => {}
                }
            }
        }
    }
    pending
}

// ------------------------------------------------------------------------------------------
// direct oracles: the property's own statement on what the real code did
// ------------------------------------------------------------------------------------------
fn oracles(out: &mut Out, c: &Case, e: &Exec, line: &str) {
    let fam = match c.kind { Kind::Credit(_) => "wake.credit", Kind::Reconnect => "wake.reconnect" };
    let ops = vec![line.to_string()];
    if e.got == Got::Panic {
        out.oracle_fail(&format!("{}.panic", fam), "the wait panicked", &ops);
        return;
    }
    if e.cleanup_missed {
        out.oracle_fail(&format!("{}.missed_wakeup.cancel", fam), "a parked waiter did not return within 10 s of cancel()", &ops);
    }
    if c.imm && !e.entry_want.is_empty() {
        if !e.entry_want.contains(&e.got) {
            let sig = if e.got == Got::Timeout { "timeout.before_condition" } else { "value.at_entry" };
            out.oracle_fail(&format!("{}.{}", fam, sig), &format!("condition true at entry (deadline already passed): expected {}, wait returned {}",
                e.entry_want.iter().map(|g| g.show()).collect::<Vec<_>>().join(" or "), e.got.show()), &ops);
        }
        return;
    }
    if c.imm {
        // condition false at entry, deadline passed: Timeout is the answer; what else the wait may say about
        // e.g. a resume staged before a file advance is left to the model comparison
        if e.got == Got::Parked {
            out.oracle_fail(&format!("{}.timeout.never", fam), "deadline already passed at entry, no return within 10 s", &ops);
        }
        return;
    }
    if c.tmo {
        match (&e.got, e.tmo_ok) {
            (Got::Timeout, Some((true, _))) => {}
            (Got::Timeout, Some((false, ms))) => out.oracle_fail(&format!("{}.timeout.early", fam), &format!("Timeout returned before the deadline ({} ms after the start)", ms), &ops),
            (Got::Parked, _) => out.oracle_fail(&format!("{}.timeout.never", fam), "no return within deadline + 10 s although the condition never held", &ops),
            (g, _) => out.oracle_fail(&format!("{}.timeout.wrong_value", fam), &format!("condition never held, wait returned {}", g.show()), &ops),
        }
        return;
    }
    // far-future deadline from here on
    if e.got == Got::Timeout {
        out.oracle_fail(&format!("{}.timeout.early", fam), "Timeout returned with a deadline one hour away", &ops);
    }
    if e.must_return && e.got == Got::Parked {
        out.oracle_fail(&format!("{}.missed_wakeup", fam),
            &format!("all ops done, condition holds in the final state (sent={}, acked={}, cancelled={}), waiter still asleep after {} s", e.fin.0, e.fin.1, e.fin.2, e.watchdog_s), &ops);
    }
    // value checks that need no model
    let all_ops = || c.threads.iter().flatten();
    match &e.got {
        Got::Cancelled(r) => {
            let known = all_ops().any(|o| matches!(o, Op::Cancel(x) if reason_text(*x) == *r));
            if !known { out.oracle_fail(&format!("{}.value.cancel_reason", fam), &format!("returned Cancelled({}) but no cancel with that reason ran", r), &ops); }
        }
        Got::Resume(off) => {
            let known = e.results.iter().flatten().any(|r| *r == OpRes::ResumeOk(*off));
            if !known { out.oracle_fail(&format!("{}.value.resume", fam), &format!("returned ResumeReady({}) but no accepted resume at that offset", off), &ops); }
        }
        _ => {}
    }
    if c.seq && !matches!(e.got, Got::Parked | Got::Timeout) {
        // the linearisation is known: the value must be the one matching a state that really occurred
        let mut justified = false;
        let mut pending: Option<u64> = None;
        for s in &e.snaps {
            match (&s.op, s.res) { (Op::Adv(_), _) => pending = None, (Op::Res(..), OpRes::ResumeOk(o)) => pending = Some(o), _ => {} }
            if acceptable(&c.kind, c.window, s.sent, s.acked, &s.cancelled, pending).contains(&e.got) { justified = true; }
        }
        if !justified {
            out.oracle_fail(&format!("{}.value.unjustified", fam), &format!("returned {} but no state after any op makes that the matching result", e.got.show()), &ops);
        }
    }
}

// ------------------------------------------------------------------------------------------
// generator
// ------------------------------------------------------------------------------------------
struct World { scale: u64, window: u64, chunks: Vec<(u64, u64)>, sent: u64, acked: u64, file: u32, len: u64, setup: Vec<Op> }

/// A control object whose credit waiter (chunk `len`) has to park: window full.
fn world(rng: &mut Rng) -> World {
    let scale = *rng.pick(&[1u64, 1, 1, 3, 1000, 1 << 20, 1 << 40]);
    let file = *rng.pick(&[0u32, 0, 1, 2, 7, u32::MAX]);
    let mut setup = Vec::new();
    if file != 0 { setup.push(Op::Adv(file)); }
    // mostly 1-4 chunks in the ring; one world in eight holds 12-40 (a resume then lands deep inside the ring)
    let n = if rng.chance(1, 8) { rng.range(12, 40) } else { rng.range(1, 4) };
    let mut chunks = Vec::new();
    let mut off = 0;
    for _ in 0..n {
        let l = rng.range(1, 5) * scale;
        chunks.push((off, l));
        setup.push(Op::Push(off, l));
        off += l;
    }
    let sent = off;
    setup.push(Op::Sent(sent));
    // acked: a chunk boundary strictly below sent (so in-flight > 0), sometimes 0
    let cands: Vec<u64> = chunks.iter().map(|c| c.0).collect();
    let acked = *rng.pick(&cands);
    if acked > 0 { setup.push(Op::Ack(file, acked)); }
    let inflight = sent - acked;
    // window: anything from 1 to a bit above in-flight; len so that in_flight + len > window
    let (window, len) = match rng.below(19) {
        16 => (u64::MAX, (u64::MAX - inflight).saturating_add(1 + rng.below(3))),               // widest window: only an overflowing sum does not fit
        17 => (*rng.pick(&[0u64, 1, scale, u64::MAX - 1]), u64::MAX),          // longest chunk: the sum always overflows
        18 => (repe::DEFAULT_WINDOW_BYTES, repe::DEFAULT_WINDOW_BYTES - inflight.min(repe::DEFAULT_WINDOW_BYTES) + 1 + rng.below(3)),
        // boundaries of the credit rule `in_flight == 0 || in_flight + len <= window` (window stays full: in-flight > 0)
        0 | 1 => (0, *rng.pick(&[0u64, 0, 1, scale, inflight])),               // stop-and-wait: only in-flight 0 grants
        2 | 3 => (rng.below(inflight / scale) * scale, 0),                     // zero-length chunk, window < in-flight: an ack landing exactly on `window` grants
        4 => { let w = rng.range(1, inflight / scale + 2) * scale; (w, w) }    // chunk as large as the window: only in-flight 0 grants
        5 => { let w = rng.range(1, inflight / scale + 2) * scale; (w, w + 1 + rng.below(3) * scale) } // oversized chunk
        _ => {
            // window: anything from 1 to a bit above in-flight; len so that in_flight + len > window
            let window = rng.range(1, inflight / scale + 3) * scale;
            let min_len = if window >= inflight { window - inflight + 1 } else { 1 };
            (window, min_len + rng.below(3) * scale)
        }
    };
    debug_assert!(inflight > 0 && !credit_fits(inflight, len, window));
    World { scale, window, chunks, sent, acked, file, len, setup }
}

fn other_file(rng: &mut Rng, f: u32) -> u32 {
    loop {
        let g = match rng.below(12) { 9 => u32::MAX, 10 => u32::MAX - 1, 11 => 0, k => k as u32 };
        if g != f { return g; }
    }
}

/// One signalling op; `harmless` = must not be able to make either wait condition true in any order.
fn gen_op(rng: &mut Rng, w: &World, reconnect: bool, harmless: bool, reason: &mut u64) -> Op {
    let inflight = w.sent - w.acked;
    // largest ack offset that keeps the window full: sent - off + len > window  <=>  off < sent + len - window
    let keep_full_below = w.sent.saturating_add(w.len).saturating_sub(w.window).min(w.sent); // off < this keeps it full (and in-flight > 0)
    loop {
        let k = rng.below(100);
        let op = if k < 6 {
            // calls that must not matter: readers and set_peer (they take the same mutex)
            if rng.chance(1, 3) { Op::SetPeer(rng.below(4)) } else { Op::Query(rng.below(7) as u8) }
        } else if k < 34 {
            // ack
            let f = if rng.chance(5, 6) { w.file } else { other_file(rng, w.file) };
            let off = match rng.below(9) {
                7 => 0,
                8 => u64::MAX,                                           // capped to sent
                0 => w.sent,
                1 => w.sent + rng.range(1, 3) * w.scale,                 // beyond sent: capped
                2 => w.acked.saturating_sub(rng.below(2) * w.scale),     // stale
                3 => w.acked + 1,
                4 => keep_full_below.saturating_sub(1),                  // just not enough
                5 => keep_full_below,                                    // just enough
                _ => w.acked + rng.below(inflight / w.scale + 1) * w.scale,
            };
            if harmless && f == w.file && off >= keep_full_below { continue; }
            Op::Ack(f, off)
        } else if k < 50 {
            if harmless { continue; }
            *reason += 1;
            Op::Cancel(*reason)
        } else if k < 60 {
            if harmless { continue; }
            Op::Adv(if rng.chance(1, 3) { w.file } else { other_file(rng, w.file) })
        } else if k < 84 {
            // resume: covered offsets are chunk starts and the ring end
            let f = if rng.chance(5, 6) { w.file } else { other_file(rng, w.file) };
            let covered = rng.chance(3, 4);
            let off = if covered {
                let mut c: Vec<u64> = w.chunks.iter().map(|c| c.0).collect();
                c.push(w.sent);
                *rng.pick(&c)
            } else {
                // inside a chunk or past the end
                let c = *rng.pick(&w.chunks);
                match rng.below(8) {
                    0 => u64::MAX,
                    1 if w.chunks[0].1 > 0 => w.sent + w.scale,
                    _ => if c.1 > 1 && rng.chance(1, 2) { c.0 + 1 + rng.below(c.1 - 1) } else { w.sent + 1 + rng.below(3) }
                }
            };
            let accepted = f == w.file && (w.chunks.iter().any(|c| c.0 == off) || off == w.sent);
            if harmless && accepted { continue; }
            if !reconnect && !harmless && !accepted && rng.chance(1, 2) { continue; }
            Op::Res(f, off)
        } else {
            let n = match rng.below(12) {
                0 => 0,
                1 => u64::MAX,                                           // everything in flight from now on
                k if k < 8 => w.sent + rng.range(1, 4) * w.scale,
                _ => w.sent.saturating_sub(rng.below(3) * w.scale),
            };
            Op::Sent(n)
        };
        return op;
    }
}

fn gen_case(rng: &mut Rng, tmo: bool) -> Case {
    let w = world(rng);
    let reconnect = rng.chance(2, 5);
    let seq = rng.chance(1, 2);
    let nops = if tmo { rng.below(4) } else { rng.range(1, 3) } as usize;
    let nthreads = if nops == 0 { 0 } else { rng.range(1, nops as u64) as usize };
    let mut reason = 0u64;
    let mut ops: Vec<Op> = (0..nops).map(|_| gen_op(rng, &w, reconnect, tmo, &mut reason)).collect();
    if !tmo && rng.chance(1, 2) {
        // make sure a good share of the cases has an op that should wake the waiter
        let i = rng.below(nops as u64) as usize;
        ops[i] = if reconnect {
            match rng.below(3) { 0 => { reason += 1; Op::Cancel(reason) } _ => Op::Res(w.file, *rng.pick(&w.chunks.iter().map(|c| c.0).chain([w.sent]).collect::<Vec<_>>())) }
        } else {
            match rng.below(5) {
                0 => { reason += 1; Op::Cancel(reason) }
                1 => Op::Adv(if rng.chance(1, 3) { w.file } else { other_file(rng, w.file) }),
                2 => Op::Res(w.file, w.sent),
                _ => Op::Ack(w.file, if rng.chance(1, 2) { w.sent } else { w.sent.saturating_add(w.len).saturating_sub(w.window).min(w.sent) }),
            }
        };
    }
    // distribute over threads, keeping every thread non-empty
    let mut threads: Vec<Vec<Op>> = vec![Vec::new(); nthreads];
    for (i, op) in ops.into_iter().enumerate() {
        let t = if i < nthreads { i } else { rng.below(nthreads as u64) as usize };
        threads[t].push(op);
    }
    if !seq && reconnect {
        // unserialised threads: keep resume/advance in one thread so that their relative order is known
        let mut moved = Vec::new();
        for t in threads.iter_mut() {
            let (keep, mv): (Vec<Op>, Vec<Op>) = t.drain(..).partition(|o| !matches!(o, Op::Res(..) | Op::Adv(_)));
            *t = keep;
            moved.extend(mv);
        }
        if !moved.is_empty() {
            if let Some(t) = threads.iter_mut().find(|t| t.is_empty()) { *t = moved; } else { threads[0].extend(moved); }
        }
        threads.retain(|t| !t.is_empty());
    }
    Case { tmo, imm: false, kind: if reconnect { Kind::Reconnect } else { Kind::Credit(w.len) }, window: w.window, cap: None, setup: w.setup, threads, seq }
}

/// Deadline already passed at entry, condition already true (made true by the last setup ops).
fn gen_imm(rng: &mut Rng) -> Case {
    let w = world(rng);
    let reconnect = rng.chance(2, 5);
    let mut setup = w.setup.clone();
    let covered: Vec<u64> = w.chunks.iter().map(|c| c.0).chain([w.sent]).collect();
    if rng.chance(1, 4) {
        // condition false at entry: window still full / a resume staged and then dropped by a file advance
        if reconnect && rng.chance(2, 3) {
            setup.push(Op::Res(w.file, *rng.pick(&covered)));
            setup.push(Op::Adv(other_file(rng, w.file)));
        }
    } else if reconnect {
        if rng.chance(2, 3) { setup.push(Op::Res(w.file, *rng.pick(&covered))); }
        if rng.chance(1, 3) || setup.len() == w.setup.len() { setup.push(Op::Cancel(rng.range(1, 9))); }
    } else {
        match rng.below(5) {
            0 => setup.push(Op::Cancel(rng.range(1, 9))),
            1 => setup.push(Op::Adv(other_file(rng, w.file))),
            2 => setup.push(Op::Res(w.file, w.sent)),
            3 => { setup.push(Op::Ack(w.file, w.sent)); if rng.chance(1, 2) { setup.push(Op::Cancel(rng.range(1, 9))); } }
            _ => setup.push(Op::Ack(w.file, w.sent)),
        }
    }
    Case { tmo: true, imm: true, kind: if reconnect { Kind::Reconnect } else { Kind::Credit(w.len) }, window: w.window, cap: None, setup, threads: vec![], seq: false }
}


// ------------------------------------------------------------------------------------------
// `trk`: a trickle of wake-ups that never satisfy the condition must not push the timeout out
// ------------------------------------------------------------------------------------------
/// Slack granted beyond the deadline before a Timeout counts as late (the correct code returns at the
/// deadline plus scheduling latency; code that re-arms its timeout on every wake-up never returns while
/// the trickle lasts).
const TRK_SLACK: Duration = Duration::from_secs(3);

struct TrkResult { line_head: String, kind: Kind, ops: Vec<Op>, got: Got, fin: (u64, u64, bool), fails: Vec<(String, String)>, lateness_ms: u128, d_ms: u64 }

fn trk_case(rng: &mut Rng) -> (Kind, u64, Vec<Op>, u64) {
    let reconnect = rng.chance(1, 2);
    let window = rng.range(1, 8);
    let len = rng.range(1, 4);
    let setup = vec![Op::Push(0, 1000), Op::Sent(1000)];
    (if reconnect { Kind::Reconnect } else { Kind::Credit(len) }, window, setup, 300 + rng.below(101))
}

/// Runs in its own thread. `kind/window/setup` as in the op line; the trickle is generated here:
/// tick j = `ack:0:j+1` (advances the ack, so it notifies, and stays far from freeing credit), every
/// fourth tick preceded by a `sent`.
fn run_trickle(kind: Kind, window: u64, setup: Vec<Op>, d_ms: u64, seed: u64) -> TrkResult {
    let mut rng = Rng::new(seed);
    let fam = match kind { Kind::Credit(_) => "wake.credit", Kind::Reconnect => "wake.reconnect" };
    let (k, len) = match &kind { Kind::Credit(l) => ("credit", *l), Kind::Reconnect => ("reconnect", 0) };
    let line_head = format!("{} {} {} setup={}", k, len, window, show_ops(&setup));
    let tc = TransferControl::new(window);
    for op in &setup { apply(&tc, op); }
    let d = Duration::from_millis(d_ms);
    let started: Arc<Mutex<Option<Instant>>> = Arc::new(Mutex::new(None));
    let (tx, rx) = mpsc::channel::<(Got, Instant, Instant, Instant)>();
    let waiter = {
        let (tc, kind, started) = (tc.clone(), kind.clone(), started.clone());
        std::thread::spawn(move || {
            let t0 = Instant::now();
            let deadline = t0 + d;
            *started.lock().unwrap() = Some(t0);
            let r = repe_verif_harness::catch(|| match kind {
                Kind::Credit(len) => match tc.wait_for_credit(len, deadline) {
                    Ok(()) => Got::Ok,
                    Err(CreditError::Cancelled(r)) => Got::Cancelled(r),
                    Err(CreditError::Timeout) => Got::Timeout,
                },
                Kind::Reconnect => match tc.wait_for_reconnect(d) {
                    ReconnectOutcome::ResumeReady(p) => Got::Resume(p.resume_at_offset),
                    ReconnectOutcome::Cancelled(r) => Got::Cancelled(r),
                    ReconnectOutcome::Timeout => Got::Timeout,
                },
            });
            let t1 = Instant::now();
            let _ = tx.send((r.unwrap_or(Got::Panic), t0, deadline, t1));
        })
    };
    // the waiter's own start instant (it may be scheduled late: nothing is measured from our clock)
    let wd = Instant::now() + WATCHDOG;
    let t0 = loop {
        if let Some(t) = *started.lock().unwrap() { break Some(t); }
        if Instant::now() > wd { break None; }
        std::thread::yield_now();
    };
    let mut ops = Vec::new();
    let mut fails = Vec::new();
    let mut res = None;
    if let Some(t0) = t0 {
        let hard_limit = t0 + d + TRK_SLACK;
        let mut j = 0u64;
        loop {
            let period = d / 4 + Duration::from_micros(rng.below(20000));
            match rx.recv_timeout(period) { Ok(r) => { res = Some(r); break; } Err(_) => {} }
            if Instant::now() > hard_limit { break; }
            if j < 400 {
                if j % 4 == 3 { let op = Op::Sent(1000 + j); apply(&tc, &op); ops.push(op); }
                let op = Op::Ack(0, j + 1);
                apply(&tc, &op);
                ops.push(op);
                j += 1;
            }
        }
    }
    let (sent, acked) = catch(|| tc.offsets()).unwrap_or((0, 0));
    let cancelled = catch(|| tc.is_cancelled()).unwrap_or(true);
    let mut lateness_ms = 0;
    let got = match res {
        Some((g, t0, deadline, t1)) => {
            lateness_ms = t1.saturating_duration_since(deadline).as_millis();
            if g != Got::Timeout {
                fails.push((format!("{}.timeout.wrong_value", fam), format!("condition never held, wait returned {}", g.show())));
            } else if t1 < deadline || t1.saturating_duration_since(t0) < d {
                fails.push((format!("{}.timeout.early", fam), "Timeout returned before the deadline".to_string()));
            } else if t1.saturating_duration_since(deadline) > TRK_SLACK {
                fails.push((format!("{}.timeout.late", fam), format!("Timeout returned {} ms after a {} ms deadline while non-enabling wake-ups kept arriving", lateness_ms, d_ms)));
            }
            g
        }
        None => {
            fails.push((format!("{}.timeout.late", fam), format!(
                "{} ms deadline, {} non-enabling wake-ups (one every ~{} ms): still asleep {} s past the deadline - every wake-up re-armed the timeout",
                d_ms, ops.len(), d_ms / 4, TRK_SLACK.as_secs())));
            let _ = catch(|| tc.cancel("cleanup"));
            match rx.recv_timeout(WATCHDOG) {
                Ok(_) => {}
                Err(_) => fails.push((format!("{}.missed_wakeup.cancel", fam), "a parked waiter did not return within 10 s of cancel()".to_string())),
            }
            Got::Parked
        }
    };
    if fails.iter().all(|f| !f.0.ends_with("missed_wakeup.cancel")) { let _ = waiter.join(); }
    TrkResult { line_head, kind, ops, got, fin: (sent, acked, cancelled), fails, lateness_ms, d_ms }
}

fn log_trickle(out: &mut Out, r: TrkResult, idx: u64) {
    let fin = format!("{}:{}:{}", r.fin.0, r.fin.1, if r.fin.2 { 1 } else { 0 });
    let line = format!("trk {} {} thr={} order=- got={} fin={}", idx, r.line_head, show_ops(&r.ops), r.got.show(), fin);
    for (sig, detail) in &r.fails { out.oracle_fail(sig, detail, &[line.clone()]); }
    let kind = match r.kind { Kind::Credit(_) => "credit", Kind::Reconnect => "reconnect" };
    out.count(&format!("trk.{}.{}", kind, r.got.show().split(':').next().unwrap()));
    out.add("trk.wakeups", r.ops.len() as u64);
    out.add("trk.lateness_ms_total", r.lateness_ms as u64);
    out.add("trk.deadline_ms_total", r.d_ms);
    out.case(&line, &format!("{} {} {}", idx, r.got.show(), fin), true);
}


// ------------------------------------------------------------------------------------------
// `multi`: several waiters of mixed kinds on one control (notify_all must reach all of them)
// ------------------------------------------------------------------------------------------
struct MultiCase { window: u64, kinds: Vec<Kind>, setup: Vec<Op>, ops: Vec<Op> }

fn gen_multi(rng: &mut Rng) -> MultiCase {
    let w = world(rng);
    // mostly 2-4 waiters; one case in twelve has 12-16 of them
    let n = if rng.chance(1, 12) { rng.range(12, 16) } else { rng.range(2, 4) } as usize;
    let mut kinds = Vec::new();
    for _ in 0..n {
        if rng.chance(2, 5) { kinds.push(Kind::Reconnect); } else { kinds.push(Kind::Credit(w.len.saturating_add(rng.below(4) * w.scale))); }
    }
    let mut reason = 0u64;
    let nops = rng.range(1, 3) as usize;
    let reconnect = kinds.iter().any(|k| *k == Kind::Reconnect);
    let mut ops: Vec<Op> = (0..nops).map(|_| gen_op(rng, &w, reconnect, false, &mut reason)).collect();
    if rng.chance(2, 3) {
        let i = rng.below(nops as u64) as usize;
        ops[i] = match rng.below(4) { 0 => { reason += 1; Op::Cancel(reason) } 1 => Op::Res(w.file, w.sent), 2 => Op::Adv(other_file(rng, w.file)), _ => Op::Ack(w.file, w.sent) };
    }
    MultiCase { window: w.window, kinds, setup: w.setup, ops }
}

fn show_kinds(ks: &[Kind]) -> String {
    ks.iter().map(|k| match k { Kind::Credit(l) => format!("c{}", l), Kind::Reconnect => "r".to_string() }).collect::<Vec<_>>().join(",")
}

fn parse_multi(line: &str) -> Option<MultiCase> {
    let w = words(line);
    if w.len() < 6 || w[0] != "multi" { return None; }
    let window = w[2].parse().ok()?;
    let kinds = w[3].strip_prefix("kinds=")?.split(',').map(|k| if k == "r" { Some(Kind::Reconnect) } else { k.strip_prefix('c')?.parse().ok().map(Kind::Credit) }).collect::<Option<Vec<_>>>()?;
    let setup = parse_ops(w[4].strip_prefix("setup=")?)?;
    let ops = parse_ops(w[5].strip_prefix("thr=")?)?;
    Some(MultiCase { window, kinds, setup, ops })
}

fn run_multi(out: &mut Out, c: &MultiCase, idx: u64) {
    let line = format!("multi {} {} kinds={} setup={} thr={}", idx, c.window, show_kinds(&c.kinds), show_ops(&c.setup), show_ops(&c.ops));
    out.begin(&line);
    if let Ok(mut c) = CURRENT_LINE.lock() { *c = line.clone(); }
    let tc = TransferControl::new(c.window);
    for op in &c.setup { apply(&tc, op); }
    let n = c.kinds.len();
    let (tx, rx) = mpsc::channel::<(usize, Got)>();
    let tids: Vec<Arc<AtomicI64>> = (0..n).map(|_| Arc::new(AtomicI64::new(0))).collect();
    let mut handles = Vec::new();
    for (i, k) in c.kinds.iter().enumerate() {
        let (tc, k, tx, tid) = (tc.clone(), k.clone(), tx.clone(), tids[i].clone());
        handles.push(std::thread::spawn(move || {
            tid.store(gettid(), Ordering::SeqCst);
            let r = repe_verif_harness::catch(|| match k {
                Kind::Credit(len) => match tc.wait_for_credit(len, Instant::now() + FAR) {
                    Ok(()) => Got::Ok,
                    Err(CreditError::Cancelled(r)) => Got::Cancelled(r),
                    Err(CreditError::Timeout) => Got::Timeout,
                },
                Kind::Reconnect => match tc.wait_for_reconnect(FAR) {
                    ReconnectOutcome::ResumeReady(p) => Got::Resume(p.resume_at_offset),
                    ReconnectOutcome::Cancelled(r) => Got::Cancelled(r),
                    ReconnectOutcome::Timeout => Got::Timeout,
                },
            });
            let _ = tx.send((i, r.unwrap_or(Got::Panic)));
        }));
    }
    // all asleep (best effort, as in `wake`)
    let limit = Instant::now() + Duration::from_secs(2);
    loop {
        if tids.iter().all(|t| { let v = t.load(Ordering::SeqCst); v != 0 && thread_state(v) == 'S' }) { out.count("multi.all_seen_asleep"); break; }
        if Instant::now() > limit { break; }
        std::thread::yield_now();
    }
    let results: Vec<OpRes> = c.ops.iter().map(|op| catch(|| apply(&tc, op)).unwrap_or(OpRes::ResumeErr)).collect();
    let (sent, acked) = catch(|| tc.offsets()).unwrap_or((0, 0));
    let cancelled = catch(|| tc.is_cancelled()).unwrap_or(true);
    let mut pending = None;
    for (op, r) in c.ops.iter().zip(&results) {
        match (op, r) { (Op::Adv(_), _) => pending = None, (Op::Res(..), OpRes::ResumeOk(o)) => pending = Some(*o), _ => {} }
    }
    let must: Vec<usize> = (0..n).filter(|&i| match &c.kinds[i] {
        Kind::Credit(len) => { let inf = sent.saturating_sub(acked); cancelled || credit_fits(inf, *len, c.window) }
        Kind::Reconnect => cancelled,
    }).collect();
    let n_reconnect = c.kinds.iter().filter(|k| **k == Kind::Reconnect).count();
    // the same from the history of calls alone (one signaller: the order is known)
    let mut spec = Spec::new(c.window);
    for op in c.setup.iter().chain(c.ops.iter()) { spec.apply(op); }
    let must_obs = must.clone();
    let mut must = must;
    for i in 0..n {
        let by_history = match &c.kinds[i] { Kind::Credit(_) => !spec.acceptable(&c.kinds[i]).is_empty(), Kind::Reconnect => spec.cancelled.is_some() };
        if by_history && !must.contains(&i) { must.push(i); out.count("multi.history_vs_getters_disagree"); }
    }
    let need_one_resume = n_reconnect > 0 && ((!cancelled && pending.is_some()) || (spec.cancelled.is_none() && spec.pending.is_some()));
    let mut got: Vec<Option<Got>> = vec![None; n];
    let satisfied = |got: &Vec<Option<Got>>| must.iter().all(|&i| got[i].is_some())
        && (!need_one_resume || (0..n).any(|i| c.kinds[i] == Kind::Reconnect && got[i].is_some()));
    let wd = Instant::now() + WATCHDOG;
    while !satisfied(&got) {
        match rx.recv_timeout(wd.saturating_duration_since(Instant::now())) { Ok((i, g)) => got[i] = Some(g), Err(_) => break }
    }
    // a short look at who else came back (transient conditions)
    let grace = Instant::now() + Duration::from_micros(300);
    while Instant::now() < grace { if let Ok((i, g)) = rx.try_recv() { got[i] = Some(g); } else { std::thread::yield_now(); } }
    let ops_v = vec![line.clone()];
    let fin = format!("{}:{}:{}", sent, acked, if cancelled { 1 } else { 0 });
    if !satisfied(&got) {
        let asleep: Vec<String> = must.iter().filter(|&&i| got[i].is_none()).map(|i| i.to_string()).collect();
        out.oracle_fail("wake.multi.missed_wakeup", &format!(
            "{} waiters ({}); after all ops (fin {}) the condition holds for waiter(s) [{}]{} but they are still asleep after 10 s",
            n, show_kinds(&c.kinds), fin, asleep.join(","), if need_one_resume { " / a resume is staged and no reconnect waiter took it" } else { "" }), &ops_v);
    }
    let before_cleanup = got.clone();
    // release the rest: one cancel must wake every remaining waiter
    if got.iter().any(|g| g.is_none()) {
        let _ = catch(|| tc.cancel("cleanup"));
        let wd = Instant::now() + WATCHDOG;
        while got.iter().any(|g| g.is_none()) {
            match rx.recv_timeout(wd.saturating_duration_since(Instant::now())) { Ok((i, g)) => got[i] = Some(g), Err(_) => break }
        }
        if got.iter().any(|g| g.is_none()) {
            out.oracle_fail("wake.multi.missed_wakeup.cancel", &format!("{} of {} parked waiters did not return within 10 s of one cancel()", got.iter().filter(|g| g.is_none()).count(), n), &ops_v);
        }
    }
    if got.iter().all(|g| g.is_some()) { for h in handles { let _ = h.join(); } }
    // values
    let resumes = before_cleanup.iter().flatten().filter(|g| matches!(g, Got::Resume(_))).count();
    let accepted = results.iter().filter(|r| matches!(r, OpRes::ResumeOk(_))).count();
    if resumes > accepted {
        out.oracle_fail("wake.multi.resume_duplicated", &format!("{} waiters returned ResumeReady for {} accepted resume(s)", resumes, accepted), &ops_v);
    }
    for g in before_cleanup.iter().flatten() {
        match g {
            Got::Timeout => out.oracle_fail("wake.multi.timeout.early", "Timeout returned with a deadline one hour away", &ops_v),
            Got::Panic => out.oracle_fail("wake.multi.panic", "a wait panicked", &ops_v),
            Got::Cancelled(r) if !c.ops.iter().any(|o| matches!(o, Op::Cancel(x) if reason_text(*x) == *r)) =>
                out.oracle_fail("wake.multi.value.cancel_reason", &format!("returned Cancelled({}) but no cancel with that reason ran", r), &ops_v),
            Got::Resume(o) if !results.iter().any(|r| *r == OpRes::ResumeOk(*o)) =>
                out.oracle_fail("wake.multi.value.resume", &format!("returned ResumeReady({}) but no accepted resume at that offset", o), &ops_v),
            _ => {}
        }
    }
    out.count(&format!("multi.waiters.{}", n));
    out.add("multi.returned_before_cleanup", before_cleanup.iter().flatten().count() as u64);
    let obs = format!("{} must={} cancelled={} pending={} fin={}", idx,
        if must_obs.is_empty() { "-".to_string() } else { must_obs.iter().map(|i| i.to_string()).collect::<Vec<_>>().join(",") },
        if cancelled { 1 } else { 0 }, if pending.is_some() { 1 } else { 0 }, fin);
    out.case(&line, &obs, !must.is_empty() || need_one_resume);
}

// ------------------------------------------------------------------------------------------
// `wd`: the registry's idle watchdog as the signalling source (its cancel must wake parked producers)
// ------------------------------------------------------------------------------------------
struct WdResult { lines: Vec<(String, String)>, fails: Vec<(String, String, String)> }

fn run_watchdog_case(seed: u64, thorough: bool) -> WdResult {
    let mut rng = Rng::new(seed);
    let reg: Arc<repe::TransferRegistry<u64>> = Arc::new(repe::TransferRegistry::new());
    let mut waiters = Vec::new();
    let (tx, rx) = mpsc::channel::<(usize, Got)>();
    let mut heads = Vec::new();
    for i in 0..2usize {
        let window = rng.range(1, 8);
        let len = window + rng.range(1, 4);
        let tc = TransferControl::new(window);
        let setup = vec![Op::Push(0, 10), Op::Sent(10)];
        for op in &setup { apply(&tc, op); }
        reg.register(i as u64, tc.clone());
        let kind = if i == 0 { Kind::Credit(len) } else { Kind::Reconnect };
        let (k, l) = match &kind { Kind::Credit(l) => ("credit", *l), Kind::Reconnect => ("reconnect", 0) };
        heads.push(format!("{} {} {} setup={} thr=cancel:0 order=-", k, l, window, show_ops(&setup)));
        let tx = tx.clone();
        waiters.push(std::thread::spawn(move || {
            let r = repe_verif_harness::catch(|| match kind {
                Kind::Credit(len) => match tc.wait_for_credit(len, Instant::now() + FAR) {
                    Ok(()) => Got::Ok,
                    Err(CreditError::Cancelled(r)) => Got::Cancelled(r),
                    Err(CreditError::Timeout) => Got::Timeout,
                },
                Kind::Reconnect => match tc.wait_for_reconnect(FAR) {
                    ReconnectOutcome::ResumeReady(p) => Got::Resume(p.resume_at_offset),
                    ReconnectOutcome::Cancelled(r) => Got::Cancelled(r),
                    ReconnectOutcome::Timeout => Got::Timeout,
                },
            });
            let _ = tx.send((i, r.unwrap_or(Got::Panic)));
        }));
    }
    // idle timeout 200 ms; the watchdog ticks every second (its lower clamp): the cancel comes after ~1-2 s
    // (the idle timeout itself: 0, 1 ms, 200 ms; 4 s - where idle/4 meets the 1 s clamp of the tick - in thorough)
    let idle_ms = if thorough { *rng.pick(&[0u64, 1, 200, 3999, 4000]) } else { *rng.pick(&[0u64, 1, 200]) };
    repe::spawn_watchdog(reg.clone(), Duration::from_millis(idle_ms));
    let mut got: Vec<Option<Got>> = vec![None, None];
    let wd = Instant::now() + Duration::from_secs(5) + WATCHDOG;
    while got.iter().any(|g| g.is_none()) {
        match rx.recv_timeout(wd.saturating_duration_since(Instant::now())) { Ok((i, g)) => got[i] = Some(g), Err(_) => break }
    }
    let mut res = WdResult { lines: vec![], fails: vec![] };
    for i in 0..2 {
        let tc = reg.get(i as u64).unwrap();
        let (s, a) = tc.offsets();
        let fam = if i == 0 { "wake.credit" } else { "wake.reconnect" };
        let g = got[i].clone().unwrap_or(Got::Parked);
        let shown = match &g { Got::Cancelled(r) if r == "transfer idle" => "cancelled:0".to_string(), o => o.show() };
        let fin = format!("{}:{}:{}", s, a, if tc.is_cancelled() { 1 } else { 0 });
        // no cancel happened (the property does not say the watchdog must fire): then there was no event to wake for
        let head = if g == Got::Parked && !tc.is_cancelled() { heads[i].replace("thr=cancel:0", "thr=-") } else { heads[i].clone() };
        let line = format!("wake IDX {} got={} fin={}", head, shown, fin);
        match &g {
            Got::Cancelled(r) if r == "transfer idle" => {}
            Got::Parked => {
                if tc.is_cancelled() {
                    res.fails.push((format!("{}.missed_wakeup.watchdog", fam), "the idle watchdog cancelled the transfer, the parked producer is still asleep 10 s later".to_string(), line.clone()));
                }
                let _ = catch(|| tc.cancel("cleanup"));
            }
            o => res.fails.push((format!("{}.value.watchdog", fam), format!("expected Cancelled(transfer idle), wait returned {}", o.show()), line.clone())),
        }
        res.lines.push((line, format!("IDX {} {}", shown, fin)));
    }
    // the rest of the registry's surface (none of it can reach a waiter; driven so that nothing public is left out)
    let _ = (reg.len(), reg.is_empty(), reg.snapshot().len());
    let _ = reg.unregister(0);
    let _ = reg.len();
    drop(reg);
    res
}


// ------------------------------------------------------------------------------------------
// `sq`: several waits one after the other on the SAME control (a producer polling in slices)
// ------------------------------------------------------------------------------------------
struct SqCase { kind: Kind, window: u64, setup: Vec<Op>, enabling: Option<Op>, n_timeouts: u32 }

fn gen_sq(rng: &mut Rng) -> SqCase {
    let w = world(rng);
    let reconnect = rng.chance(3, 5);
    let mut setup = w.setup.clone();
    let mut reason = 0u64;
    // some harmless history first (also advances, which reset per-file state)
    for _ in 0..rng.below(3) { setup.push(gen_op(rng, &w, reconnect, true, &mut reason)); }
    let enabling = if rng.chance(3, 5) {
        Some(if reconnect {
            if rng.chance(2, 3) { Op::Res(w.file, w.sent) } else { Op::Cancel(rng.range(1, 9)) }
        } else {
            match rng.below(4) { 0 => Op::Cancel(rng.range(1, 9)), 1 => Op::Res(w.file, w.sent), 2 => Op::Adv(other_file(rng, w.file)), _ => Op::Ack(w.file, w.sent) }
        })
    } else { None };
    SqCase { kind: if reconnect { Kind::Reconnect } else { Kind::Credit(w.len) }, window: w.window, setup, enabling, n_timeouts: rng.range(1, 2) as u32 }
}

struct SqResult { kind: Kind, lines: Vec<(String, String)>, fails: Vec<(String, String, String)>, observations: u64 }

/// wait (short deadline, must time out) × n_timeouts, then a wait with a fresh, longer deadline during
/// which `enabling` (if any) arrives; everything on one control.
fn run_sq(c: SqCase, seed: u64) -> SqResult {
    let mut rng = Rng::new(seed);
    let fam = match c.kind { Kind::Credit(_) => "wake.credit", Kind::Reconnect => "wake.reconnect" };
    let (k, len) = match &c.kind { Kind::Credit(l) => ("credit", *l), Kind::Reconnect => ("reconnect", 0) };
    let tc = make_control(c.window, &c.setup);
    for op in &c.setup { apply(&tc, op); }
    let mut res = SqResult { kind: c.kind.clone(), lines: vec![], fails: vec![], observations: 0 };
    let total = c.n_timeouts + 1;
    for wi in 0..total {
        let last = wi + 1 == total;
        let d = if last { Duration::from_millis(40 + rng.below(80)) } else { Duration::from_millis(1 + rng.below(12)) };
        let (tx, rx) = mpsc::channel::<(Got, Instant, Instant)>();
        let waiter = {
            let (tc, kind) = (tc.clone(), c.kind.clone());
            std::thread::spawn(move || {
                let t0 = Instant::now();
                let deadline = t0 + d;
                let r = repe_verif_harness::catch(|| match kind {
                    Kind::Credit(len) => match tc.wait_for_credit(len, deadline) {
                        Ok(()) => Got::Ok,
                        Err(CreditError::Cancelled(r)) => Got::Cancelled(r),
                        Err(CreditError::Timeout) => Got::Timeout,
                    },
                    Kind::Reconnect => match tc.wait_for_reconnect(d) {
                        ReconnectOutcome::ResumeReady(p) => Got::Resume(p.resume_at_offset),
                        ReconnectOutcome::Cancelled(r) => Got::Cancelled(r),
                        ReconnectOutcome::Timeout => Got::Timeout,
                    },
                });
                let t1 = Instant::now();
                let _ = tx.send((r.unwrap_or(Got::Panic), deadline, t1));
            })
        };
        // the enabling op lands somewhere inside the last window
        let mut op_done: Option<Instant> = None;
        let mut enabled = false;
        let mut thr = "-".to_string();
        if last {
            if let Some(op) = &c.enabling {
                std::thread::sleep(Duration::from_micros(rng.below(d.as_micros() as u64 / 2 + 1)));
                let r = catch(|| apply(&tc, op)).unwrap_or(OpRes::ResumeErr);
                // does the waiter's condition really hold now? (read off the real object; nobody else changes it,
                // except the waiter itself taking the staged resume)
                let (s1, a1) = catch(|| tc.offsets()).unwrap_or((0, 0));
                let pend = if let OpRes::ResumeOk(o) = r { Some(o) } else { None };
                if !acceptable(&c.kind, c.window, s1, a1, &catch(|| tc.cancel_reason()).unwrap_or(None), pend).is_empty() {
                    op_done = Some(Instant::now());
                }
                enabled = op_done.is_some();
                thr = op.show();
            }
        }
        let r = rx.recv_timeout(d + WATCHDOG).ok();
        let (sent, acked) = catch(|| tc.offsets()).unwrap_or((0, 0));
        let cancelled = catch(|| tc.is_cancelled()).unwrap_or(true);
        let fin = format!("{}:{}:{}", sent, acked, if cancelled { 1 } else { 0 });
        let got = r.as_ref().map(|x| x.0.clone()).unwrap_or(Got::Parked);
        let line = format!("sq IDX {} {} {} setup={} thr={} order=- got={} fin={}", k, len, c.window, show_ops(&c.setup), thr, got.show(), fin);
        let nth = format!("wait {} of {} on the same control ({} ms deadline)", wi + 1, total, d.as_millis());
        match &r {
            None => {
                res.fails.push((format!("{}.timeout.never", fam), format!("{}: no return within deadline + 10 s", nth), line.clone()));
                let _ = catch(|| tc.cancel("cleanup"));
                let _ = rx.recv_timeout(WATCHDOG);
            }
            Some((g, deadline, t1)) => {
                if *g == Got::Timeout && t1 < deadline {
                    res.fails.push((format!("{}.timeout.early", fam), format!("{}: Timeout returned {} ms before this wait's own deadline", nth, deadline.saturating_duration_since(*t1).as_millis()), line.clone()));
                } else if *g == Got::Timeout && op_done.map(|t| t < *deadline).unwrap_or(false) {
                    res.fails.push((format!("{}.timeout.instead_of_value", fam), format!("{}: {} completed before the deadline, the wait still returned Timeout", nth, thr), line.clone()));
                } else if *g != Got::Timeout && !enabled {
                    res.fails.push((format!("{}.timeout.wrong_value", fam), format!("{}: condition never held, wait returned {}", nth, g.show()), line.clone()));
                } else if *g == Got::Panic {
                    res.fails.push((format!("{}.panic", fam), format!("{}: the wait panicked", nth), line.clone()));
                }
            }
        }
        if r.is_some() { let _ = waiter.join(); }
        res.lines.push((line, format!("IDX {} {}", got.show(), fin)));
        if r.is_none() { break; }
    }
    res
}

fn log_sq(out: &mut Out, r: SqResult, idx: &mut u64) {
    for (sig, detail, line) in &r.fails { out.oracle_fail(sig, detail, &[line.clone()]); }
    let kind = match r.kind { Kind::Credit(_) => "credit", Kind::Reconnect => "reconnect" };
    out.add("observer.distinct_observations", r.observations);
    for (i, (line, obs)) in r.lines.iter().enumerate() {
        *idx += 1;
        out.count(&format!("sq.{}.wait{}.{}", kind, i + 1, obs.split(' ').nth(1).unwrap_or("?").split(':').next().unwrap()));
        out.case(&line.replace("IDX", &idx.to_string()), &obs.replace("IDX", &idx.to_string()), true);
    }
}


// ------------------------------------------------------------------------------------------
// An independent reading of the documented semantics, driven by the op history alone (never by the
// control's own getters): what the waiter's condition is after a known sequence of calls.
// ------------------------------------------------------------------------------------------
#[derive(Clone, Debug)]
struct Spec { window: u64, sent: u64, acked: u64, file: u32, cancelled: Option<u64>, pending: Option<u64>, ring: Vec<(u64, u64)> }

impl Spec {
    fn new(window: u64) -> Spec { Spec { window, sent: 0, acked: 0, file: 0, cancelled: None, pending: None, ring: vec![] } }
    fn covers(&self, off: u64) -> bool {
        match self.ring.last() {
            None => off == 0,
            Some(l) => self.ring.iter().any(|c| c.0 == off) || l.0.checked_add(l.1) == Some(off),
        }
    }
    fn apply(&mut self, op: &Op) {
        match op {
            Op::Sent(n) => if *n > self.sent { self.sent = *n },
            Op::Ack(f, o) => if *f == self.file { let c = (*o).min(self.sent); if c > self.acked { self.acked = c } },
            Op::Cancel(r) => if self.cancelled.is_none() { self.cancelled = Some(*r) },
            Op::Adv(f) => { self.file = *f; self.sent = 0; self.acked = 0; self.ring.clear(); self.pending = None }
            Op::Res(f, o) => if self.cancelled.is_none() && *f == self.file && self.covers(*o) {
                self.pending = Some(*o);
                if *o > self.acked && *o <= self.sent { self.acked = *o }
            },
            Op::Push(o, l) => self.ring.push((*o, *l)),
            // cancel is tested before the staged resume: a cancelled control keeps it
            Op::Take | Op::Waited(None) => if self.cancelled.is_none() { self.pending = None },
            Op::Waited(Some(_)) => {}
            Op::SetPeer(_) | Op::Query(_) => {}
        }
    }
    fn acceptable(&self, kind: &Kind) -> Vec<Got> {
        acceptable(kind, self.window, self.sent, self.acked, &self.cancelled.map(reason_text), self.pending)
    }
}

// ------------------------------------------------------------------------------------------
// `life`: one control lived through 4-6 waits of both kinds, with ops before and during them; every
// later wait must behave as on a fresh control in the same abstract state (logged as `sq` lines whose
// setup is the whole history, so the model judges exactly that)
// ------------------------------------------------------------------------------------------
/// A scripted single wait (replays, bursts, knob pairs): history, what runs while the waiter waits, observers.
#[derive(Clone)]
struct Fixed {
    window: u64,
    cap: Option<u64>,
    setup: Vec<Op>,
    kind: Kind,
    /// ops issued while the waiter waits, before `enabling` (a run of N identical events)
    during: Vec<Op>,
    enabling: Option<Op>,
    /// long runs are written into the `setup=` part of the op line (the model then folds over them instead of
    /// exploring them; the harness still issues them while the waiter waits)
    during_on_setup: bool,
    /// threads hammering the read-only methods meanwhile
    observers: u8,
    /// deadline of the wait when nothing is expected to enable it (None: 2-15 ms)
    idle_deadline: Option<Duration>,
    /// silence before the first op (None: 0-3 ms): a stall longer than any plausible internal timer
    delay_before_ops: Option<Duration>,
}

fn run_life(seed: u64, fixed: Option<Fixed>) -> SqResult {
    let mut rng = Rng::new(seed);
    let mut w = world(&mut rng);
    if let Some(f) = &fixed { w.window = f.window; w.setup = f.setup.clone(); }
    let mut hist: Vec<Op> = w.setup.clone();
    let tc = match fixed.as_ref().and_then(|f| f.cap) { Some(c) => TransferControl::with_replay_capacity(w.window, c), None => make_control(w.window, &hist) };
    let mut spec = Spec::new(w.window);
    for op in &hist { apply(&tc, op); spec.apply(op); }
    let mut res = SqResult { kind: Kind::Reconnect, lines: vec![], fails: vec![], observations: 0 };
    let mut reason = 0u64;
    let rounds = if fixed.is_some() { 1 } else { rng.range(4, 8) };
    let mut prev_kind: Option<Kind> = None;   // a producer often asks again for the same chunk
    let mut seen_lens: Vec<u64> = Vec::new();
    for round in 0..rounds {
        // something happens between two waits
        for _ in 0..(if fixed.is_some() { 0 } else { rng.below(3) }) {
            let op = match rng.below(6) {
                0 => Op::Sent(spec.sent.saturating_add(rng.range(1, 5) * w.scale)),
                1 => Op::Ack(spec.file, spec.acked.saturating_add(rng.below(3))),
                2 => Op::Query(rng.below(7) as u8),
                3 => Op::SetPeer(rng.below(4)),
                4 => Op::Res(spec.file, spec.ring.last().map(|l| l.0 + l.1).unwrap_or(0).saturating_add(1 + rng.below(2))),  // not covered
                _ => Op::Ack(other_file(&mut rng, spec.file), u64::MAX),
            };
            apply(&tc, &op); spec.apply(&op); hist.push(op);
        }
        let kind = if prev_kind.is_some() && rng.chance(2, 5) { prev_kind.clone().unwrap() } else if rng.chance(1, 2) { Kind::Reconnect } else {
            let inf = spec.sent.saturating_sub(spec.acked);
            if !seen_lens.is_empty() && rng.chance(1, 2) { Kind::Credit(*rng.pick(&seen_lens)) }   // the same chunk again, later in life
            else { Kind::Credit(*rng.pick(&[0u64, 1, w.len, spec.window, spec.window.saturating_sub(inf).saturating_add(1), u64::MAX])) }
        };
        let kind = if let Some(f) = &fixed { f.kind.clone() } else { kind };
        if let Kind::Credit(l) = &kind { if !seen_lens.contains(l) { seen_lens.push(*l); } }
        prev_kind = Some(kind.clone());
        if let Ok(mut c) = CURRENT_LINE.try_lock() {
            *c = format!("sq 0 {} {} setup={} thr=- order=- got=parked fin=0:0:0", match &kind { Kind::Credit(l) => format!("credit {}", l), Kind::Reconnect => "reconnect 0".to_string() }, w.window, show_ops(&hist));
        }
        let fam = match kind { Kind::Credit(_) => "wake.credit", Kind::Reconnect => "wake.reconnect" };
        let (k, len) = match &kind { Kind::Credit(l) => ("credit", *l), Kind::Reconnect => ("reconnect", 0) };
        let at_entry = spec.acceptable(&kind);
        // what happens during this wait
        let enabling: Option<Op> = if !at_entry.is_empty() || rng.chance(2, 5) { None } else {
            Some(match (&kind, rng.below(4)) {
                (_, 0) => { reason += 1; Op::Cancel(reason) }
                (Kind::Reconnect, _) => Op::Res(spec.file, spec.ring.last().map(|l| l.0 + l.1).unwrap_or(0)),
                (Kind::Credit(_), 1) => Op::Adv(if rng.chance(1, 3) { spec.file } else { other_file(&mut rng, spec.file) }),
                (Kind::Credit(_), _) => Op::Ack(spec.file, spec.sent),
            })
        };
        let enabling = if let Some(f) = &fixed { if at_entry.is_empty() { f.enabling.clone() } else { None } } else { enabling };
        let during: Vec<Op> = fixed.as_ref().map(|f| f.during.clone()).unwrap_or_default();
        let n_obs = match &fixed { Some(f) => f.observers, None => if rng.chance(1, 3) { rng.range(1, 3) as u8 } else { 0 } };
        // will the condition hold once everything has run?
        let mut spec_end = spec.clone();
        for op in during.iter().chain(enabling.iter()) { spec_end.apply(op); }
        let will_enable = at_entry.is_empty() && !spec_end.acceptable(&kind).is_empty();
        let stall = fixed.as_ref().and_then(|f| f.delay_before_ops);
        let d = if will_enable { Duration::from_millis(6000) + stall.unwrap_or(Duration::ZERO) } else if let Some(dd) = fixed.as_ref().and_then(|f| f.idle_deadline) { dd } else { Duration::from_millis(2 + rng.below(14)) };
        let (tx, rx) = mpsc::channel::<(Got, Instant, Instant)>();
        let waiter = {
            let (tc, kind) = (tc.clone(), kind.clone());
            std::thread::spawn(move || {
                let t0 = Instant::now();
                let deadline = t0 + d;
                let r = repe_verif_harness::catch(|| match kind {
                    Kind::Credit(len) => match tc.wait_for_credit(len, deadline) {
                        Ok(()) => Got::Ok,
                        Err(CreditError::Cancelled(r)) => Got::Cancelled(r),
                        Err(CreditError::Timeout) => Got::Timeout,
                    },
                    Kind::Reconnect => match tc.wait_for_reconnect(d) {
                        ReconnectOutcome::ResumeReady(p) => Got::Resume(p.resume_at_offset),
                        ReconnectOutcome::Cancelled(r) => Got::Cancelled(r),
                        ReconnectOutcome::Timeout => Got::Timeout,
                    },
                });
                let t1 = Instant::now();
                let _ = tx.send((r.unwrap_or(Got::Panic), deadline, t1));
            })
        };
        // observers: read-only calls from 1-3 threads while everything else runs
        let stop = Arc::new(AtomicBool::new(false));
        let observers: Vec<_> = (0..n_obs).map(|oi| {
            let (tc, stop) = (tc.clone(), stop.clone());
            std::thread::spawn(move || {
                let mut seen: Vec<(u64, u64, bool)> = Vec::new();
                let mut i = oi as u64;
                while !stop.load(Ordering::Relaxed) {
                    i += 1;
                    let (s, a) = tc.offsets();
                    let c = if i % 2 == 0 { tc.is_cancelled() } else { tc.cancel_reason().is_some() };
                    // the two reads are separate calls: pair the flag only with itself
                    if seen.last() != Some(&(s, a, c)) && seen.len() < 4096 { seen.push((s, a, c)); }
                    match i % 5 { 0 => { let _ = tc.timestamps(); } 1 => { let _ = tc.peer(); } 2 => { let _ = tc.replay_chunks_from(0); } _ => {} }
                    if i % 64 == 0 { std::thread::yield_now(); }
                }
                seen
            })
        }).collect();
        let mut thr = "-".to_string();
        let mut op_done = None;
        let mut after_op: Vec<Got> = vec![];
        // every state the control goes through from here on, by the history of calls
        let mut states: Vec<(u64, u64, bool)> = vec![(spec.sent, spec.acked, spec.cancelled.is_some())];
        let ops_now: Vec<Op> = during.iter().cloned().chain(enabling.iter().cloned()).collect();
        if !ops_now.is_empty() {
            std::thread::sleep(stall.unwrap_or(Duration::from_micros(rng.below(3000))));
            for op in &ops_now {
                apply(&tc, op);
                spec.apply(op);
                states.push((spec.sent, spec.acked, spec.cancelled.is_some()));
            }
            op_done = Some(Instant::now());
            after_op = spec.acceptable(&kind);
            let on_thr: Vec<Op> = if fixed.as_ref().map(|f| f.during_on_setup).unwrap_or(false) { enabling.iter().cloned().collect() } else { ops_now.clone() };
            if !on_thr.is_empty() { thr = show_ops(&on_thr); }
        }
        let line_setup: Vec<Op> = if fixed.as_ref().map(|f| f.during_on_setup).unwrap_or(false) { hist.iter().cloned().chain(during.iter().cloned()).collect() } else { hist.clone() };
        let r = rx.recv_timeout(d + WATCHDOG).ok();
        stop.store(true, Ordering::Relaxed);
        let observed: Vec<(u64, u64, bool)> = observers.into_iter().filter_map(|h| h.join().ok()).flatten().collect();
        let (sent, acked) = catch(|| tc.offsets()).unwrap_or((0, 0));
        let cancelled = catch(|| tc.is_cancelled()).unwrap_or(true);
        let fin = format!("{}:{}:{}", sent, acked, if cancelled { 1 } else { 0 });
        let got = r.as_ref().map(|x| x.0.clone()).unwrap_or(Got::Parked);
        let win_word = match fixed.as_ref().and_then(|f| f.cap) { Some(c) => format!("{}/{}", w.window, c), None => w.window.to_string() };
        let ord_word = match fixed.as_ref().and_then(|f| f.idle_deadline) {
            Some(dd) if dd >= Duration::from_millis(100) => format!("d{}{}", dd.as_millis(), if stall.is_some() { "s" } else { "" }),
            _ => "-".to_string(),
        };
        let line = format!("sq IDX {} {} {} setup={} thr={} order={} got={} fin={}", k, len, win_word, show_ops(&line_setup), thr, ord_word, got.show(), fin);
        let nth = format!("wait {} of {} in the life of one control ({} ms deadline)", round + 1, rounds, d.as_millis());
        // (j) every observation is a state the control really was in (offsets() is one lock region)
        for (s, a, c) in &observed {
            let offsets_ok = states.iter().any(|st| st.0 == *s && st.1 == *a);
            let flag_ok = !*c || states.iter().any(|st| st.2);
            if !offsets_ok || !flag_ok {
                res.fails.push(("wake.observer.inadmissible_state".to_string(), format!(
                    "{}: an observer thread read offsets()=({}, {}) cancelled={} which is not a state the control was in at any point of the calls issued ({} states)",
                    nth, s, a, c, states.len()), line.clone()));
                break;
            }
        }
        if n_obs > 0 { res.observations += observed.len() as u64; }
        match &r {
            None => {
                res.fails.push((format!("{}.timeout.never", fam), format!("{}: no return within deadline + 10 s", nth), line.clone()));
                let _ = catch(|| tc.cancel("cleanup"));
                let _ = rx.recv_timeout(WATCHDOG);
            }
            Some((g, deadline, t1)) => {
                if !at_entry.is_empty() {
                    if !at_entry.contains(g) {
                        let sig = if *g == Got::Timeout { "timeout.before_condition" } else { "value.at_entry" };
                        res.fails.push((format!("{}.{}", fam, sig), format!("{}: by the history of calls the condition holds at entry (expected {}), the wait returned {}", nth,
                            at_entry.iter().map(|x| x.show()).collect::<Vec<_>>().join(" or "), g.show()), line.clone()));
                    }
                } else if *g == Got::Timeout && t1 < deadline {
                    res.fails.push((format!("{}.timeout.early", fam), format!("{}: Timeout returned {} ms before this wait's own deadline", nth, deadline.saturating_duration_since(*t1).as_millis()), line.clone()));
                } else if *g == Got::Timeout && !after_op.is_empty() && op_done.map(|t| t < *deadline).unwrap_or(false) {
                    res.fails.push((format!("{}.missed_wakeup", fam), format!("{}: {} completed {} ms before the deadline and makes the condition true, the wait slept on to its deadline", nth, thr,
                        deadline.saturating_duration_since(op_done.unwrap()).as_millis()), line.clone()));
                } else if *g != Got::Timeout && after_op.contains(g) && t1 >= deadline
                    && op_done.map(|t| deadline.saturating_duration_since(t) >= Duration::from_secs(5)).unwrap_or(false) {
                    // the value is right, but it came only when the wait's own timer fired
                    res.fails.push((format!("{}.missed_wakeup", fam), format!("{}: {} completed {} ms before the deadline and makes the condition true; the wait returned {} only when its deadline expired", nth, thr,
                        deadline.saturating_duration_since(op_done.unwrap()).as_millis(), g.show()), line.clone()));
                } else if *g != Got::Timeout && !after_op.contains(g) {
                    res.fails.push((format!("{}.value.unjustified", fam), format!("{}: returned {} but by the history of calls the condition {}", nth, g.show(),
                        if after_op.is_empty() { "never held".to_string() } else { format!("gives {}", after_op.iter().map(|x| x.show()).collect::<Vec<_>>().join(" or ")) }), line.clone()));
                }
            }
        }
        if r.is_some() { let _ = waiter.join(); }
        res.lines.push((line, format!("IDX {} {}", got.show(), fin)));
        if r.is_none() { break; }
        for op in ops_now { hist.push(op); }
        let wop = Op::Waited(match &kind { Kind::Credit(l) => Some(*l), Kind::Reconnect => None });
        // the spec consumes the resume only if this wait really returned it (it may have timed out first)
        if let Got::Resume(_) = got { spec.apply(&wop); hist.push(wop); }
        else if !matches!(kind, Kind::Reconnect) || spec.pending.is_none() || spec.cancelled.is_some() { hist.push(wop); }
    }
    res
}


// ------------------------------------------------------------------------------------------
// (g) runs of N identical events while the waiter waits; (k) pairs of knobs at their extremes
// ------------------------------------------------------------------------------------------
const RUN_SIZES: [usize; 10] = [1, 2, 7, 8, 9, 16, 17, 64, 65, 256];

fn gen_bursts(thorough: bool) -> Vec<Fixed> {
    let mut v = Vec::new();
    let mut sizes: Vec<usize> = RUN_SIZES.to_vec();
    if thorough { sizes.push(1000); }
    let base = vec![Op::Push(0, 100_000), Op::Sent(100_000)];
    let mut case_no = 0u64;
    for reconnect in [false, true] {
        for rk in 0..12u32 {
            for &n in &sizes {
                case_no += 1;
                let window = 1 + case_no % 8;
                let kind = if reconnect { Kind::Reconnect } else { Kind::Credit(1 + case_no % 4) };
                let mut setup = base.clone();
                let mut during: Vec<Op> = Vec::new();
                for i in 0..n as u64 {
                    match rk {
                        0 => during.push(Op::Ack(0, i + 1)),                       // advancing, insufficient: each one notifies
                        1 => during.push(Op::Ack(0, 0)),                           // stale
                        2 => during.push(Op::Sent(100_001 + i)),
                        3 => during.push(Op::Res(5, 0)),                           // wrong file: refused
                        4 => during.push(Op::Res(0, 0)),                           // accepted, frees nothing (reconnect: the first one enables)
                        5 => during.push(Op::Query((i % 7) as u8)),
                        6 => during.push(Op::SetPeer(i % 4)),
                        7 => during.push(Op::Ack(3, u64::MAX)),                    // foreign file
                        8 => setup.push(Op::Waited(match &kind { Kind::Credit(l) => Some(*l), Kind::Reconnect => None })), // N timeouts in a row before this wait
                        9 => during.push(Op::Cancel(2 + i)),                       // N cancels: the first reason stays
                        10 => { during.push(Op::Sent(100_001 + i)); during.push(Op::Ack(0, 100_001 + i)); }
                        _ => during.push(Op::Adv((1 + i % 3) as u32)),
                    }
                }
                // what finally enables the waiter (nothing more when the run itself does)
                let mut spec = Spec::new(window);
                for op in setup.iter().chain(during.iter()) { spec.apply(op); }
                let enabling = if !spec.acceptable(&kind).is_empty() { None } else if reconnect {
                    Some(if case_no % 3 == 0 { Op::Cancel(2) } else { Op::Res(spec.file, spec.ring.last().map(|l| l.0 + l.1).unwrap_or(0)) })
                } else {
                    Some(match case_no % 3 { 0 => Op::Cancel(3), 1 => Op::Adv(9), _ => Op::Ack(spec.file, spec.sent) })
                };
                v.push(Fixed { window, cap: None, setup, kind, during, enabling, during_on_setup: n >= 256, observers: (case_no % 3) as u8, idle_deadline: None, delay_before_ops: None });
            }
        }
    }
    v
}

fn gen_pairs() -> Vec<Fixed> {
    let mut v = Vec::new();
    let mut case_no = 0u64;
    for &window in &[0u64, 1, u64::MAX] {
        for &cap in &[0u64, u64::MAX, repe::DEFAULT_REPLAY_RING_BYTES] {
            for state in 0..3 {
                for dl in 0..3 {
                    let lens: Vec<Option<u64>> = vec![Some(0), Some(1), Some(u64::MAX), None];   // None = reconnect
                    for len in lens {
                        case_no += 1;
                        let mut setup = vec![Op::Sent(5)];
                        match state { 1 => setup.push(Op::Cancel(2 + case_no % 5)), 2 => setup.push(Op::Res(0, 0)), _ => {} }
                        let kind = match len { Some(l) => Kind::Credit(l), None => Kind::Reconnect };
                        let (idle_deadline, enabling) = match dl {
                            0 => (Some(Duration::ZERO), None),
                            1 => (Some(Duration::from_millis(4)), None),
                            _ => (Some(Duration::from_millis(3)), Some(match (&kind, case_no % 2) { (_, 0) => Op::Cancel(9), (Kind::Reconnect, _) => Op::Res(0, 0), _ => Op::Ack(0, 5) })),
                        };
                        v.push(Fixed { window, cap: Some(cap), setup, kind, during: vec![], enabling, during_on_setup: false, observers: 0, idle_deadline, delay_before_ops: None });
                    }
                }
            }
        }
    }
    v
}


// ------------------------------------------------------------------------------------------
// (s) silences longer than any plausible internal timer: waits whose deadline is 0.3 / 0.6 / 1.1 s (thorough:
// 2.5 / 5.5 / 11 s) away and nothing happens (Timeout, not before the deadline), or the enabling event comes
// only after such a silence (the value, promptly). They run concurrently.
// ------------------------------------------------------------------------------------------
fn gen_stalls(thorough: bool) -> Vec<Fixed> {
    let mut v = Vec::new();
    let mut ms: Vec<u64> = vec![300, 600, 1100];
    if thorough { ms.extend([2500, 5500, 11000]); }
    let mut n = 0u64;
    for &m in &ms {
        for reconnect in [false, true] {
            for late_event in [false, true] {
                n += 1;
                let kind = if reconnect { Kind::Reconnect } else { Kind::Credit(1 + n % 3) };
                let setup = vec![Op::Push(0, 50), Op::Sent(50)];
                let enabling = if !late_event { None } else if reconnect { Some(if n % 2 == 0 { Op::Cancel(4) } else { Op::Res(0, 50) }) } else { Some(if n % 2 == 0 { Op::Ack(0, 50) } else { Op::Adv(3) }) };
                v.push(Fixed { window: 1 + n % 5, cap: None, setup, kind, during: vec![], enabling, during_on_setup: false, observers: 0,
                    idle_deadline: Some(Duration::from_millis(m)), delay_before_ops: if late_event { Some(Duration::from_millis(m)) } else { None } });
            }
        }
    }
    v
}

// ------------------------------------------------------------------------------------------
// (n) which public entry points of src/stream.rs does this harness drive?
// ------------------------------------------------------------------------------------------
const DRIVEN: &[&str] = &["new", "with_replay_capacity", "set_peer", "peer", "push_replay", "replay_chunks_from", "request_resume",
    "wait_for_reconnect", "wait_for_credit", "record_sent", "record_ack", "cancel", "is_cancelled", "cancel_reason", "advance_to_file",
    "timestamps", "offsets", "register", "unregister", "get", "snapshot", "len", "is_empty", "spawn_watchdog", "reason"];
/// (name, why not)
const NOT_DRIVEN_BECAUSE: &[(&str, &str)] = &[];

fn entry_point_audit(out: &mut Out) {
    let repo = std::env::var("VERIF_REPO").unwrap_or_else(|_| "/repo".into());
    let text = std::fs::read_to_string(std::path::Path::new(&repo).join("src").join("stream.rs")).unwrap_or_default();
    let text = text.split("#[cfg(test)]").next().unwrap_or("").to_string();
    let mut found = Vec::new();
    for line in text.lines() {
        let t = line.trim_start();
        for pre in ["pub async fn ", "pub fn ", "pub(crate) fn "] {
            if let Some(rest) = t.strip_prefix(pre) {
                let name: String = rest.chars().take_while(|c| c.is_alphanumeric() || *c == '_').collect();
                if !name.is_empty() && !found.contains(&name) { found.push(name); }
            }
        }
    }
    let missing: Vec<String> = found.iter().filter(|n| !DRIVEN.contains(&n.as_str()) && !NOT_DRIVEN_BECAUSE.iter().any(|(x, _)| x == n)).cloned().collect();
    for m in &missing {
        out.count(&format!("NOT_DRIVEN.{}", m));
        eprintln!("fam_wake: public entry point `{}` of src/stream.rs is not driven by this harness", m);
    }
    out.extra.insert("entry_points_found".into(), serde_json::json!(found.len()));
    out.extra.insert("not_driven".into(), serde_json::json!(missing));
    out.extra.insert("not_driven_because".into(), serde_json::json!(NOT_DRIVEN_BECAUSE.iter().map(|(a, b)| format!("{}: {}", a, b)).collect::<Vec<_>>()));
}

// ------------------------------------------------------------------------------------------
// `race`: many fast rounds, waiter and signaller released together, start offset swept
// ------------------------------------------------------------------------------------------
/// Only paid when a wake-up is in fact lost.
const RACE_WATCHDOG: Duration = Duration::from_secs(5);

#[derive(Clone)]
struct RaceRound { kind: Kind, window: u64, setup: Vec<Op>, ops: Vec<Op>, wdelay: u32, sdelay: u32, mid_delay: u32 }

fn spin(n: u32) { for _ in 0..n { std::hint::spin_loop(); } }

/// A round whose last op makes the waiter's condition true; optionally preceded by a wake-up that does not.
fn race_round(rng: &mut Rng, i: u64) -> RaceRound {
    let w = world(rng);
    let reconnect = rng.chance(1, 2);
    let covered: Vec<u64> = w.chunks.iter().map(|c| c.0).chain([w.sent]).collect();
    let enabling = if reconnect {
        if rng.chance(1, 2) { Op::Res(w.file, *rng.pick(&covered)) } else { Op::Cancel(rng.range(1, 9)) }
    } else {
        match rng.below(4) { 0 => Op::Cancel(rng.range(1, 9)), 1 => Op::Adv(if rng.chance(1, 3) { w.file } else { other_file(rng, w.file) }), 2 => Op::Res(w.file, w.sent),
            // the smallest sufficient ack (in-flight lands exactly on window - len, or on 0) or everything
            _ => Op::Ack(w.file, if rng.chance(1, 2) { w.sent } else { w.sent.saturating_add(w.len).saturating_sub(w.window).min(w.sent) }) }
    };
    let keep_full_below = w.sent.saturating_add(w.len).saturating_sub(w.window).min(w.sent);
    let style = i % 4;
    let mut ops = Vec::new();
    let (mut wdelay, mut sdelay, mut mid_delay) = (0u32, 0u32, 0u32);
    match style {
        0 | 1 => sdelay = (i / 4 % 200) as u32,                 // signaller a little later: hits the waiter's entry
        2 => wdelay = (i / 4 % 64) as u32,                      // signaller first
        _ => {
            // re-entry: a wake-up that does not satisfy the condition, then the one that does
            let pre = if keep_full_below > w.acked + 1 { Op::Ack(w.file, w.acked + 1) } else { Op::Ack(w.file, w.sent + 1).clone() };
            let pre = if matches!(pre, Op::Ack(_, o) if o > w.sent) { Op::Sent(w.sent + w.scale) } else { pre };
            ops.push(pre);
            sdelay = 1500 + (i / 4 * 37 % 1500) as u32;
            mid_delay = (i / 4 * 13 % 4000) as u32;
        }
    }
    ops.push(enabling);
    RaceRound { kind: if reconnect { Kind::Reconnect } else { Kind::Credit(w.len) }, window: w.window, setup: w.setup, ops, wdelay, sdelay, mid_delay }
}

/// Runs `rounds` until done, `budget` is used up, or failures make it pointless. Returns false to stop.
fn race_batch(out: &mut Out, rounds: Vec<RaceRound>, idx: &mut u64, until: Instant) -> bool {
    use std::sync::atomic::AtomicUsize;
    let n = rounds.len();
    let ctls: Arc<Vec<Arc<TransferControl>>> = Arc::new(rounds.iter().map(|r| {
        let tc = make_control(r.window, &r.setup);
        for op in &r.setup { apply(&tc, op); }
        tc
    }).collect());
    let rounds = Arc::new(rounds);
    let go = Arc::new(AtomicUsize::new(0));
    let done = Arc::new(AtomicUsize::new(0));
    let slots: Arc<Vec<Mutex<Option<Got>>>> = Arc::new((0..n).map(|_| Mutex::new(None)).collect());
    let waiter = {
        let (ctls, rounds, go, done, slots) = (ctls.clone(), rounds.clone(), go.clone(), done.clone(), slots.clone());
        std::thread::spawn(move || {
            for i in 0..n {
                let mut spins = 0u32;
                loop {
                    let g = go.load(Ordering::Acquire);
                    if g == usize::MAX { return; }
                    if g == i + 1 { break; }
                    spins += 1;
                    if spins > 3000 { std::thread::yield_now(); } else { std::hint::spin_loop(); }
                }
                spin(rounds[i].wdelay);
                let tc = &ctls[i];
                let r = repe_verif_harness::catch(|| match rounds[i].kind {
                    Kind::Credit(len) => match tc.wait_for_credit(len, Instant::now() + FAR) {
                        Ok(()) => Got::Ok,
                        Err(CreditError::Cancelled(r)) => Got::Cancelled(r),
                        Err(CreditError::Timeout) => Got::Timeout,
                    },
                    Kind::Reconnect => match tc.wait_for_reconnect(FAR) {
                        ReconnectOutcome::ResumeReady(p) => Got::Resume(p.resume_at_offset),
                        ReconnectOutcome::Cancelled(r) => Got::Cancelled(r),
                        ReconnectOutcome::Timeout => Got::Timeout,
                    },
                });
                *slots[i].lock().unwrap() = Some(r.unwrap_or(Got::Panic));
                done.store(i + 1, Ordering::Release);
            }
        })
    };
    let wait_done = |i: usize, limit: Duration| -> bool {
        let t = Instant::now();
        let mut spins = 0u32;
        loop {
            if done.load(Ordering::Acquire) == i + 1 { return true; }
            spins += 1;
            if spins < 3000 { std::hint::spin_loop(); }
            else if spins < 6000 { std::thread::yield_now(); }
            else { std::thread::sleep(Duration::from_micros(100)); }
            if spins >= 3000 && t.elapsed() > limit { return done.load(Ordering::Acquire) == i + 1; }
        }
    };
    let mut keep_going = true;
    for i in 0..n {
        if Instant::now() > until { out.count("race.time_budget_reached"); keep_going = false; go.store(usize::MAX, Ordering::Release); break; }
        let r = &rounds[i];
        let tc = &ctls[i];
        go.store(i + 1, Ordering::Release);
        spin(r.sdelay);
        let mut results = Vec::new();
        let mut cur_file = r.setup.iter().rev().find_map(|o| if let Op::Adv(f) = o { Some(*f) } else { None }).unwrap_or(0);
        let mut ack_lost: Option<String> = None;
        for (j, op) in r.ops.iter().enumerate() {
            if j > 0 { spin(r.mid_delay); }
            results.push(catch(|| apply(tc, op)).unwrap_or(OpRes::ResumeErr));
            match op {
                Op::Adv(f) => cur_file = *f,
                // "a sufficient acknowledgement occurs": the call returned, so the ack must be in the books
                // (only this thread changes the offsets)
                Op::Ack(f, off) if *f == cur_file => {
                    let (s1, a1) = catch(|| tc.offsets()).unwrap_or((0, 0));
                    if a1 < (*off).min(s1) { ack_lost = Some(format!("record_ack({}, {}) returned, offsets() = ({}, {}): the acknowledgement was not recorded", f, off, s1, a1)); }
                }
                _ => {}
            }
        }
        let (sent, acked) = catch(|| tc.offsets()).unwrap_or((0, 0));
        let cancelled = catch(|| tc.is_cancelled()).unwrap_or(true);
        let must_real = cancelled || match &r.kind {
            Kind::Credit(len) => { let inf = sent.saturating_sub(acked); credit_fits(inf, *len, r.window) }
            Kind::Reconnect => results.iter().any(|x| matches!(x, OpRes::ResumeOk(_))),
        };
        // the same question answered from the history of calls alone (one signaller: the order is known)
        let mut spec = Spec::new(r.window);
        for op in r.setup.iter().chain(r.ops.iter()) { spec.apply(op); }
        let must_spec = !spec.acceptable(&r.kind).is_empty();
        if must_spec != must_real { out.count("race.history_vs_getters_disagree"); }
        let must_return = must_real || must_spec;
        let returned = wait_done(i, if must_return { RACE_WATCHDOG } else { Duration::from_millis(2) });
        let mut cleanup_missed = false;
        let got = if returned { slots[i].lock().unwrap().clone().unwrap_or(Got::Panic) } else {
            let _ = catch(|| tc.cancel("cleanup"));
            if !wait_done(i, WATCHDOG) { cleanup_missed = true; }
            Got::Parked
        };
        *idx += 1;
        let c = Case { tmo: false, imm: false, kind: r.kind.clone(), window: r.window, cap: None, setup: r.setup.clone(), threads: vec![r.ops.clone()], seq: false };
        let head = c.head(*idx).replacen("wake", "race", 1);
        let fin = format!("{}:{}:{}", sent, acked, if cancelled { 1 } else { 0 });
        let line = format!("{} order=- got={} fin={}", head, got.show(), fin);
        let e = Exec { got: got.clone(), fin: (sent, acked, cancelled), order: None, must_return, snaps: vec![], results: vec![results], parked_seen: false,
                       tmo_ok: None, cleanup_missed, entry_want: vec![], watchdog_s: RACE_WATCHDOG.as_secs() };
        oracles(out, &c, &e, &line);
        let kind = match r.kind { Kind::Credit(_) => "credit", Kind::Reconnect => "reconnect" };
        if let Some(d) = ack_lost { out.oracle_fail(&format!("wake.{}.ack_lost", kind), &d, &[line.clone()]); }
        out.count(&format!("race.{}.{}", kind, got.show().split(':').next().unwrap()));
        out.count(match (r.ops.len(), r.wdelay > 0) { (2, _) => "race.reentry", (_, true) => "race.signaller_first", _ => "race.waiter_entry" });
        if !must_return { out.count("race.not_enabling"); }
        out.case(&line, &format!("{} {} {}", *idx, got.show(), fin), must_return);
        if cleanup_missed { go.store(usize::MAX, Ordering::Release); return false; }
        if out.oracle_failures >= MAX_FAILURES { go.store(usize::MAX, Ordering::Release); keep_going = false; break; }
    }
    if keep_going || out.oracle_failures < MAX_FAILURES { let _ = waiter.join(); }
    keep_going
}

fn race_phase(out: &mut Out, rng: &mut Rng, idx: &mut u64, total: u64, budget: Duration, template: Option<&Case>) {
    let until = Instant::now() + budget;
    out.flush_each = false;
    let mut i = 0u64;
    while i < total && out.oracle_failures < MAX_FAILURES {
        let n = (total - i).min(4000);
        let rounds: Vec<RaceRound> = (0..n).map(|j| {
            let mut r = race_round(rng, i + j);
            if let Some(c) = template {
                // replay: the recorded case, delays still swept
                r.kind = c.kind.clone(); r.window = c.window; r.setup = c.setup.clone();
                r.ops = c.threads.iter().flatten().cloned().collect();
                if r.ops.len() < 2 { r.mid_delay = 0; if r.sdelay >= 1500 { r.sdelay = ((i + j) % 200) as u32; } }
            }
            r
        }).collect();
        i += n;
        if !race_batch(out, rounds, idx, until) { break; }
    }
    out.flush_each = true;
}

// ------------------------------------------------------------------------------------------
fn run_case(out: &mut Out, c: &Case, idx: u64, rng: &mut Rng) {
    let head = c.head(idx);
    out.begin(&head);
    if let Ok(mut c) = CURRENT_LINE.lock() { *c = head.clone(); }
    let tmo_ms = 1 + rng.below(31);
    let e = execute(c, rng, tmo_ms);
    let order = match &e.order { Some(o) if !o.is_empty() => o.iter().map(|t| t.to_string()).collect::<Vec<_>>().join("."), Some(_) => "-".into(), None => "-".into() };
    let fin = format!("{}:{}:{}", e.fin.0, e.fin.1, if e.fin.2 { 1 } else { 0 });
    let line = format!("{} order={} got={} fin={}", head, order, e.got.show(), fin);
    let obs = format!("{} {} {}", idx, e.got.show(), fin);
    oracles(out, c, &e, &line);
    let kind = match c.kind { Kind::Credit(_) => "credit", Kind::Reconnect => "reconnect" };
    out.count(&format!("{}.{}.{}", if c.imm { "imm" } else if c.tmo { "tmo" } else { "wake" }, kind, e.got.show().split(':').next().unwrap()));
    out.count(&format!("threads.{}", c.threads.len()));
    out.count(&format!("ops.{}", c.threads.iter().map(|t| t.len()).sum::<usize>()));
    out.count(if c.seq { "signallers.serialised" } else { "signallers.free" });
    if e.parked_seen { out.count("waiter.seen_asleep_before_ops"); } else { out.count("waiter.entry_raced"); }
    if e.must_return && !c.tmo { out.count("wake.must_return"); }
    if let Some((_, ms)) = e.tmo_ok { out.add("tmo.elapsed_ms_total", ms as u64); }
    for op in c.threads.iter().flatten() { out.count(&format!("op.{}", op.show().split(':').next().unwrap())); }
    out.case(&line, &obs, c.tmo || e.must_return);
}

fn main() {
    let args = Args::parse();
    if std::env::var("WAKE_LOUD").is_err() { quiet_panics(); }
    let mut out = Out::new(&args.out);
    out.flush_each = true;
    let mut rng = Rng::new(args.seed);
    spawn_deadman(args.out.clone());
    entry_point_audit(&mut out);
    out.rule = "one real thread in wait_for_credit/wait_for_reconnect (deadline 1 h) on a TransferControl whose window is full; the harness waits until /proc shows the waiter asleep (70%) or races its entry (30%); then 1-3 ops (ack: exact/insufficient/capped/stale/foreign, cancel, advance, resume: covered/uncovered/foreign, sent) from 1-3 threads with random yields/spins, signallers serialised by a harness lock (linearisation recorded) or free; values scaled by 1..2^40; 3/8 of the worlds sit on a boundary of the credit rule (window 0, chunk_len 0, chunk_len = window, oversized chunk) and enabling acks land in-flight exactly on the grant boundary or on 0. Oracles: condition true in the real final state => waiter returns within 10 s; never Timeout; returned value matches a state that occurred. `tmo` cases: 1-31 ms deadline, 0-3 ops that cannot satisfy the condition (many of them notify), spread over the wait, must return Timeout, not before the deadline. `imm` cases: deadline already passed at entry and condition already true: the matching value must be returned, not Timeout. `race` rounds: waiter and signaller released together from a spin barrier, start offset swept (signaller 0-200 spins later / waiter 0-64 spins later / a non-enabling wake-up then the enabling one 0-4000 spins apart), last op makes the condition true, 5 s watchdog. `multi` cases: 2-4 waiters of mixed kinds (credit with different chunk lengths, reconnect) parked on one control, 1-3 ops: every waiter whose condition holds in the final state must return, a staged resume must be taken by exactly one reconnect waiter, one cancel releases all the rest. `wd`: the registry's idle watchdog (200 ms idle timeout) cancels two idle transfers whose producers are parked: both must return Cancelled(transfer idle). `sq` cases: 2-3 waits one after the other on the SAME control: 1-2 short ones (1-12 ms) that must time out, then one with a fresh 40-120 ms deadline during which, in 3/5 of the cases, an enabling op arrives: never Timeout before that wait's own deadline, never Timeout when the op completed before it. `life` cases: one control through 4-6 waits of both kinds (chunk_len 0/1/window/u64::MAX...), ops between and during the waits, later waits after Timeout / Ok / ResumeReady (resume consumed) / Cancelled results; expectations come from a harness-side reading of the call history (not from the control's getters). `burst` cases: runs of 1,2,7,8,9,16,17,64,65,256 (thorough: 1000) identical events while the waiter waits (advancing/stale/foreign acks, sends, refused and accepted resumes, readers, set_peer, cancels, send+ack pairs, advances) or N timeouts in a row before the wait, then the enabling event; `pairs`: window x replay capacity x chunk_len x state x deadline at their extremes (324 combinations); in a third of the scripted/life waits 1-3 observer threads hammer the read-only methods and every observed (sent, acked) must be a state of the call history. `stall` cases: deadlines 0.3/0.6/1.1 s (thorough 2.5/5.5/11 s) with nothing happening, or the enabling event only after that silence; one world in eight has 12-40 chunks in the ring, one multi case in twelve 12-16 waiters. `trk` cases: 300-400 ms deadline, a non-enabling ack every ~deadline/4, must return Timeout no later than deadline + 3 s. Non-trivial = the final state obliges the waiter to return, or a tmo case; distinct by op line (incl. observed order/outcome)".into();
    let mut idx = 0u64;
    if let Some(lines) = args.replay_ops() {
        for l in lines {
            if let Some(mc) = parse_multi(&l) {
                for _ in 0..50 {
                    if out.oracle_failures >= MAX_FAILURES { break; }
                    idx += 1;
                    run_multi(&mut out, &mc, idx);
                }
                continue;
            }
            if let Some(c) = Case::parse(&l) {
                if l.starts_with("trk ") {
                    for _ in 0..2 {
                        idx += 1;
                        let r = run_trickle(c.kind.clone(), c.window, c.setup.clone(), 300 + rng.below(101), rng.next());
                        log_trickle(&mut out, r, idx);
                    }
                    continue;
                }
                if l.starts_with("sq ") {
                    for i in 0..10 {
                        if out.oracle_failures >= MAX_FAILURES { break; }
                        let enabling = c.threads.iter().flatten().next().cloned();
                        // the recorded wait on a control with the recorded history (earlier waits included, `w:*`) ...
                        let all: Vec<Op> = c.threads.iter().flatten().cloned().collect();
                        let during: Vec<Op> = if all.len() > 1 { all[..all.len() - 1].to_vec() } else { vec![] };
                        // `order=d<ms>[s]`: the scripted deadline of a stall case (s: the event comes only after that silence)
                        let dword = words(&l).get(7).and_then(|o| o.strip_prefix("order=d")).map(|x| x.to_string());
                        let idle = dword.as_ref().and_then(|x| x.trim_end_matches('s').parse::<u64>().ok()).map(Duration::from_millis);
                        let delay = if dword.as_ref().map(|x| x.ends_with('s')).unwrap_or(false) { idle } else { None };
                        if idle.is_some() && i >= 2 { break; }
                        let r = run_life(rng.next(), Some(Fixed { window: c.window, cap: c.cap, setup: c.setup.clone(), kind: c.kind.clone(), during,
                            enabling: all.last().cloned(), during_on_setup: false, observers: (i % 3) as u8, idle_deadline: idle, delay_before_ops: delay }));
                        log_sq(&mut out, r, &mut idx);
                        // ... and, when the history says the wait starts with its condition false, also preceded by waits that time out
                        let mut spec = Spec::new(c.window);
                        for op in &c.setup { spec.apply(op); }
                        if i % 2 == 0 && spec.acceptable(&c.kind).is_empty() {
                            let r = run_sq(SqCase { kind: c.kind.clone(), window: c.window, setup: c.setup.clone(), enabling, n_timeouts: 1 + (rng.below(2) as u32) }, rng.next());
                            log_sq(&mut out, r, &mut idx);
                        }
                    }
                    continue;
                }
                if l.starts_with("race ") {
                    race_phase(&mut out, &mut rng, &mut idx, 40000, Duration::from_secs(30), Some(&c));
                    continue;
                }
                for _ in 0..REPLAY_RUNS {
                    if out.oracle_failures >= MAX_FAILURES { break; }
                    idx += 1;
                    run_case(&mut out, &c, idx, &mut rng);
                }
            }
        }
    } else {
        // `lite` (the release-profile run of the thorough tier): quick-sized workloads
        let big = args.thorough() && !args.has("lite");
        let (n_wake, n_tmo) = if big { (100000, 2500) } else { (3000, 150) };
        // trickle cases sleep most of the time: they run beside everything else
        let n_trk = if big { 24 } else { 8 };
        let trk: Vec<_> = (0..n_trk).map(|_| {
            let (kind, window, setup, d_ms) = trk_case(&mut rng);
            let seed = rng.next();
            std::thread::spawn(move || run_trickle(kind, window, setup, d_ms, seed))
        }).collect();
        let n_sq = if big { 160 } else { 32 };
        let sq: Vec<_> = (0..n_sq).map(|_| {
            let c = gen_sq(&mut rng);
            let seed = rng.next();
            std::thread::spawn(move || run_sq(c, seed))
        }).collect();
        let n_life = if big { 400 } else { 64 };
        let life: Vec<_> = (0..n_life).map(|_| { let seed = rng.next(); std::thread::spawn(move || run_life(seed, None)) }).collect();
        let stalls: Vec<_> = gen_stalls(big).into_iter().map(|f| { let seed = rng.next(); std::thread::spawn(move || run_life(seed, Some(f))) }).collect();
        let wdog = { let seed = rng.next(); let th = big; std::thread::spawn(move || run_watchdog_case(seed, th)) };
        // entry races
        let (n_race, race_budget) = if big { (400000, Duration::from_secs(120)) } else { (30000, Duration::from_secs(8)) };
        let t_race = Instant::now();
        race_phase(&mut out, &mut rng, &mut idx, n_race, race_budget, None);
        out.extra.insert("race_phase_ms".into(), serde_json::json!(t_race.elapsed().as_millis() as u64));
        eprintln!("race phase: {} ms", t_race.elapsed().as_millis());
        // tmo cases are spread among the wake cases
        let every = n_wake / n_tmo;
        // on a crowded machine the quick tier stops generating after a while (coverage shrinks, the verdict does not change)
        let wake_until = Instant::now() + if big { Duration::from_secs(200) } else { Duration::from_secs(16) };
        for i in 0..n_wake {
            if i % 64 == 0 && Instant::now() > wake_until {
                out.count("wake.time_budget_reached");
                break;
            }
            if out.oracle_failures >= MAX_FAILURES {
                out.count("stopped_early_after_failures");
                break;
            }
            idx += 1;
            let c = gen_case(&mut rng, false);
            run_case(&mut out, &c, idx, &mut rng);
            if i % every == 0 {
                idx += 1;
                let c = gen_case(&mut rng, true);
                run_case(&mut out, &c, idx, &mut rng);
                idx += 1;
                let c = gen_imm(&mut rng);
                run_case(&mut out, &c, idx, &mut rng);
            }
        }
        // (g) runs of identical events, (k) knob pairs: scripted single waits
        let scripted_until = Instant::now() + if big { Duration::from_secs(100) } else { Duration::from_secs(9) };
        let mut scripted: Vec<(&str, Fixed)> = gen_pairs().into_iter().map(|f| ("pairs", f)).collect();
        scripted.extend(gen_bursts(big).into_iter().map(|f| ("burst", f)));
        rng.shuffle(&mut scripted);
        for (what, f) in scripted {
            if out.oracle_failures >= MAX_FAILURES { break; }
            if Instant::now() > scripted_until { out.count("scripted.time_budget_reached"); break; }
            out.count(&format!("scripted.{}", what));
            if what == "burst" { out.count(&format!("burst.run_of.{}", f.during.len().max(f.setup.len().saturating_sub(2)))); }
            let r = run_life(rng.next(), Some(f));
            log_sq(&mut out, r, &mut idx);
        }
        let n_multi = if big { 6000 } else { 400 };
        let multi_until = Instant::now() + if big { Duration::from_secs(100) } else { Duration::from_secs(8) };
        for _ in 0..n_multi {
            if out.oracle_failures >= MAX_FAILURES || Instant::now() > multi_until { break; }
            idx += 1;
            let c = gen_multi(&mut rng);
            run_multi(&mut out, &c, idx);
        }
        for h in trk {
            if let Ok(r) = h.join() { idx += 1; log_trickle(&mut out, r, idx); }
        }
        for h in sq {
            if let Ok(r) = h.join() { log_sq(&mut out, r, &mut idx); }
        }
        for h in stalls {
            if let Ok(r) = h.join() { out.count("stall.cases"); log_sq(&mut out, r, &mut idx); }
        }
        for h in life {
            if let Ok(r) = h.join() { out.count("life.controls"); log_sq(&mut out, r, &mut idx); }
        }
        if let Ok(r) = wdog.join() {
            for (sig, detail, line) in &r.fails { out.oracle_fail(sig, detail, &[line.clone()]); }
            for (line, obs) in r.lines {
                idx += 1;
                out.count("wd.cases");
                out.case(&line.replace("IDX", &idx.to_string()), &obs.replace("IDX", &idx.to_string()), true);
            }
        }
    }
    out.finish();
}
