//! Family `registry` (C14): the dynamic `Registry` as a JSON tree addressed by RFC 6901 pointers.
//! Usage: fam_registry <seq|conc> --tier T --seed N --out DIR [--replay FILE]
//!
//! Op lines (see lean/RepeVerif/Driver/Registry.lean for the grammar).  `P` words are JSON string
//! literals, `J` words canonical JSON (sorted keys, no white space, `\uXXXX` outside 0x21..0x7e).
//! Sequential ops are executed on the real `Registry` (and through a `Router::with_registry`
//! mount); the direct oracles evaluate the property's own clauses on what the real code did.
//! `conc` ops run 2–4 threads on one real `Registry`; the direct oracle searches for a sequential
//! order of the SAME implementation that gives the observed outcome (linearizability).
use repe::{ErrorCode, Message, Registry, RegistryError, Router, WithContext};
use repe_verif_harness::*;
use serde_json::{json, Map, Value};
use std::collections::{BTreeMap, HashSet};
use std::sync::atomic::{AtomicUsize, Ordering};
use std::sync::{Arc, Mutex};

// ------------------------------------------------------------------------------------------
// canonical text
// ------------------------------------------------------------------------------------------
fn show_str(s: &str, out: &mut String) {
    out.push('"');
    for c in s.chars() {
        let n = c as u32;
        if c == '"' || c == '\\' || n < 0x21 || n > 0x7e {
            let mut buf = [0u16; 2];
            for u in c.encode_utf16(&mut buf) {
                out.push_str(&format!("\\u{:04x}", u));
            }
        } else {
            out.push(c);
        }
    }
    out.push('"');
}

fn render_into(v: &Value, out: &mut String) {
    match v {
        Value::Null => out.push_str("null"),
        Value::Bool(b) => out.push_str(if *b { "true" } else { "false" }),
        Value::Number(n) => out.push_str(&n.to_string()),
        Value::String(s) => show_str(s, out),
        Value::Array(a) => {
            out.push('[');
            for (i, x) in a.iter().enumerate() {
                if i > 0 {
                    out.push(',');
                }
                render_into(x, out);
            }
            out.push(']');
        }
        Value::Object(m) => {
            let mut keys: Vec<&String> = m.keys().collect();
            keys.sort_by(|a, b| a.as_bytes().cmp(b.as_bytes()));
            out.push('{');
            for (i, k) in keys.iter().enumerate() {
                if i > 0 {
                    out.push(',');
                }
                show_str(k, out);
                out.push(':');
                render_into(&m[*k], out);
            }
            out.push('}');
        }
    }
}

fn render(v: &Value) -> String {
    let mut s = String::new();
    render_into(v, &mut s);
    s
}

fn pword(s: &str) -> String {
    let mut o = String::new();
    show_str(s, &mut o);
    o
}

fn unpword(w: &str) -> String {
    serde_json::from_str::<String>(w).unwrap_or_else(|_| panic!("bad P word {w}"))
}

fn unjword(w: &str) -> Value {
    serde_json::from_str::<Value>(w).unwrap_or_else(|_| panic!("bad J word {w}"))
}

// ------------------------------------------------------------------------------------------
// independent RFC 6901 helpers for the oracles (written from the RFC + the crate's documented
// root convention: "" and "/" are the root)
// ------------------------------------------------------------------------------------------
fn o_unescape(tok: &str) -> Option<String> {
    let cs: Vec<char> = tok.chars().collect();
    let mut out = String::new();
    let mut i = 0;
    while i < cs.len() {
        if cs[i] == '~' {
            match cs.get(i + 1) {
                Some('0') => out.push('~'),
                Some('1') => out.push('/'),
                _ => return None,
            }
            i += 2;
        } else {
            out.push(cs[i]);
            i += 1;
        }
    }
    Some(out)
}

fn o_parse(ptr: &str) -> Option<Vec<String>> {
    if ptr.is_empty() || ptr == "/" {
        return Some(vec![]);
    }
    let rest = ptr.strip_prefix('/')?;
    let mut toks = Vec::new();
    let mut cur = String::new();
    for c in rest.chars() {
        if c == '/' {
            toks.push(o_unescape(&cur)?);
            cur.clear();
        } else {
            cur.push(c);
        }
    }
    toks.push(o_unescape(&cur)?);
    Some(toks)
}

fn o_escape(tok: &str) -> String {
    let mut s = String::new();
    for c in tok.chars() {
        match c {
            '~' => s.push_str("~0"),
            '/' => s.push_str("~1"),
            c => s.push(c),
        }
    }
    s
}

fn o_canon(toks: &[String]) -> String {
    if toks.is_empty() {
        return "/".into();
    }
    toks.iter().map(|t| format!("/{}", o_escape(t))).collect()
}

fn o_reg_parse(path: &str) -> Option<Vec<String>> {
    if path.is_empty() {
        Some(vec![])
    } else if path.starts_with('/') {
        o_parse(path)
    } else {
        o_parse(&format!("/{path}"))
    }
}

/// array index as Rust's `usize::from_str` reads it
fn o_index(tok: &str) -> Option<usize> {
    let t = tok.strip_prefix('+').unwrap_or(tok);
    if t.is_empty() || !t.bytes().all(|b| b.is_ascii_digit()) {
        return None;
    }
    if tok == "+" {
        return None;
    }
    let mut v: u128 = 0;
    for b in t.bytes() {
        v = v * 10 + (b - b'0') as u128;
        if v > u64::MAX as u128 {
            return None;
        }
    }
    Some(v as usize)
}

/// Frame condition of a successful non-root write at `toks`: everything off the path is unchanged.
fn frame_ok(before: &Value, after: &Value, toks: &[String]) -> bool {
    if toks.is_empty() {
        return true; // the written location itself
    }
    let t = &toks[0];
    match (before, after) {
        (Value::Object(b), Value::Object(a)) => {
            for (k, v) in b {
                if k != t && a.get(k) != Some(v) {
                    return false;
                }
            }
            for k in a.keys() {
                if k != t && !b.contains_key(k) {
                    return false;
                }
            }
            match (b.get(t), a.get(t)) {
                (Some(bv), Some(av)) => frame_ok(bv, av, &toks[1..]),
                (None, Some(_)) => toks.len() == 1, // only the last token may be created
                _ => false,
            }
        }
        (Value::Array(b), Value::Array(a)) => {
            let Some(i) = o_index(t) else { return false };
            if a.len() != b.len() || i >= b.len() {
                return false;
            }
            for j in 0..b.len() {
                if j != i && a[j] != b[j] {
                    return false;
                }
            }
            frame_ok(&b[i], &a[i], &toks[1..])
        }
        _ => false,
    }
}

/// the node the (already unescaped) tokens address: object key, or array index as `usize::from_str` reads it
fn o_at<'a>(v: &'a Value, toks: &[String]) -> Option<&'a Value> {
    let mut cur = v;
    for t in toks {
        cur = match cur {
            Value::Object(m) => m.get(t)?,
            Value::Array(a) => a.get(o_index(t)?)?,
            _ => return None,
        };
    }
    Some(cur)
}

/// What a plain JSON document answers for a read at these tokens: the node, or the class of the first
/// step that cannot be taken (missing key / not a container: PathNotFound; array: the index must read as a
/// usize and be in range).
fn o_resolve<'a>(v: &'a Value, toks: &[String]) -> Result<&'a Value, &'static str> {
    let mut cur = v;
    for t in toks {
        cur = match cur {
            Value::Object(m) => m.get(t).ok_or("PathNotFound")?,
            Value::Array(a) => a.get(o_index(t).ok_or("InvalidArrayIndex")?).ok_or("ArrayIndexOutOfBounds")?,
            _ => return Err("PathNotFound"),
        };
    }
    Ok(cur)
}

/// Class of the answer to a write at (non-empty) `toks`: the parent must exist; an object takes any key, an
/// array only an existing slot.
fn o_write_class(v: &Value, toks: &[String]) -> Result<(), &'static str> {
    let (last, parent) = toks.split_last().expect("non-root");
    match o_resolve(v, parent)? {
        Value::Object(_) => Ok(()),
        Value::Array(a) => {
            if o_index(last).ok_or("InvalidArrayIndex")? < a.len() { Ok(()) } else { Err("ArrayIndexOutOfBounds") }
        }
        _ => Err("PathNotFound"),
    }
}

fn class_of(r: &RRes) -> Result<(), &str> {
    match r {
        Ok(_) => Ok(()),
        Err((v, _)) => Err(v.as_str()),
    }
}

fn o_normalize_prefix(p: &str) -> String {
    let mut n = if p.is_empty() || p == "/" {
        String::new()
    } else if p.starts_with('/') {
        p.to_string()
    } else {
        format!("/{p}")
    };
    if n.len() > 1 {
        while n.ends_with('/') {
            n.pop();
        }
    }
    n
}

/// `None` = no mounted prefix covers the path; `Some(ptr)` = the pointer below the first covering prefix
fn o_strip(prefixes: &[String], path: &str) -> Option<String> {
    for p in prefixes {
        let n = o_normalize_prefix(p);
        if n.is_empty() {
            return Some(if path.is_empty() { "/".into() } else { path.to_string() });
        }
        if path == n {
            return Some("/".into());
        }
        if let Some(rest) = path.strip_prefix(&n) {
            if rest.starts_with('/') {
                return Some(rest.to_string());
            }
        }
    }
    None
}

/// the mounted prefix (as given) that `Router::get` must select for `lookup`: the first, in registration order,
/// whose normalised form is empty, equals the path, or is followed by '/' in it
fn o_choose(prefixes: &[String], lookup: &str) -> Option<String> {
    prefixes.iter().find(|p| o_strip(std::slice::from_ref(*p), lookup).is_some()).cloned()
}

fn pass_through<'a>(req: &'a Message, next: repe::Next<'a>) -> Result<Message, repe::RepeError> {
    next.run(req)
}

// ------------------------------------------------------------------------------------------
// the system under test + bookkeeping
// ------------------------------------------------------------------------------------------
/// armed only while an API call of the registry under test runs (not during the harness's own teardown)
static BOMBS_ARMED: std::sync::atomic::AtomicBool = std::sync::atomic::AtomicBool::new(false);
struct ArmOnUnwind(Arc<std::sync::atomic::AtomicBool>, bool);
impl Drop for ArmOnUnwind {
    fn drop(&mut self) {
        if self.1 && std::thread::panicking() {
            self.0.store(true, Ordering::SeqCst);
        }
    }
}

/// live only once its registration succeeded (a callable dropped by a REFUSED registration is silent)
struct DropBomb(Arc<std::sync::atomic::AtomicBool>);
impl Drop for DropBomb {
    fn drop(&mut self) {
        if self.0.load(Ordering::SeqCst) && BOMBS_ARMED.load(Ordering::SeqCst) && !std::thread::panicking() {
            panic!("callable dropped inside a registry call");
        }
    }
}

type Log = Arc<Mutex<Vec<(u64, Value)>>>;
/// calls a re-entrant callable made into the registry: (pointer, value, result of the nested register_value)
type Nested = Arc<Mutex<Vec<(String, Value, RRes)>>>;

#[derive(Clone, Debug, PartialEq)]
enum OpR {
    SetRoot(Value),
    RegV(String, Value),
    RegF(String, u64, Option<u32>),
    MergeRoot(Value),
    MergeAt(String, Value),
    Read(String),
    Disp(String, Option<Value>),
}

impl OpR {
    fn words(&self) -> String {
        match self {
            OpR::SetRoot(v) => format!("setroot {}", render(v)),
            OpR::RegV(p, v) => format!("regv {} {}", pword(p), render(v)),
            OpR::RegF(p, t, f) => format!("regf {} {} {}", pword(p), t, f.map(|c| c.to_string()).unwrap_or("-".into())),
            OpR::MergeRoot(v) => format!("mergeroot {}", render(v)),
            OpR::MergeAt(p, v) => format!("mergeat {} {}", pword(p), render(v)),
            OpR::Read(p) => format!("read {}", pword(p)),
            OpR::Disp(p, b) => format!("disp {} {}", pword(p), b.as_ref().map(render).unwrap_or("-".into())),
        }
    }
    /// parse `name args…`, returning the op and the number of words consumed
    fn parse(w: &[&str]) -> Option<(OpR, usize)> {
        Some(match *w.first()? {
            "setroot" => (OpR::SetRoot(unjword(w.get(1)?)), 2),
            "regv" => (OpR::RegV(unpword(w.get(1)?), unjword(w.get(2)?)), 3),
            "regf" => {
                let f = if *w.get(3)? == "-" { None } else { Some(w[3].parse().ok()?) };
                (OpR::RegF(unpword(w.get(1)?), w.get(2)?.parse().ok()?, f), 4)
            }
            "mergeroot" => (OpR::MergeRoot(unjword(w.get(1)?)), 2),
            "mergeat" => (OpR::MergeAt(unpword(w.get(1)?), unjword(w.get(2)?)), 3),
            "read" => (OpR::Read(unpword(w.get(1)?)), 2),
            "disp" => {
                let b = if *w.get(2)? == "-" { None } else { Some(unjword(w[2])) };
                (OpR::Disp(unpword(w.get(1)?), b), 3)
            }
            _ => return None,
        })
    }
}

fn variant(e: &RegistryError) -> &'static str {
    match e {
        RegistryError::InvalidPointer { .. } => "InvalidPointer",
        RegistryError::PathNotFound { .. } => "PathNotFound",
        RegistryError::InvalidArrayIndex { .. } => "InvalidArrayIndex",
        RegistryError::ArrayIndexOutOfBounds { .. } => "ArrayIndexOutOfBounds",
        RegistryError::RootWriteRequiresObject => "RootWriteRequiresObject",
        RegistryError::UnsupportedBodyFormat { .. } => "UnsupportedBodyFormat",
        RegistryError::InvalidUtf8(_) => "InvalidUtf8",
        RegistryError::Json(_) => "Json",
        RegistryError::Beve(_) => "Beve",
        RegistryError::Execution { .. } => "Execution",
    }
}

type RRes = Result<Value, (String, u32)>;

fn rres(r: Result<Value, RegistryError>) -> RRes {
    r.map_err(|e| (variant(&e).to_string(), e.code() as u32))
}

fn show_rres(r: &RRes) -> String {
    match r {
        // the property does not say what a request answers when the callable panics: one neutral class
        Err((n, _)) if n == "Panic" => "unspecified".to_string(),
        Err((n, c)) if n == "Execution" && (1_000_001..=1_000_003).contains(c) => "unspecified".to_string(),
        Ok(v) => format!("ok {}", render(v)),
        Err((n, c)) => format!("err {} {}", n, c),
    }
}

fn res_word(r: &RRes) -> String {
    match r {
        Err((n, _)) if n == "Panic" => "unspecified".to_string(),
        Ok(v) => format!("ok:{}", render(v)),
        Err((n, c)) => format!("err:{}:{}", n, c),
    }
}

/// Everything needed to rebuild an equivalent registry: tree, successful function registrations
/// in order, call log.
#[derive(Clone, Default)]
struct Snapshot {
    root: Value,
    regfs: Vec<(String, u64, Option<u32>)>,
    log: Vec<(u64, Value)>,
}

struct Sys {
    reg: Arc<Registry>,
    log: Log,
    nested: Nested,
    /// use the OTHER of two twin entry points (`dispatch` / `dispatch_with_ctx`) than the op line fixes
    flip: bool,
    /// successful `regf` ops: (path as given, tag, fail)
    regfs: Vec<(String, u64, Option<u32>)>,
    /// oracle bookkeeping: canonical keys registered, by the independent helpers
    okeys: BTreeMap<String, u64>,
}

impl Sys {
    fn new() -> Sys {
        Sys { reg: Arc::new(Registry::new()), log: Arc::new(Mutex::new(Vec::new())), nested: Arc::new(Mutex::new(Vec::new())), flip: false, regfs: vec![], okeys: BTreeMap::new() }
    }
    fn from_snapshot(s: &Snapshot) -> Sys {
        let mut sys = Sys::new();
        for (p, t, f) in &s.regfs {
            let _ = sys.apply(&OpR::RegF(p.clone(), *t, *f));
        }
        sys.reg.set_root(s.root.clone());
        *sys.log.lock().unwrap() = s.log.clone();
        sys
    }
    fn snapshot(&self) -> Snapshot {
        Snapshot { root: self.root(), regfs: self.regfs.clone(), log: self.log.lock().unwrap().clone() }
    }
    fn root(&self) -> Value {
        self.reg.read_value("").expect("root read")
    }
    fn log_len(&self) -> usize {
        self.log.lock().unwrap().len()
    }
    /// What the callable registered with (`tag`, `fail`) does.  `fail`: None = echo; 4/9/4096 = `Err((code, _))`;
    /// 1000001/2/3 = panic with a `String` / `&'static str` / non-string payload; 2000000 = slow (sleeps) then echo;
    /// 3000000 = calls back into the SAME registry (a write, then a read) then echo.  The special behaviours only
    /// run for a non-null body, so the harness's own probe calls (null body) have no side effects.
    fn callable_body(reg: &std::sync::Weak<Registry>, log: &Log, nested: &Nested, tag: u64, fail: Option<u32>, params: Option<Value>) -> Result<Value, (ErrorCode, String)> {
        let body = params.unwrap_or(Value::Null);
        log.lock().unwrap().push((tag, body.clone()));
        let echo = json!({"called": tag, "body": body});
        match fail {
            None => Ok(echo),
            Some(c) if c < 1_000_000 => Err((ErrorCode::try_from(c).unwrap_or(ErrorCode::ApplicationErrorBase), "callable failed".to_string())),
            Some(_) if body.is_null() => Ok(echo),
            Some(1_000_001) => panic!("{}", format!("callable {tag} panics")),
            Some(1_000_002) => panic!("callable panics"),
            Some(1_000_003) => std::panic::panic_any(7u32),
            Some(4_000_000) => Ok(echo),
            Some(2_000_000) => {
                std::thread::sleep(std::time::Duration::from_micros(40));
                Ok(echo)
            }
            Some(_) => {
                if let Some(reg) = reg.upgrade() {
                    let ptr = format!("/re~1entered/{tag}");
                    let r = rres(reg.register_value(&ptr, body.clone()).map(|_| Value::Null));
                    let _ = reg.dispatch("/re~1entered", None);
                    nested.lock().unwrap().push((ptr, body.clone(), r));
                }
                Ok(echo)
            }
        }
    }
    fn register_fn(reg: &Arc<Registry>, log: &Log, nested: &Nested, path: &str, tag: u64, fail: Option<u32>) -> Result<(), RegistryError> {
        let (log, nested, weak) = (Arc::clone(log), Arc::clone(nested), Arc::downgrade(reg));
        // kind 4000000: the callable owns a value whose `Drop` panics when the registry lets go of it during an API
        // call (i.e. when the registration is replaced: the old callable is dropped inside `register_function`)
        let live = Arc::new(std::sync::atomic::AtomicBool::new(false));
        let bomb = DropBomb(Arc::clone(&live));
        // if the call unwinds (the REPLACED callable's Drop panicked) the new registration has taken effect all the same
        let _arm = ArmOnUnwind(Arc::clone(&live), fail == Some(4_000_000));
        let r = match tag % 3 {
            // the three registration forms: plain closure, context-taking callable, pre-built Arc
            2 => reg.register_function_arc(path, Arc::new(WithContext(move |_ctx: &repe::CallContext, params: Option<Value>| { let _b = &bomb; Self::callable_body(&weak, &log, &nested, tag, fail, params) }))),
            1 => reg.register_function(path, WithContext(move |_ctx: &repe::CallContext, params: Option<Value>| { let _b = &bomb; Self::callable_body(&weak, &log, &nested, tag, fail, params) })),
            _ => reg.register_function(path, move |params: Option<Value>| { let _b = &bomb; Self::callable_body(&weak, &log, &nested, tag, fail, params) }),
        };
        if r.is_ok() && fail == Some(4_000_000) {
            live.store(true, Ordering::SeqCst);
        }
        r
    }
    /// Execute one API op on the real registry (no oracle).
    fn apply(&mut self, op: &OpR) -> RRes {
        let r = Self::apply_shared(&self.reg, &self.log, &self.nested, self.flip, op);
        let took_effect = r.is_ok() || matches!(&r, Err((n, _)) if n == "Panic");
        if let (OpR::RegF(p, t, f), true) = (op, took_effect) {
            self.regfs.push((p.clone(), *t, *f));
            if let Some(toks) = o_reg_parse(p) {
                self.okeys.insert(o_canon(&toks), *t);
            }
        }
        r
    }
    fn apply_shared(reg: &Arc<Registry>, log: &Log, nested: &Nested, flip: bool, op: &OpR) -> RRes {
        // a panicking callable unwinds through `dispatch`: caught here, reported as its own class
        BOMBS_ARMED.store(true, Ordering::SeqCst);
        let r = catch(|| Self::apply_inner(reg, log, nested, flip, op));
        BOMBS_ARMED.store(false, Ordering::SeqCst);
        match r {
            Ok(r) => r,
            Err(_) => Err(("Panic".to_string(), 0)),
        }
    }
    fn apply_inner(reg: &Arc<Registry>, log: &Log, nested: &Nested, flip: bool, op: &OpR) -> RRes {
        let unit = |r: Result<(), RegistryError>| rres(r.map(|_| Value::Null));
        match op {
            OpR::SetRoot(v) => {
                reg.set_root(v.clone());
                Ok(Value::Null)
            }
            OpR::RegV(p, v) => unit(reg.register_value(p, v.clone())),
            OpR::RegF(p, t, f) => unit(Self::register_fn(reg, log, nested, p, *t, *f)),
            OpR::MergeRoot(v) => unit(reg.merge_root(v.as_object().cloned().unwrap_or_default())),
            OpR::MergeAt(p, v) => unit(reg.merge_at(p, v.as_object().cloned().unwrap_or_default())),
            OpR::Read(p) => rres(reg.read_value(p)),
            OpR::Disp(p, b) => {
                // the two public spellings of the same call: `dispatch` and `dispatch_with_ctx` with a context whose
                // `method()` is NOT the pointer (a router that stripped a prefix); which one is fixed by the op itself
                if ((p.len() + b.is_some() as usize) % 2 == 0) != flip {
                    rres(reg.dispatch(p, b.clone()))
                } else {
                    rres(reg.dispatch_with_ctx(p, b.clone(), &repe::CallContext::detached("/some/other/method")))
                }
            }
        }
    }
    /// Observed function table {canonical key: tag | [tag, fail]}: every successfully registered path
    /// is probed through the public API (metadata read for the key, one probe call for the tag).
    fn funcs(&self) -> Value {
        let mut m = Map::new();
        for (p, _, _) in &self.regfs {
            let probe = if p.starts_with('/') { p.clone() } else { format!("/{p}") };
            let Ok(info) = self.reg.dispatch(&probe, None) else { continue };
            if info.get("type") != Some(&json!("function")) {
                continue;
            }
            let Some(key) = info.get("path").and_then(|x| x.as_str()) else { continue };
            if m.contains_key(key) {
                continue;
            }
            let before = self.log_len();
            let _ = self.reg.dispatch(&probe, Some(Value::Null));
            let mut log = self.log.lock().unwrap();
            if log.len() == before + 1 {
                let (tag, _) = log.pop().unwrap();
                let fail = self.regfs.iter().rev().find(|(_, t, _)| *t == tag).and_then(|(_, _, f)| *f);
                m.insert(key.to_string(), match fail { None => json!(tag), Some(c) => json!([tag, c]) });
            } else {
                log.truncate(before);
                m.insert(key.to_string(), json!("not-called"));
            }
        }
        Value::Object(m)
    }
    fn log_value(&self, sorted: bool) -> String {
        let mut xs: Vec<String> = self.log.lock().unwrap().iter().map(|(t, b)| render(&json!([t, b]))).collect();
        if sorted {
            xs.sort();
        }
        format!("[{}]", xs.join(","))
    }
    fn dump(&self, sorted: bool) -> String {
        format!("{} {} {}", render(&self.root()), render(&self.funcs()), self.log_value(sorted))
    }
}

/// `name args…` -> `name 0 args…` (an executable op line for replays)
fn op_line(op: &OpR) -> String {
    let w = op.words();
    match w.split_once(' ') {
        Some((a, b)) => format!("{a} 0 {b}"),
        None => format!("{w} 0"),
    }
}

fn obs(sys: &Sys, r: &RRes) -> String {
    format!("{} c{}", show_rres(r), sys.log_len())
}

// ------------------------------------------------------------------------------------------
// sequential execution with the direct oracles
// ------------------------------------------------------------------------------------------
struct Ctx {
    sys: Sys,
    prefixes: Vec<String>,
    router: Option<Router>,
    /// op lines since the last reset (the replay of an oracle failure)
    trail: Vec<String>,
    /// derived (line, observation) pairs to emit after the current op
    pending_lines: Vec<(String, String)>,
    /// connection to a real `Server` serving the current registry (started by the first `wire` op of a sequence)
    wire: Option<std::net::TcpStream>,
}

fn is_write_ok(v: &Value) -> bool {
    v.get("status") == Some(&json!("ok")) && v.get("path").is_some() && v.as_object().map(|m| m.len()) == Some(2)
}

/// Apply one API op and evaluate the property's clauses on what happened.
fn apply_checked(out: &mut Out, sys: &mut Sys, op: &OpR, trail: &[String], check: bool) -> RRes {
    if !check {
        return sys.apply(op);
    }
    let before = sys.snapshot();
    let r = sys.apply(op);
    let after_root = sys.root();
    let after_log = sys.log.lock().unwrap().clone();
    let fail = |out: &mut Out, sig: &str, detail: String| out.oracle_fail(sig, &detail, trail);
    match op {
        OpR::Read(p) | OpR::Disp(p, None) => {
            if after_root != before.root || after_log != before.log {
                fail(out, "registry.read.mutated", format!("a request with an empty body changed the registry: {}", op.words()));
            }
            match o_parse(p) {
                None => match &r {
                    Err((v, c)) if v == "InvalidPointer" && *c == ErrorCode::MethodNotFound as u32 => out.count("oracle.malformed_rejected"),
                    other => fail(out, "registry.malformed.not_rejected", format!("malformed pointer {} gave {}", pword(p), show_rres(other))),
                },
                Some(toks) => {
                    let key = o_canon(&toks);
                    if matches!(op, OpR::Disp(..)) && sys.okeys.contains_key(&key) {
                        // a metadata read of a callable names it by its escape-normalised pointer
                        out.count("oracle.function_info");
                        if r.as_ref().ok() != Some(&json!({"type": "function", "path": key})) {
                            fail(out, "registry.read.function_info", format!("read of callable {} gave {}", pword(p), show_rres(&r)));
                        }
                    } else {
                        // … anything else reads what a plain JSON document holds there
                        out.count("oracle.read_vs_document");
                        let want = o_resolve(&before.root, &toks);
                        let same = match (&want, &r) {
                            (Ok(w), Ok(g)) => *w == g,
                            (Err(w), Err((g, c))) => w == g && *c == 6,
                            _ => false,
                        };
                        if !same {
                            fail(out, "registry.read.differs", format!("{} on {} gave {}, the document answers {:?}", op.words(), render(&before.root), show_rres(&r), want.map(render)));
                        }
                    }
                }
            }
        }
        OpR::Disp(p, Some(body)) => {
            let toks = o_parse(p);
            let callable = toks.as_ref().and_then(|t| sys.okeys.get(&o_canon(t)).copied());
            match (&toks, callable) {
                (None, _) => {
                    if !matches!(&r, Err((v, c)) if v == "InvalidPointer" && *c == 6) {
                        fail(out, "registry.malformed.not_rejected", format!("malformed pointer {} gave {}", pword(p), show_rres(&r)));
                    }
                    if after_root != before.root || after_log != before.log {
                        fail(out, "registry.malformed.mutated", format!("malformed pointer {} mutated", pword(p)));
                    }
                }
                (Some(_), Some(tag)) => {
                    // a callable: invoked exactly once with the supplied body, tree untouched
                    let mut want = before.log.clone();
                    want.push((tag, body.clone()));
                    if after_log != want {
                        fail(out, "registry.call.count", format!("callable {} not invoked exactly once with the body: log {:?} -> {:?}", pword(p), before.log.len(), after_log.len()));
                    } else {
                        out.count("oracle.call_once");
                    }
                    if after_root != before.root && sys.nested.lock().unwrap().is_empty() {
                        fail(out, "registry.call.mutated", format!("a call to {} changed the tree", pword(p)));
                    }
                }
                (Some(toks), None) => {
                    if !toks.is_empty() && o_write_class(&before.root, toks) != class_of(&r) {
                        fail(out, "registry.write.differs", format!("{} on {} gave {}, a plain document answers {:?}", op.words(), render(&before.root), show_rres(&r), o_write_class(&before.root, toks)));
                    }
                    if after_log != before.log {
                        fail(out, "registry.call.spurious", format!("a write to non-callable {} invoked a callable", pword(p)));
                    }
                    match &r {
                        Ok(v) if is_write_ok(v) && !toks.is_empty() => {
                            out.count("oracle.read_after_write");
                            let back = sys.reg.dispatch(p, None);
                            let back2 = sys.reg.read_value(p);
                            if back.as_ref().ok() != Some(body) || back2.as_ref().ok() != Some(body) {
                                fail(out, "registry.read_after_write", format!("wrote {} at {}, read back {}", render(body), pword(p), show_rres(&rres(back))));
                            }
                            if o_at(&after_root, toks) != Some(body) {
                                fail(out, "registry.write.location", format!("wrote {} at {} but the document has {:?} at the location RFC 6901 gives that pointer: {}", render(body), pword(p), o_at(&after_root, toks).map(render), render(&after_root)));
                            }
                            if v.get("path") != Some(&json!(o_canon(toks))) {
                                fail(out, "registry.write.path", format!("write at {} reported path {}", pword(p), render(v)));
                            }
                            if !frame_ok(&before.root, &after_root, toks) {
                                fail(out, "registry.frame", format!("write at {} changed something off its path: {} -> {}", pword(p), render(&before.root), render(&after_root)));
                            }
                        }
                        Ok(v) if is_write_ok(v) => {
                            // root write: merges the object's keys
                            out.count("oracle.root_merge");
                            let ok = match (body, &after_root) {
                                (Value::Object(b), Value::Object(a)) => {
                                    let empty = Map::new();
                                    let old = before.root.as_object().unwrap_or(&empty);
                                    b.iter().all(|(k, v)| a.get(k) == Some(v))
                                        && old.iter().all(|(k, v)| b.contains_key(k) || a.get(k) == Some(v))
                                        && a.keys().all(|k| b.contains_key(k) || old.contains_key(k))
                                }
                                _ => false,
                            };
                            if !ok {
                                fail(out, "registry.rootwrite.merge", format!("root write of {} on {} gave {}", render(body), render(&before.root), render(&after_root)));
                            }
                        }
                        Ok(v) => fail(out, "registry.write.result", format!("write at {} returned {}", pword(p), render(v))),
                        Err(_) => {
                            if after_root != before.root {
                                fail(out, "registry.write.failed_mutated", format!("failed write at {} changed the tree", pword(p)));
                            }
                        }
                    }
                }
            }
        }
        OpR::SetRoot(v) => {
            if &after_root != v || after_log != before.log {
                fail(out, "registry.set_root", format!("set_root({}) left {}", render(v), render(&after_root)));
            }
        }
        OpR::RegV(p, v) => {
            if after_log != before.log {
                fail(out, "registry.register.called", format!("{} invoked a callable", op.words()));
            }
            match (&r, o_reg_parse(p)) {
                (Ok(_), Some(toks)) => {
                    out.count("oracle.register_value_readback");
                    if o_at(&after_root, &toks) != Some(v) {
                        fail(out, "registry.register_value.readback", format!("{} then the tree has {:?} there", op.words(), o_at(&after_root, &toks).map(render)));
                    }
                }
                (Ok(_), None) => fail(out, "registry.malformed.not_rejected", format!("{} accepted a malformed path", op.words())),
                (Err(_), toks) => {
                    if toks.is_some() {
                        fail(out, "registry.register_value.refused", format!("{} with a well-formed path gave {}", op.words(), show_rres(&r)));
                    }
                    if after_root != before.root {
                        fail(out, "registry.register.failed_mutated", format!("failed {} changed the tree", op.words()));
                    }
                }
            }
        }
        OpR::RegF(p, _, _) => {
            if after_log != before.log {
                fail(out, "registry.register.called", format!("{} invoked a callable", op.words()));
            }
            match (&r, o_reg_parse(p)) {
                (Ok(_), Some(toks)) if !toks.is_empty() => {
                    // every proper ancestor is an object afterwards; values off the path are untouched
                    let mut ok = after_root.is_object();
                    for i in 1..toks.len() {
                        ok &= o_at(&after_root, &toks[..i]).map_or(false, |x| x.is_object());
                    }
                    if !ok {
                        fail(out, "registry.register_function.parents", format!("{} left {}", op.words(), render(&after_root)));
                    }
                    let key = o_canon(&toks);
                    let info = rres(sys.reg.dispatch(&key, None));
                    if info.as_ref().ok() != Some(&json!({"type": "function", "path": key})) {
                        fail(out, "registry.read.function_info", format!("after {} a read of {} gave {}", op.words(), pword(&key), show_rres(&info)));
                    }
                }
                (Err((n, _)), Some(_)) if n == "Panic" => out.count("regf.replaced_callable_drop_panicked"),
                (Err(_), Some(toks)) if !toks.is_empty() => {
                    fail(out, "registry.register_function.refused", format!("{} with a well-formed non-root path gave {}", op.words(), show_rres(&r)));
                }
                (Ok(_), _) => fail(out, "registry.malformed.not_rejected", format!("{} accepted a root or malformed path", op.words())),
                (Err(_), _) => {
                    if after_root != before.root {
                        fail(out, "registry.register.failed_mutated", format!("failed {} changed the tree", op.words()));
                    }
                }
            }
        }
        OpR::MergeRoot(o) | OpR::MergeAt(_, o) => {
            let toks = match op {
                OpR::MergeAt(p, _) => o_reg_parse(p),
                _ => Some(vec![]),
            };
            if after_log != before.log {
                fail(out, "registry.merge.called", format!("{} invoked a callable", op.words()));
            }
            match (&r, toks) {
                (Ok(_), Some(toks)) => {
                    out.count("oracle.merge");
                    let empty = Map::new();
                    let src = o.as_object().unwrap_or(&empty);
                    // the target existed as an object (the root is coerced to {}), gets the fields, keeps the rest;
                    // nothing off the path changes
                    let old = if toks.is_empty() {
                        Some(before.root.as_object().cloned().unwrap_or_default())
                    } else {
                        o_at(&before.root, &toks).and_then(|x| x.as_object().cloned())
                    };
                    let ok = match (old, o_at(&after_root, &toks).and_then(|x| x.as_object())) {
                        (Some(old), Some(new)) => {
                            src.iter().all(|(k, v)| new.get(k) == Some(v))
                                && old.iter().all(|(k, v)| src.contains_key(k) || new.get(k) == Some(v))
                                && new.keys().all(|k| src.contains_key(k) || old.contains_key(k))
                                && (toks.is_empty() || frame_ok(&before.root, &after_root, &toks))
                        }
                        _ => false,
                    };
                    if !ok {
                        fail(out, "registry.merge", format!("{} on {} gave {}", op.words(), render(&before.root), render(&after_root)));
                    }
                }
                (Ok(_), None) => fail(out, "registry.malformed.not_rejected", format!("{} accepted a malformed path", op.words())),
                (Err((got, _)), toks) => {
                    let want = match &toks {
                        Some(t) if t.is_empty() => Ok(()),
                        Some(t) => match o_resolve(&before.root, t) {
                            Ok(Value::Object(_)) => Ok(()),
                            Ok(_) => Err("PathNotFound"),
                            Err(e) => Err(e),
                        },
                        None => Err("InvalidPointer"),
                    };
                    if want != Err(got.as_str()) {
                        fail(out, "registry.merge.differs", format!("{} on {} gave {}, a plain document answers {:?}", op.words(), render(&before.root), show_rres(&r), want));
                    }
                    if after_root != before.root {
                        fail(out, "registry.merge.failed_mutated", format!("failed {} changed the tree", op.words()));
                    }
                }
            }
        }
    }
    r
}

/// What the dependencies' decoders (serde_json, beve, `str::from_utf8`) make of the bytes under this format
/// code: `Some(value)` or `None` (decoder error).  Formats without an opaque decoder give `None` (not consulted).
fn dep_decode(fmt: u16, bytes: &[u8]) -> Option<Value> {
    match fmt {
        2 => serde_json::from_slice::<Value>(bytes).ok(),
        1 => beve::from_slice::<Value>(bytes).ok(),
        3 => std::str::from_utf8(bytes).ok().map(|s| Value::String(s.to_string())),
        _ => None,
    }
}

/// The oracle's own reading of "what value does this request carry": no body when empty; the decoded value;
/// raw bytes as an array of numbers; `Err(())` = not a valid body (must be answered InvalidBody).
fn o_body(fmt: u16, bytes: &[u8]) -> Result<Option<Value>, ()> {
    if bytes.is_empty() {
        return Ok(None);
    }
    match fmt {
        0 => Ok(Some(Value::Array(bytes.iter().map(|b| json!(*b)).collect()))),
        1 | 2 | 3 => dep_decode(fmt, bytes).map(Some).ok_or(()),
        _ => Err(()),
    }
}

/// JSON text → `Value` without serde_json's 128-level recursion limit (responses may be thousands of levels deep);
/// scalars and string literals are handed to serde_json.
fn parse_json_deep(b: &[u8]) -> Option<Value> {
    fn ws(b: &[u8], i: &mut usize) {
        while *i < b.len() && matches!(b[*i], b' ' | b'\n' | b'\r' | b'\t') {
            *i += 1;
        }
    }
    fn string(b: &[u8], i: &mut usize) -> Option<String> {
        let start = *i;
        *i += 1;
        while *i < b.len() && b[*i] != b'"' {
            *i += if b[*i] == b'\\' { 2 } else { 1 };
        }
        *i += 1;
        serde_json::from_slice::<String>(b.get(start..*i)?).ok()
    }
    fn value(b: &[u8], i: &mut usize) -> Option<Value> {
        ws(b, i);
        match *b.get(*i)? {
            b'{' => {
                *i += 1;
                let mut m = Map::new();
                ws(b, i);
                if b.get(*i) == Some(&b'}') {
                    *i += 1;
                    return Some(Value::Object(m));
                }
                loop {
                    ws(b, i);
                    let k = string(b, i)?;
                    ws(b, i);
                    if b.get(*i) != Some(&b':') { return None; }
                    *i += 1;
                    let v = value(b, i)?;
                    m.insert(k, v);
                    ws(b, i);
                    match b.get(*i)? {
                        b',' => *i += 1,
                        b'}' => { *i += 1; return Some(Value::Object(m)); }
                        _ => return None,
                    }
                }
            }
            b'[' => {
                *i += 1;
                let mut a = Vec::new();
                ws(b, i);
                if b.get(*i) == Some(&b']') {
                    *i += 1;
                    return Some(Value::Array(a));
                }
                loop {
                    a.push(value(b, i)?);
                    ws(b, i);
                    match b.get(*i)? {
                        b',' => *i += 1,
                        b']' => { *i += 1; return Some(Value::Array(a)); }
                        _ => return None,
                    }
                }
            }
            b'"' => string(b, i).map(Value::String),
            _ => {
                let start = *i;
                while *i < b.len() && !matches!(b[*i], b',' | b'}' | b']' | b' ' | b'\n') {
                    *i += 1;
                }
                serde_json::from_slice::<Value>(&b[start..*i]).ok()
            }
        }
    }
    let mut i = 0;
    let v = value(b, &mut i)?;
    ws(b, &mut i);
    if i == b.len() { Some(v) } else { None }
}

/// One request through the router mount.  `lookup` selects the handler (`Router::get`); the message carries
/// `query` (normally the same text; `None` = bytes that are not UTF-8), the header fields of `hdr`
/// (`id:notify:query_format`, all ignored by the handler) and the body; `via` picks the handler entry point.
fn mount_request(ctx: &mut Ctx, lookup: &str, query: Option<&str>, via: u8, hdr: &str, fmt: u16, bytes: &[u8]) -> Option<Result<Value, u32>> {
    let router = ctx.router.as_ref().expect("router configured");
    let handler = router.get(lookup)?;
    let h: Vec<u64> = hdr.split(':').map(|x| x.parse().expect("header field")).collect();
    let qbytes: Vec<u8> = match query {
        Some(q) => q.as_bytes().to_vec(),
        None => vec![0x2f, 0xff, 0xfe],
    };
    let mut req = Message::builder()
        .id(h[0])
        .query_bytes(qbytes)
        .query_format_code(h[2] as u16)
        .body_bytes(bytes.to_vec())
        .body_format_code(fmt)
        .build();
    req.header.notify = h[1] as u8;
    let cx = repe::CallContext::detached(lookup);
    // a panicking callable unwinds through the handler: caught, reported as the neutral class (code u32::MAX)
    let resp = match catch(|| match via {
        0 => handler.handle(&req),
        1 => handler.handle_with_ctx(&req, &cx),
        _ => {
            let wire = req.to_vec();
            let view = repe::MessageView::from_slice(&wire).expect("view of a built message");
            handler.handle_view(&view, &cx)
        }
    }) {
        Ok(r) => r.expect("registry handler returns a message"),
        Err(_) => return Some(Err(u32::MAX)),
    };
    // a success carries a JSON body; an error response (UTF-8 text) may carry ANY code the callable chose, 0 included
    Some(if resp.header.ec == 0 && resp.header.body_format == 2 {
        Ok(parse_json_deep(&resp.body).expect("json response body"))
    } else {
        Err(resp.header.ec)
    })
}

/// Execute one sequential op line; returns (observation, nontrivial).
fn exec_seq(out: &mut Out, ctx: &mut Ctx, line: &str) -> Option<(String, bool)> {
    let w = words(line);
    let idx = w.get(1).copied().unwrap_or("?");
    match w[0] {
        "reset" => {
            ctx.sys = Sys::new();
            ctx.trail.clear();
            ctx.trail.push(line.to_string());
            ctx.router = None;
            ctx.wire = None;
            None
        }
        "router" => {
            ctx.trail.push(line.to_string());
            // router i <mw|bare> <with|reg> P…: pass-through middleware or none; builder or in-place registrar
            ctx.prefixes = w[4..].iter().map(|p| unpword(p)).collect();
            let mut r = Router::new();
            if w[2] == "mw" {
                r = r.with_middleware(pass_through);
            }
            for p in &ctx.prefixes {
                if w[3] == "with" {
                    r = r.with_registry(p, Arc::clone(&ctx.sys.reg));
                } else {
                    let _ = r.register_registry(p, Arc::clone(&ctx.sys.reg));
                }
            }
            ctx.router = Some(r);
            None
        }
        "dump" => Some((format!("{} dump {}", idx, ctx.sys.dump(false)), false)),
        "req" => {
            // req i <path P> <format code> <body hex|-> <what the dependency decoder gives: J | ! | ->
            ctx.trail.push(line.to_string());
            let lookup = unpword(w[2]);
            let query: Option<String> = match w[3] {
                "=" => Some(lookup.clone()),
                "!" => None,
                q => Some(unpword(q)),
            };
            let via: u8 = w[4].parse().expect("via");
            let fmt: u16 = w[6].parse().expect("format code");
            let bytes = unhex(w[7]).expect("body hex");
            let body = o_body(fmt, &bytes);
            {
                // the public `Registry::decode_body` on the same bytes: no body / the value / InvalidBody
                let m = Message::builder().body_bytes(bytes.clone()).body_format_code(fmt).build();
                let got = Registry::decode_body(&m).map_err(|e| e.code() as u32);
                if got != body.clone().map_err(|_| 4u32) {
                    out.oracle_fail("registry.decode_body", &format!("decode_body(format {}, {} bytes) = {:?}, expected {:?}", fmt, bytes.len(), got, body), &[line.to_string()]);
                }
            }
            let before = ctx.sys.snapshot();
            let r = mount_request(ctx, &lookup, query.as_deref(), via, w[5], fmt, &bytes);
            out.count(&format!("req.via{}", via));
            // what the handler sees as the path: the message's query, "" when it is not UTF-8
            let path = query.clone().unwrap_or_default();
            // independent routing expectation: the mount is chosen by the lookup path, the pointer by the query
            let chosen = o_choose(&ctx.prefixes, &lookup);
            out.count(&format!("req.fmt{}.{}", if fmt > 3 { "Unknown".to_string() } else { fmt.to_string() }, match &body { Ok(None) => "empty", Ok(Some(_)) => "value", Err(()) => "invalid" }));
            let trail = ctx.trail.clone();
            // oracle: mounting only strips the prefix; the request is the direct dispatch of the decoded body
            let want_ptr = chosen.as_ref().map(|pre| o_strip(std::slice::from_ref(pre), &path));
            match (&r, &want_ptr) {
                (None, None) => out.count("req.unrouted"),
                (Some(Err(6)), Some(None)) => out.count("req.not_below_prefix"),
                (Some(got), Some(Some(ptr))) => match &body {
                    Err(()) => {
                        let after = ctx.sys.snapshot();
                        if got != &Err(4) || after.root != before.root || after.log != before.log {
                            out.oracle_fail("registry.mount.decode", &format!("a body that is not valid for format {} was answered {:?} (InvalidBody = 4 expected, nothing changed)", fmt, got), &trail);
                        }
                        out.count("oracle.mount_invalid_body");
                    }
                    Ok(None) => {
                        let direct = ctx.sys.reg.dispatch(ptr, None).map_err(|e| e.code() as u32);
                        if &direct != got {
                            out.oracle_fail("registry.mount.read_differs", &format!("path {} under prefixes {:?}: mount gave {:?}, direct dispatch({}) gave {:?}", pword(&path), ctx.prefixes, got, pword(ptr), direct), &trail);
                        }
                        let after = ctx.sys.snapshot();
                        if after.root != before.root || after.log != before.log {
                            out.oracle_fail("registry.read.mutated", "a mounted request with an empty body changed the registry", &trail);
                        }
                        out.count("oracle.mount_read");
                    }
                    Ok(Some(v)) => {
                        // replay the same body-bearing request directly on an equal registry
                        let mut twin = Sys::from_snapshot(&before);
                        let direct = twin.apply(&OpR::Disp(ptr.clone(), Some(v.clone()))).map_err(|e| if e.0 == "Panic" { u32::MAX } else { e.1 });
                        let same_state = twin.root() == ctx.sys.root() && twin.log.lock().unwrap().clone() == ctx.sys.log.lock().unwrap().clone();
                        if &direct != got || !same_state {
                            out.oracle_fail("registry.mount.write_differs", &format!("path {} under prefixes {:?}: mount gave {:?}, direct dispatch({}) gave {:?}", pword(&path), ctx.prefixes, got, pword(ptr), direct), &trail);
                        }
                        out.count("oracle.mount_write");
                    }
                },
                (got, want) => out.oracle_fail("registry.mount.routing", &format!("path {} under prefixes {:?}: mount gave {:?}, stripping gives {:?}", pword(&path), ctx.prefixes, got, want), &trail),
            }
            let s = match &r {
                None => format!("{} none", idx),
                Some(Ok(v)) => format!("{} ok {} c{}", idx, render(v), ctx.sys.log_len()),
                Some(Err(c)) if *c == u32::MAX || (1_000_001..=1_000_003).contains(c) => format!("{} unspecified c{}", idx, ctx.sys.log_len()),
                Some(Err(c)) => format!("{} err {} c{}", idx, c, ctx.sys.log_len()),
            };
            // a re-entrant callable reached through the mount
            let nested: Vec<_> = ctx.sys.nested.lock().unwrap().drain(..).collect();
            for (j, (ptr, v, nr)) in nested.iter().enumerate() {
                out.count("call.reentered");
                ctx.pending_lines.push((format!("nregv {}.{} {} {}", idx, j + 1, pword(ptr), render(v)), format!("{}.{} {}", idx, j + 1, obs(&ctx.sys, nr))));
            }
            Some((s, matches!(r, Some(Ok(_)))))
        }
        "jp" => {
            let p = unpword(w[2]);
            let toks = repe::parse_json_pointer(&p);
            // oracle: on a well-formed pointer the replace-based unescape is the RFC scan
            if let Some(rest) = p.strip_prefix('/') {
                let want: Option<Vec<String>> = rest.split('/').map(o_unescape).collect();
                if let Some(want) = want {
                    out.count("oracle.jp_wellformed");
                    if want != toks {
                        out.oracle_fail("registry.json_pointer.parse", &format!("parse({}) = {:?}, RFC 6901 gives {:?}", pword(&p), toks, want), &[line.to_string()]);
                    }
                }
            }
            Some((format!("{} {}", idx, render(&json!(toks))), !toks.is_empty()))
        }
        "wire" => {
            // wire i <version> <notify> <query format> <path P | !> <body format> <body hex|-> <decoder outcome>
            // One frame sent over TCP to a real blocking `Server` whose router mounts the current registry (same
            // prefixes), followed by a barrier request; the server's own validation (version, query format, UTF-8,
            // notify) belongs to other properties – here only C14's clauses are checked on whatever path the request
            // takes: a request that is not dispatched changes nothing; a dispatched one has exactly the effect (tree,
            // callables invoked once with the body) and – when answered – the answer of the direct `dispatch`.
            ctx.trail.push(line.to_string());
            let trail = ctx.trail.clone();
            let (ver, notify, qfmt): (u8, u8, u16) = (w[2].parse().unwrap(), w[3].parse().unwrap(), w[4].parse().unwrap());
            let path: Option<String> = if w[5] == "!" { None } else { Some(unpword(w[5])) };
            let fmt: u16 = w[6].parse().unwrap();
            let bytes = unhex(w[7]).expect("body hex");
            if ctx.wire.is_none() {
                let mut r = Router::new();
                for p in &ctx.prefixes {
                    r = r.with_registry(p, Arc::clone(&ctx.sys.reg));
                }
                let server = repe::Server::new(r);
                let listener = server.listen("127.0.0.1:0").expect("listen");
                let addr = listener.local_addr().expect("addr");
                std::thread::spawn(move || {
                    let _ = server.serve(listener);
                });
                let c = std::net::TcpStream::connect(addr).expect("connect");
                c.set_read_timeout(Some(std::time::Duration::from_secs(10))).unwrap();
                c.set_nodelay(true).unwrap();
                ctx.wire = Some(c);
            }
            let before = ctx.sys.snapshot();
            let t_wire = std::time::Instant::now();
            let id: u64 = 1_000_000 + idx.parse::<u64>().unwrap_or(0) * 2;
            let q: Vec<u8> = path.as_ref().map(|p| p.as_bytes().to_vec()).unwrap_or(vec![0x2f, 0xff, 0xfe]);
            let mut f = repe_verif_harness::frames::RawFrame::request(id, notify == 1, qfmt, &q, fmt, &bytes);
            f.h.version = ver;
            f.h.notify = notify;
            let barrier = repe_verif_harness::frames::RawFrame::request(id + 1, false, 1, b"/__barrier__/x", 2, b"");
            let mut answer: Option<Result<Value, u32>> = None;
            let mut barrier_seen = false;
            {
                use std::io::{Read as _, Write as _};
                let c = ctx.wire.as_mut().unwrap();
                let mut out_bytes = f.to_vec();
                out_bytes.extend(barrier.to_vec());
                let _ = c.write_all(&out_bytes);
                let mut buf: Vec<u8> = Vec::new();
                let mut chunk = [0u8; 65536];
                while !barrier_seen {
                    match c.read(&mut chunk) {
                        Ok(0) | Err(_) => break,
                        Ok(n) => buf.extend_from_slice(&chunk[..n]),
                    }
                    while let Some((fr, used)) = repe_verif_harness::frames::RawFrame::parse_prefix(&buf) {
                        if fr.h.id == id {
                            answer = Some(if fr.h.ec == 0 && fr.h.body_format == 2 { parse_json_deep(&fr.body).ok_or(u32::MAX) } else { Err(fr.h.ec) });
                        }
                        if fr.h.id == id + 1 {
                            barrier_seen = true;
                        }
                        buf.drain(..used);
                    }
                }
            }
            out.add("wire.total_ms", t_wire.elapsed().as_millis() as u64);
            if t_wire.elapsed().as_millis() > 1000 {
                out.count(&format!("wire.slow.v{}n{}q{}", ver, notify, qfmt));
            }
            if !barrier_seen {
                // the connection died or stalled: whatever the reason (another property's), this sequence cannot go on
                ctx.wire = None;
                out.count("wire.no_barrier");
            }
            // which requests reach the registry is fixed by the protocol: version 1, JSON-pointer query that is UTF-8,
            // a mounted prefix; everything else is refused by the server before any handler runs
            let ptr = match (&path, ver == 1 && qfmt == 1) {
                (Some(p), true) => o_choose(&ctx.prefixes, p).and_then(|pre| o_strip(std::slice::from_ref(&pre), p)),
                _ => None,
            };
            let body = o_body(fmt, &bytes);
            let mut twin = Sys::from_snapshot(&before);
            let want: Option<RRes> = match (&ptr, &body) {
                (Some(ptr), Ok(b)) => Some(twin.apply(&OpR::Disp(ptr.clone(), b.clone()))),
                _ => None,
            };
            let same_state = twin.root() == ctx.sys.root() && *twin.log.lock().unwrap() == *ctx.sys.log.lock().unwrap();
            if barrier_seen && !same_state {
                out.oracle_fail(if want.is_some() { "registry.wire.effect_differs" } else { "registry.wire.refused_mutated" }, &format!("after the request the registry holds {} / {} calls, the direct dispatch (or no dispatch at all) leaves {} / {} calls", render(&ctx.sys.root()), ctx.sys.log_len(), render(&twin.root()), twin.log_len()), &trail);
            }
            let dispatched_answer = match (&want, &answer, notify == 1) {
                (Some(w), Some(a), false) => {
                    let w2 = w.clone().map_err(|e| if e.0 == "Panic" { u32::MAX } else { e.1 });
                    if &w2 != a && w2 != Err(u32::MAX) {
                        out.oracle_fail("registry.wire.answer_differs", &format!("the server answered {:?}, the direct dispatch gives {:?}", a, w2), &trail);
                    }
                    true
                }
                _ => false,
            };
            let nested: Vec<_> = ctx.sys.nested.lock().unwrap().drain(..).collect();
            for (j, (ptr, v, nr)) in nested.iter().enumerate() {
                ctx.pending_lines.push((format!("nregv {}.{} {} {}", idx, j + 1, pword(ptr), render(v)), format!("{}.{} {}", idx, j + 1, obs(&ctx.sys, nr))));
            }
            out.count(&format!("wire.{}", if want.is_some() { if notify == 1 { "dispatched_notify" } else { "dispatched" } } else { "refused" }));
            let panicked = matches!(&want, Some(Err((n, _))) if n == "Panic");
            let s = if panicked {
                // the callable panicked inside the server: what the peer then sees is not C14's business
                format!("{} unspecified c{}", idx, ctx.sys.log_len())
            } else if dispatched_answer {
                match answer.as_ref().unwrap() {
                    Ok(v) => format!("{} ok {} c{}", idx, render(v), ctx.sys.log_len()),
                    Err(c) if *c == u32::MAX || (1_000_001..=1_000_003).contains(c) => format!("{} unspecified c{}", idx, ctx.sys.log_len()),
                    Err(c) => format!("{} err {} c{}", idx, c, ctx.sys.log_len()),
                }
            } else if want.is_some() {
                format!("{} dispatched c{}", idx, ctx.sys.log_len())
            } else {
                format!("{} refused c{}", idx, ctx.sys.log_len())
            };
            Some((s, want.is_some()))
        }
        "jpd" => {
            // jpd i D <suffix P>: eval_json_pointer on a document that really is D levels deep (built here, not parsed)
            let d: usize = w[2].parse().expect("depth");
            let suffix = unpword(w[3]);
            let mut v = json!({"target": 1, "k": [0, 1]});
            for i in (0..d).rev() {
                let mut m = Map::new();
                m.insert(format!("d{i}"), v);
                v = Value::Object(m);
            }
            let p: String = (0..d).map(|i| format!("/d{i}")).collect::<String>() + &suffix;
            let r = repe::eval_json_pointer(&v, &p);
            if let Some(toks) = o_parse(&p) {
                if p.starts_with('/') && p != "/" && o_resolve(&v, &toks).ok() != r {
                    out.oracle_fail("registry.json_pointer.evaluate", &format!("evaluate(<chain of depth {}>, …{}) = {:?}, the document holds {:?}", d, pword(&suffix), r.map(render), o_resolve(&v, &toks).ok().map(render)), &[line.to_string()]);
                }
            }
            let toks = repe::parse_json_pointer(&p);
            let obs = format!("{} {} {}", idx, match r { Some(x) => format!("some {}", render(x)), None => "none".into() }, toks.len());
            let hit = r.is_some();
            // drop the deep value iteratively enough: 4096 levels are fine for the recursive drop
            Some((obs, hit))
        }
        "jpe" => {
            let v = unjword(w[2]);
            let p = unpword(w[3]);
            let r = repe::eval_json_pointer(&v, &p);
            // oracle (independent of the crate): on a well-formed pointer `evaluate` finds what the plain document
            // holds at the RFC 6901 tokens (object key, or array index read as a usize), else nothing
            if p.starts_with('/') && p != "/" {
                if let Some(toks) = o_parse(&p) {
                    let want = o_resolve(&v, &toks).ok();
                    if want != r {
                        out.oracle_fail("registry.json_pointer.evaluate", &format!("evaluate({}, {}) = {:?} but the document holds {:?} there", render(&v), pword(&p), r.map(render), want.map(render)), &[line.to_string()]);
                    }
                    out.count("oracle.jpe_vs_document");
                }
            }
            Some((match r { Some(x) => format!("{} some {}", idx, render(x)), None => format!("{} none", idx) }, r.is_some()))
        }
        "rep" => {
            // rep i N <op …>: the same API call N times in a row on the same registry; every repetition goes through the
            // ordinary oracles (the N-th is treated like the first); observation = digest of all N observations + the last
            let n: usize = w[2].parse().expect("count");
            let (op, used) = OpR::parse(&w[3..]).unwrap_or_else(|| panic!("bad rep line {line}"));
            assert_eq!(used + 3, w.len(), "trailing words in {line}");
            ctx.trail.push(line.to_string());
            let trail = ctx.trail.clone();
            let mut h = 0xcbf29ce484222325u64;
            let mut last = String::new();
            let mut nested_n = 0;
            let mut nested_first = Vec::new();
            for k in 0..n {
                // full oracles on the first and last repetitions, around the usual thresholds, and every 32nd; the digest
                // (compared with the model) covers every repetition
                let full = k < 3 || k + 3 >= n || k % 32 == 0 || [7, 8, 9, 15, 16, 17, 63, 64, 65, 127, 128, 129, 254, 255, 256, 257].contains(&k);
                let r = apply_checked(out, &mut ctx.sys, &op, &trail, full);
                last = obs(&ctx.sys, &r);
                h = fnv_line(h, &last);
                for x in ctx.sys.nested.lock().unwrap().drain(..) {
                    nested_n += 1;
                    if nested_n <= 2 {
                        nested_first.push(x);
                    }
                }
            }
            for (j, (ptr, v, nr)) in nested_first.iter().enumerate() {
                ctx.pending_lines.push((format!("nregv {}.{} {} {}", idx, j + 1, pword(ptr), render(v)), format!("{}.{} {}", idx, j + 1, obs(&ctx.sys, nr))));
            }
            out.count(&format!("rep.{}x{}", w[3], n));
            Some((format!("{} {} last {}", idx, h, last), true))
        }
        _ => {
            let (op, n) = {
                let mut ws: Vec<&str> = vec![w[0]];
                ws.extend_from_slice(&w[2..]);
                OpR::parse(&ws).unwrap_or_else(|| panic!("bad op line {line}"))
            };
            assert_eq!(n + 1, w.len(), "trailing words in {line}");
            ctx.trail.push(line.to_string());
            let trail = ctx.trail.clone();
            let before = ctx.sys.snapshot();
            let r = apply_checked(out, &mut ctx.sys, &op, &trail, true);
            // the long-lived registry must answer as a FRESH registry in the same abstract state does (no hidden
            // state survives earlier calls, errors included), and the twin entry point must agree
            {
                let mut twin = Sys::from_snapshot(&before);
                twin.flip = true;
                let r2 = twin.apply(&op);
                if r2 != r || twin.root() != ctx.sys.root() || *twin.log.lock().unwrap() != *ctx.sys.log.lock().unwrap() {
                    out.oracle_fail("registry.hidden_state", &format!("{} answered {} on the registry used so far but {} on a fresh registry rebuilt in the same state (other entry-point twin)", op.words(), show_rres(&r), show_rres(&r2)), &trail);
                }
                out.count("oracle.fresh_twin");
            }
            // calls a re-entrant callable made into the registry while it ran: reported as their own (derived) op lines
            let nested: Vec<_> = ctx.sys.nested.lock().unwrap().drain(..).collect();
            for (j, (ptr, v, nr)) in nested.iter().enumerate() {
                out.count("call.reentered");
                ctx.pending_lines.push((format!("nregv {}.{} {} {}", idx, j + 1, pword(ptr), render(v)), format!("{}.{} {}", idx, j + 1, obs(&ctx.sys, nr))));
            }
            let kind = match (&op, &r) {
                (OpR::Disp(_, Some(_)), Ok(v)) if is_write_ok(v) => "write_ok",
                (OpR::Disp(_, Some(_)), Ok(_)) => "call_ok",
                (OpR::Disp(_, Some(_)), Err((v, _))) if v == "Execution" => "call_err",
                (OpR::Disp(_, None), Ok(v)) if v.get("type") == Some(&json!("function")) => "read_function",
                (_, Ok(_)) => "ok",
                (_, Err((v, _))) => v.as_str(),
            };
            out.count(&format!("{}.{}", w[0], kind));
            Some((format!("{} {}", idx, obs(&ctx.sys, &r)), r.is_ok()))
        }
    }
}

// ------------------------------------------------------------------------------------------
// small-scope exhaustive enumeration (same table and order as Driver/Registry.lean `domain`)
// ------------------------------------------------------------------------------------------
struct Dom {
    init: Value,
    ops: Vec<OpR>,
}

fn domain(name: &str) -> Dom {
    let (init, ps, vs): (Value, [&str; 3], [Value; 3]) = match name {
        "d1" => (json!({}), ["/a", "/a/b", "/a/0"], [json!(1), json!({"b":2}), json!([7])]),
        "d2" => (json!({"k":0}), ["/x~1y", "/x~1y/~0", ""], [json!({"k":1}), json!(2), json!({"x/y":{}})]),
        "d3" => (json!({"l":[5,[6]]}), ["/l/1/0", "/l/+1", "/l/2"], [json!(9), json!([8]), json!({"1":7})]),
        "d4" => (json!({"~1":0,"/":1}), ["/~01", "/~1", "/~01/~10"], [json!(1), json!({"/0":2}), json!({"~1":{}})]),
        "d5" => (json!({"l":[5,6]}), ["/l/++1", "/l/+01", "/l/-0"], [json!(9), json!([8]), json!({"1":7})]),
        _ => panic!("unknown domain {name}"),
    };
    let mut ops = Vec::new();
    for p in ps {
        ops.push(OpR::Disp(p.into(), None));
    }
    for p in ps {
        for v in &vs {
            ops.push(OpR::Disp(p.into(), Some(v.clone())));
        }
    }
    for p in ps {
        for v in &vs {
            ops.push(OpR::RegV(p.into(), v.clone()));
        }
    }
    for (i, p) in ps.iter().enumerate() {
        ops.push(OpR::RegF((*p).into(), i as u64, None));
    }
    for v in &vs {
        ops.push(OpR::SetRoot(v.clone()));
    }
    Dom { init, ops }
}

fn fnv_line(mut h: u64, s: &str) -> u64 {
    for b in s.bytes() {
        h ^= b as u64;
        h = h.wrapping_mul(0x100000001b3);
    }
    h ^= 10;
    h.wrapping_mul(0x100000001b3)
}

struct EnumCtx<'a> {
    dom: &'a Dom,
    seqs: u64,
    nodes: u64,
}

fn enum_go(out: &mut Out, e: &mut EnumCtx, depth: usize, snap: &Snapshot, trail: &mut Vec<String>, mut h: u64) -> u64 {
    if depth == 0 {
        e.seqs += 1;
        let sys = Sys::from_snapshot(snap);
        return fnv_line(h, &sys.dump(false));
    }
    heartbeat();
    for op in &e.dom.ops {
        let mut sys = Sys::from_snapshot(snap);
        trail.push(op_line(op));
        let r = apply_checked(out, &mut sys, op, trail, true);
        e.nodes += 1;
        h = fnv_line(h, &obs(&sys, &r));
        let s2 = sys.snapshot();
        h = enum_go(out, e, depth - 1, &s2, trail, h);
        trail.pop();
    }
    h
}

fn exec_enum(out: &mut Out, line: &str) -> String {
    let w = words(line);
    let (idx, dom, len): (&str, Dom, usize) = (w[1], domain(w[2]), w[3].parse().unwrap());
    assert!(len >= 2);
    let mut e = EnumCtx { dom: &dom, seqs: 0, nodes: 0 };
    let mut lines = Vec::new();
    let init = Snapshot { root: dom.init.clone(), ..Default::default() };
    for (a, opa) in dom.ops.iter().enumerate() {
        for (b, opb) in dom.ops.iter().enumerate() {
            let mut trail = vec![format!("reset 0"), format!("setroot 0 {}", render(&dom.init))];
            let mut sys = Sys::from_snapshot(&init);
            trail.push(op_line(opa));
            let r1 = apply_checked(out, &mut sys, opa, &trail, b == 0);
            let mut h = fnv_line(0xcbf29ce484222325, &obs(&sys, &r1));
            trail.push(op_line(opb));
            let r2 = apply_checked(out, &mut sys, opb, &trail, true);
            h = fnv_line(h, &obs(&sys, &r2));
            e.nodes += 2;
            let s2 = sys.snapshot();
            h = enum_go(out, &mut e, len - 2, &s2, &mut trail, h);
            lines.push(format!("{} {} {} {}", idx, a, b, h));
        }
    }
    out.add(&format!("enum.{}.sequences_len{}", w[2], len), e.seqs);
    out.add("enum.ops_executed", e.nodes);
    out.extra.insert(format!("exhaustive_{}_len{}", w[2], len), json!(true));
    lines.join("\n")
}

// ------------------------------------------------------------------------------------------
// concurrent histories
// ------------------------------------------------------------------------------------------
#[derive(Clone)]
struct Scenario {
    setup: Vec<OpR>,
    threads: Vec<Vec<OpR>>,
}

impl Scenario {
    fn words(&self) -> String {
        let mut s = String::from("S");
        for op in &self.setup {
            s.push(' ');
            s.push_str(&op.words());
        }
        for t in &self.threads {
            s.push_str(" T");
            for op in t {
                s.push(' ');
                s.push_str(&op.words());
            }
        }
        s
    }
    fn parse(w: &[&str]) -> Scenario {
        assert_eq!(w[0], "S");
        let mut i = 1;
        let mut sc = Scenario { setup: vec![], threads: vec![] };
        let mut cur: Option<usize> = None;
        while i < w.len() && w[i] != "=>" {
            if w[i] == "T" {
                sc.threads.push(vec![]);
                cur = Some(sc.threads.len() - 1);
                i += 1;
                continue;
            }
            let (op, n) = OpR::parse(&w[i..]).unwrap_or_else(|| panic!("bad scenario at word {i}"));
            match cur {
                None => sc.setup.push(op),
                Some(k) => sc.threads[k].push(op),
            }
            i += n;
        }
        sc
    }
}

#[derive(Clone, PartialEq, Eq, Hash)]
struct Outcome {
    results: Vec<Vec<String>>,
    fin: String,
}

impl Outcome {
    fn words(&self) -> String {
        let mut s = String::new();
        for r in &self.results {
            s.push_str("R ");
            for x in r {
                s.push_str(x);
                s.push(' ');
            }
        }
        s.push_str("F ");
        s.push_str(&self.fin);
        s
    }
}

fn wait_until(f: impl Fn() -> bool) {
    let mut spins = 0u32;
    while !f() {
        spins += 1;
        if spins > 3000 {
            std::thread::yield_now();
        } else {
            std::hint::spin_loop();
        }
    }
}

/// Run the scenario `iters` times, each time on a fresh real registry, with one long-lived OS thread
/// per scenario thread; the threads of an iteration are released together by a spin barrier.
/// Returns the distinct outcomes with their frequencies.
fn run_conc_many(sc: &Scenario, iters: u64) -> BTreeMap<String, (Outcome, u64)> {
    let n = sc.threads.len();
    let slot: Mutex<Option<(Arc<Registry>, Log, Nested)>> = Mutex::new(None);
    let gen = AtomicUsize::new(0); // iteration published by the main thread
    let arrived = AtomicUsize::new(0);
    let done = AtomicUsize::new(0);
    let stop = AtomicUsize::new(0);
    let results: Vec<Mutex<Vec<RRes>>> = (0..n).map(|_| Mutex::new(Vec::new())).collect();
    let mut seen: BTreeMap<String, (Outcome, u64)> = BTreeMap::new();
    std::thread::scope(|s| {
        for (k, ops) in sc.threads.iter().enumerate() {
            let (slot, gen, arrived, done, stop, results) = (&slot, &gen, &arrived, &done, &stop, &results);
            s.spawn(move || {
                let mut my = 0usize;
                loop {
                    wait_until(|| gen.load(Ordering::Acquire) > my || stop.load(Ordering::Acquire) == 1);
                    if stop.load(Ordering::Acquire) == 1 {
                        return;
                    }
                    my += 1;
                    let (reg, log, nested) = slot.lock().unwrap().clone().expect("registry published");
                    arrived.fetch_add(1, Ordering::AcqRel);
                    wait_until(|| arrived.load(Ordering::Acquire) >= n * my);
                    let rs: Vec<RRes> = ops.iter().map(|op| Sys::apply_shared(&reg, &log, &nested, false, op)).collect();
                    *results[k].lock().unwrap() = rs;
                    done.fetch_add(1, Ordering::AcqRel);
                }
            });
        }
        for it in 1..=iters as usize {
            heartbeat();
            let mut sys = Sys::new();
            for op in &sc.setup {
                let _ = sys.apply(op);
            }
            *slot.lock().unwrap() = Some((Arc::clone(&sys.reg), Arc::clone(&sys.log), Arc::clone(&sys.nested)));
            gen.store(it, Ordering::Release);
            wait_until(|| done.load(Ordering::Acquire) >= n * it);
            let rs: Vec<Vec<RRes>> = results.iter().map(|m| std::mem::take(&mut *m.lock().unwrap())).collect();
            for (ops, rs) in sc.threads.iter().zip(&rs) {
                for (op, r) in ops.iter().zip(rs) {
                    if let (OpR::RegF(p, t, f), Ok(_)) = (op, r) {
                        sys.regfs.push((p.clone(), *t, *f));
                    }
                }
            }
            let o = Outcome { results: rs.iter().map(|rs| rs.iter().map(res_word).collect()).collect(), fin: sys.dump(true) };
            seen.entry(o.words()).or_insert_with(|| (o, 0)).1 += 1;
        }
        stop.store(1, Ordering::Release);
    });
    seen
}

fn reg_key(path: &str) -> Option<String> {
    o_reg_parse(path).map(|t| o_canon(&t))
}

/// Direct oracle: is there a sequential order of the threads' ops (program order kept) that, run on
/// the real registry one op at a time, gives exactly these results and this final state?
///
/// `two_step = true` relaxes the specification to the lock-region granularity of the current source:
/// a body-bearing dispatch is a function-map lookup step followed later by a write step that does
/// not look at the function map again.  Used only to CLASSIFY a non-linearizable outcome (is it the
/// known lookup-then-write race or something else); the property is the `two_step = false` search.
fn linearizable(sc: &Scenario, o: &Outcome, two_step: bool, explored: &mut u64) -> bool {
    let mut sys = Sys::new();
    for op in &sc.setup {
        let _ = sys.apply(op);
    }
    struct S<'a> {
        sc: &'a Scenario,
        o: &'a Outcome,
        two_step: bool,
        seen: HashSet<(Vec<usize>, Vec<bool>, String)>,
    }
    fn go(st: &mut S, pos: &mut Vec<usize>, pend: &mut Vec<bool>, snap: &Snapshot, explored: &mut u64) -> bool {
        *explored += 1;
        if pos.iter().zip(&st.sc.threads).all(|(p, t)| *p == t.len()) {
            return Sys::from_snapshot(snap).dump(true) == st.o.fin;
        }
        let key = (pos.clone(), pend.clone(), format!("{} {:?} {:?}", render(&snap.root), snap.regfs, snap.log));
        if st.seen.contains(&key) {
            return false;
        }
        for k in 0..st.sc.threads.len() {
            if pos[k] == st.sc.threads[k].len() {
                continue;
            }
            let op = &st.sc.threads[k][pos[k]];
            let want = &st.o.results[k][pos[k]];
            if st.two_step {
                if let OpR::Disp(p, Some(_)) = op {
                    if let Some(key) = o_parse(p).map(|t| o_canon(&t)) {
                        let is_fn = |s: &Snapshot| s.regfs.iter().any(|(rp, _, _)| reg_key(rp).as_deref() == Some(&key));
                        if !pend[k] && !is_fn(snap) {
                            // lookup step found nothing: the request is now between its two sections
                            pend[k] = true;
                            let ok = go(st, pos, pend, snap, explored);
                            pend[k] = false;
                            if ok {
                                return true;
                            }
                            continue;
                        }
                        if pend[k] {
                            // write step: performed without consulting the function map
                            let mut bare = snap.clone();
                            bare.regfs.retain(|(rp, _, _)| reg_key(rp).as_deref() != Some(&key));
                            let mut sys = Sys::from_snapshot(&bare);
                            let r = sys.apply(op);
                            if &res_word(&r) != want {
                                continue;
                            }
                            let next = Snapshot { root: sys.root(), regfs: snap.regfs.clone(), log: snap.log.clone() };
                            pend[k] = false;
                            pos[k] += 1;
                            let ok = go(st, pos, pend, &next, explored);
                            pos[k] -= 1;
                            pend[k] = true;
                            if ok {
                                return true;
                            }
                            continue;
                        }
                    }
                }
            }
            let mut sys = Sys::from_snapshot(snap);
            let r = sys.apply(op);
            if &res_word(&r) != want {
                continue;
            }
            pos[k] += 1;
            let ok = go(st, pos, pend, &sys.snapshot(), explored);
            pos[k] -= 1;
            if ok {
                return true;
            }
        }
        st.seen.insert(key);
        false
    }
    let mut st = S { sc, o, two_step, seen: HashSet::new() };
    let mut pos = vec![0; sc.threads.len()];
    let mut pend = vec![false; sc.threads.len()];
    go(&mut st, &mut pos, &mut pend, &sys.snapshot(), explored)
}

/// `watch i iters S setup… M op… W read|disp P …`: one mutator thread runs its ops in order while 1–3 watcher
/// threads hammer one read-only call each.  Every watcher's sequence of answers (consecutive duplicates removed)
/// must walk, in order, through the states the document is in before / between / after the mutator's ops.
struct Watch {
    setup: Vec<OpR>,
    mutator: Vec<OpR>,
    watchers: Vec<OpR>,
}

impl Watch {
    fn words(&self) -> String {
        let mut s = String::from("S");
        for op in &self.setup {
            s.push(' ');
            s.push_str(&op.words());
        }
        s.push_str(" M");
        for op in &self.mutator {
            s.push(' ');
            s.push_str(&op.words());
        }
        for op in &self.watchers {
            s.push_str(" W ");
            s.push_str(&op.words());
        }
        s
    }
    fn parse(w: &[&str]) -> Watch {
        assert_eq!(w[0], "S");
        let mut wt = Watch { setup: vec![], mutator: vec![], watchers: vec![] };
        let (mut i, mut sec) = (1, 0);
        while i < w.len() && w[i] != "=>" {
            match w[i] {
                "M" => { sec = 1; i += 1; continue; }
                "W" => { sec = 2; i += 1; continue; }
                _ => {}
            }
            let (op, n) = OpR::parse(&w[i..]).unwrap_or_else(|| panic!("bad watch line at word {i}"));
            match sec { 0 => wt.setup.push(op), 1 => wt.mutator.push(op), _ => wt.watchers.push(op) }
            i += n;
        }
        wt
    }
}

fn run_watch(wt: &Watch) -> Vec<Vec<String>> {
    let mut sys = Sys::new();
    for op in &wt.setup {
        let _ = sys.apply(op);
    }
    let n = wt.watchers.len() + 1;
    let arrived = AtomicUsize::new(0);
    let done = AtomicUsize::new(0);
    let (reg, log, nested) = (Arc::clone(&sys.reg), Arc::clone(&sys.log), Arc::clone(&sys.nested));
    std::thread::scope(|s| {
        let hs: Vec<_> = wt.watchers.iter().map(|op| {
            let (reg, log, nested, arrived, done) = (&reg, &log, &nested, &arrived, &done);
            s.spawn(move || {
                arrived.fetch_add(1, Ordering::AcqRel);
                wait_until(|| arrived.load(Ordering::Acquire) >= n);
                let mut seen: Vec<String> = Vec::new();
                let mut after = 0;
                while after < 3 {
                    if done.load(Ordering::Acquire) == 1 {
                        after += 1;
                    }
                    let w = res_word(&Sys::apply_shared(reg, log, nested, false, op));
                    if seen.last() != Some(&w) {
                        seen.push(w);
                    }
                }
                seen
            })
        }).collect();
        arrived.fetch_add(1, Ordering::AcqRel);
        wait_until(|| arrived.load(Ordering::Acquire) >= n);
        for op in &wt.mutator {
            let _ = Sys::apply_shared(&reg, &log, &nested, false, op);
        }
        done.store(1, Ordering::Release);
        hs.into_iter().map(|h| h.join().expect("watcher")).collect()
    })
}

/// the answers a watcher may see, in order: its call on the state before the mutator's first op, after the first, …
fn watch_states(wt: &Watch, watcher: &OpR) -> Vec<String> {
    let mut sys = Sys::new();
    for op in &wt.setup {
        let _ = sys.apply(op);
    }
    let mut out = vec![res_word(&Sys::from_snapshot(&sys.snapshot()).apply(watcher))];
    for op in &wt.mutator {
        let _ = sys.apply(op);
        out.push(res_word(&Sys::from_snapshot(&sys.snapshot()).apply(watcher)));
    }
    out
}

fn admissible(states: &[String], seen: &[String]) -> bool {
    let mut j = 0;
    for w in seen {
        match (j..states.len()).find(|k| &states[*k] == w) {
            Some(k) => j = k,
            None => return false,
        }
    }
    true
}

fn exec_watch(out: &mut Out, line: &str) {
    let w = words(line);
    let idx = w[1];
    let iters: u64 = w[2].parse().unwrap();
    let wt = Watch::parse(&w[3..]);
    let base = format!("watch {} {} {}", idx, iters, wt.words());
    let states: Vec<Vec<String>> = wt.watchers.iter().map(|op| watch_states(&wt, op)).collect();
    let mut seen: BTreeMap<String, Vec<Vec<String>>> = BTreeMap::new();
    for _ in 0..iters {
        heartbeat();
        let o = run_watch(&wt);
        let key = o.iter().map(|v| format!("V {}", v.join(" "))).collect::<Vec<_>>().join(" ");
        if seen.len() < 12 || seen.contains_key(&key) {
            seen.entry(key).or_insert(o);
        }
    }
    out.add("watch.runs", iters);
    out.count(&format!("watch.distinct_outcomes.{}", seen.len().min(12)));
    for (key, o) in &seen {
        let ok = o.iter().zip(&states).all(|(s, st)| admissible(st, s));
        if !ok {
            out.oracle_fail("registry.watch.inadmissible", &format!("a read-only call running beside the mutator saw answers that are not the document's successive states: {} (states per watcher: {:?})", key, states), &[base.clone()]);
        }
        out.case(&format!("{} => {}", base, key), &format!("{} admissible", idx), o.iter().any(|v| v.len() > 1));
    }
}

/// Execute a `conc` op line: run the scenario `iters` times, report each distinct outcome once.
fn exec_conc(out: &mut Out, line: &str) {
    let w = words(line);
    let idx = w[1];
    let iters: u64 = w[2].parse().unwrap();
    let sc = Scenario::parse(&w[3..]);
    let base = format!("conc {} {} {}", idx, iters, sc.words());
    let seen = run_conc_many(&sc, iters);
    out.add("conc.runs", iters);
    out.count(&format!("conc.threads.{}", sc.threads.len()));
    out.count(&format!("conc.distinct_outcomes.{}", seen.len().min(9)));
    for (ow, (o, n)) in &seen {
        let mut explored = 0;
        let ok = linearizable(&sc, o, false, &mut explored);
        out.add("conc.orders_explored", explored);
        let full = format!("{} => {}", base, ow);
        if !ok {
            // classify: explained by the two lock regions of the body-bearing dispatch, or not at all?
            let sig = if linearizable(&sc, o, true, &mut explored) {
                "registry.conc.write_raced_function_registration"
            } else {
                "registry.conc.not_linearizable"
            };
            out.count(&format!("conc.{}", sig));
            out.oracle_fail(sig, &format!("no sequential order of the threads' operations gives this outcome (seen in {} of {} runs): {}", n, iters, ow), &[base.clone()]);
        } else {
            out.count("conc.linearizable_outcomes");
        }
        out.case(&full, &format!("{} member", idx), seen.len() > 1);
    }
}

// ------------------------------------------------------------------------------------------
// generators
// ------------------------------------------------------------------------------------------
const TOKENS: &[&str] = &["a", "b", "c", "a", "b", "", "0", "1", "01", "+1", "-", "2", "00", "+0", "x/y", "m~n", "~", "/", "é", "k k", "18446744073709551615", "18446744073709551616", "-1", "+", "1e0", "++1",
    // literal keys whose escaped spellings are ~01, ~00, ~10, ~11, ~0~1, a~01b, ~1~0, ~001: the order of the two
    // unescape substitutions matters only on these
    "~1", "~0", "/0", "/1", "~/", "a~1b", "/~", "~01", "~1", "/",
    // beyond the BMP, controls, long
    "𝄞", "\u{1}", " ", "qqqqqqqqqqqqqqqqqqqqqqqqqqqqqqqqqqqqqqqqqqqqqqqqqqqqqqqqqqqqqqqqqqqqqqqqqqqqqqqq"];

fn gen_value(r: &mut Rng, depth: u32) -> Value {
    let k = if depth == 0 { r.below(5) } else { r.below(9) };
    match k {
        0 => match r.below(12) {
            0 => json!(u64::MAX),
            1 => json!(i64::MIN),
            2 => json!(i64::MAX),
            3 => json!(1u64 << 53),
            _ => json!(r.below(10)),
        },
        1 => json!(-(r.below(1000) as i64) - 1),
        2 => Value::String((*r.pick(&["", "s", "h i", "é~/", "\"q\"\\", "0", " s ", "\n", "\u{1}\u{7f}", "𝄞", "\u{feff}x", "null", "zzzzzzzzzzzzzzzzzzzzzzzzzzzzzzzzzzzzzzzzzzzzzzzzzzzzzzzzzzzzzzzzzzzzzzzzzzzzzzzzzzzzzzzzzzzzzzzzzzzzzzzzzzzzzzzzzzzzzzzzzzzzzzzz"])).to_string()),
        3 => json!(r.chance(1, 2)),
        4 => Value::Null,
        5 | 6 => {
            let n = r.below(4);
            Value::Array((0..n).map(|_| gen_value(r, depth - 1)).collect())
        }
        _ => {
            let n = r.below(4);
            let mut m = Map::new();
            for _ in 0..n {
                m.insert((*r.pick(TOKENS)).to_string(), gen_value(r, depth - 1));
            }
            Value::Object(m)
        }
    }
}

fn gen_object(r: &mut Rng) -> Value {
    let n = r.below(4);
    let mut m = Map::new();
    for _ in 0..n {
        m.insert((*r.pick(TOKENS)).to_string(), gen_value(r, 1));
    }
    Value::Object(m)
}

fn gen_pointer(r: &mut Rng, max_depth: u64) -> String {
    let d = r.below(max_depth + 1);
    (0..d).map(|_| format!("/{}", o_escape(r.pick(TOKENS)))).collect()
}

fn malform(r: &mut Rng, p: &str) -> String {
    match r.below(6) {
        0 => p.trim_start_matches('/').to_string() + "x",
        1 => format!("{p}/a~2b"),
        2 => format!("{p}/~"),
        3 => format!("{p}/a~"),
        4 => "~0".to_string(),
        _ => format!("{p}/~~0"),
    }
}

struct SeqGen {
    pool: Vec<String>,
}

impl SeqGen {
    fn pointer(&mut self, r: &mut Rng) -> String {
        let k = r.below(100);
        if k < 62 && !self.pool.is_empty() {
            r.pick(&self.pool).clone()
        } else if k < 80 && !self.pool.is_empty() {
            let base = r.pick(&self.pool).clone();
            let base = if base == "/" { String::new() } else { base };
            let p = format!("{}/{}", base, o_escape(r.pick(TOKENS)));
            self.pool.push(p.clone());
            p
        } else if k < 86 && !self.pool.is_empty() {
            // a parent
            let base = r.pick(&self.pool).clone();
            match base.rfind('/') {
                Some(i) => base[..i].to_string(),
                None => base,
            }
        } else if k < 89 && self.pool.iter().any(|p| p.contains("~1")) {
            // the aliasing neighbour: the same pointer with one `~01` (key `~1`) spelled `~1` (key `/`) or back
            let cands: Vec<&String> = self.pool.iter().filter(|p| p.contains("~1")).collect();
            let base = (*r.pick(&cands)).clone();
            let p = if base.contains("~01") { base.replacen("~01", "~1", 1) } else { base.replacen("~1", "~01", 1) };
            self.pool.push(p.clone());
            p
        } else if k < 93 {
            let p = if r.chance(1, 12) {
                // long: a canonical pointer beyond any fixed key / path buffer (1.3–5 KiB)
                let d = r.range(16, 60);
                (0..d).map(|_| format!("/{}", o_escape(r.pick(&["qqqqqqqqqqqqqqqqqqqqqqqqqqqqqqqqqqqqqqqqqqqqqqqqqqqqqqqqqqqqqqqqqqqqqqqqqqqqqqqq", "x/y~x/y~x/y~x/y~x/y~x/y~x/y~x/y~x/y~x/y~x/y~x/y~"])))).collect()
            } else if r.chance(1, 6) {
                // deep: more reference tokens than any fixed-size segment buffer would hold
                let d = if r.chance(1, 3) { *r.pick(&[63u64, 64, 65, 66, 127, 129, 257]) } else { r.range(15, 40) };
                (0..d).map(|_| format!("/{}", o_escape(r.pick(&["a", "b", "0", "x/y", ""])))).collect()
            } else {
                gen_pointer(r, 4)
            };
            self.pool.push(p.clone());
            p
        } else if k < 95 {
            (*r.pick(&["", "/", "//", "///"])).to_string()
        } else {
            let base = if self.pool.is_empty() { String::new() } else { r.pick(&self.pool).clone() };
            malform(r, &base)
        }
    }
}

fn gen_sequence(r: &mut Rng, k: &mut u64, ops: &mut Vec<String>, max_len: u64, thorough: bool) {
    let mut next = |ops: &mut Vec<String>, s: String| {
        let (name, rest) = s.split_once(' ').map(|(a, b)| (a.to_string(), format!(" {b}"))).unwrap_or((s.clone(), String::new()));
        ops.push(format!("{} {}{}", name, *k, rest));
        *k += 1;
    };
    next(ops, "reset".into());
    let prefixes: Vec<String> = match r.below(9) {
        6 => vec!["/".into(), "/api".into()],
        7 => (0..r.range(1, 3)).map(|_| { let p = gen_pointer(r, 2); if r.chance(1, 3) { format!("{}/", p.trim_start_matches('/')) } else { p } }).collect(),
        8 => vec!["/qqqqqqqqqqqqqqqqqqqqqqqqqqqqqqqqqqqqqqqqqqqqqqqqqqqqqqqqqqqqqqqq/𝄞".into(), "/a//".into()],
        0 => vec!["".into()],
        1 => vec!["/api".into()],
        2 => vec!["api/v1/".into(), "/api".into()],
        3 => vec!["/api".into(), "/api/v1".into(), "/".into()],
        4 => vec!["/a".into(), "//".into()],
        _ => vec!["/é~/x".into(), "/b/".into()],
    };
    next(ops, format!("router {} {} {}", if r.chance(1, 3) { "mw" } else { "bare" }, if r.chance(1, 2) { "with" } else { "reg" }, prefixes.iter().map(|p| pword(p)).collect::<Vec<_>>().join(" ")));
    let mut tags: Vec<(u64, Option<u32>)> = Vec::new();
    let mut g = SeqGen { pool: (0..r.range(2, 4)).map(|_| gen_pointer(r, 3)).collect() };
    let n = r.range(5, max_len);
    let mut tag = 0u64;
    // a few sequences send their mount requests over TCP to a real Server (one listener thread each)
    let wired = r.chance(1, if thorough { 40 } else { 25 });
    if r.chance(1, 5) {
        // a FULL registry: 12–20 values and 12–16 callables (all kinds) registered in shuffled, non-sorted order, so that
        // the rare events below (replacing a callable whose Drop panics, root replacement, scalar ancestors overwritten,
        // runs of identical calls) happen with many entries in both maps
        let mut prelude: Vec<String> = Vec::new();
        for _ in 0..r.range(12, 20) {
            let p = if r.chance(1, 2) { gen_pointer(r, 2) } else { g.pointer(r) };
            g.pool.push(p.clone());
            prelude.push(OpR::RegV(p, gen_value(r, 1)).words());
        }
        for _ in 0..r.range(12, 16) {
            tag += 1;
            let fail = match r.below(8) {
                0 => Some(*r.pick(&[0u32, 1, 2, 3, 4, 5, 6, 7, 8, 9, 4096])),
                1 => Some(*r.pick(&[1_000_001u32, 1_000_002, 1_000_003])),
                2 => Some(3_000_000),
                3 | 4 => Some(4_000_000),
                _ => None,
            };
            tags.push((tag, fail));
            let p = if r.chance(1, 2) { gen_pointer(r, 2) } else { g.pointer(r) };
            g.pool.push(p.clone());
            prelude.push(OpR::RegF(p, tag, fail).words());
        }
        r.shuffle(&mut prelude);
        for op in prelude {
            next(ops, op);
        }
    }
    for i in 0..n {
        let op = match r.below(100) {
            0..=13 => {
                let p = g.pointer(r);
                let p = if r.chance(1, 8) { p.trim_start_matches('/').to_string() } else { p };
                OpR::RegV(p, gen_value(r, 2)).words()
            }
            14..=21 => {
                let (t, fail) = if !tags.is_empty() && r.chance(1, 6) {
                    // the same callable (same tag, same behaviour) registered again, possibly under another key
                    *r.pick(&tags)
                } else {
                    tag += 1;
                    let fail = match r.below(20) {
                        0..=2 => Some(*r.pick(&[0u32, 1, 2, 3, 4, 5, 6, 7, 8, 9, 4096])),
                        3 => Some(*r.pick(&[1_000_001u32, 1_000_002, 1_000_003])),
                        4 => Some(2_000_000),
                        5 | 6 => Some(3_000_000),
                        7 => Some(4_000_000),
                        _ => None,
                    };
                    tags.push((tag, fail));
                    (tag, fail)
                };
                let p = g.pointer(r);
                let p = if r.chance(1, 8) { p.trim_start_matches('/').to_string() } else { p };
                OpR::RegF(p, t, fail).words()
            }
            22..=27 => OpR::MergeAt(g.pointer(r), gen_object(r)).words(),
            28..=30 => OpR::MergeRoot(gen_object(r)).words(),
            31..=33 => OpR::SetRoot(gen_value(r, 3)).words(),
            34..=43 => OpR::Read(g.pointer(r)).words(),
            44..=59 => OpR::Disp(g.pointer(r), None).words(),
            60..=85 => OpR::Disp(g.pointer(r), Some(gen_value(r, 2))).words(),
            _ => {
                // through the mount
                let pre = if prefixes.is_empty() || r.chance(1, 6) { "/zz".to_string() } else { o_normalize_prefix(r.pick(&prefixes)) };
                let tail = g.pointer(r);
                let path = match r.below(10) {
                    0 => pre.clone(),
                    1 => format!("{pre}x{tail}"),
                    2 => format!("{pre}{pre}{tail}"), // the prefix text repeated: only the first is the mount
                    _ => format!("{pre}{tail}"),
                };
                let v = gen_value(r, 2);
                let (fmt, bytes): (u16, Vec<u8>) = match r.below(20) {
                    0..=5 => (2, vec![]),
                    6 => (*r.pick(&[0u16, 1, 3, 4, 999, 65535]), vec![]), // an empty body is a read whatever the format
                    7..=11 => (2, serde_json::to_vec(&v).unwrap()),
                    12 | 13 => (1, beve::to_vec(&v).unwrap_or_default()),
                    14 => (3, r.pick(&["s", "h i", "é", "{\"a\":1}", " s ", "\n", "\u{feff}x", "\t", "𝄞"]).as_bytes().to_vec()),
                    15 => (3, vec![0x61, 0xff, 0xfe]), // not UTF-8
                    16 => (0, (0..r.range(1, 5)).map(|_| *r.pick(&[0u8, 1, 127, 128, 255])).collect()),
                    17 => (2, b"{\"a\":".to_vec()), // truncated JSON
                    18 => (1, serde_json::to_vec(&v).unwrap()), // JSON text sent as BEVE
                    _ => (*r.pick(&[4u16, 999, 65535]), b"1".to_vec()),
                };
                let dec = match fmt {
                    1 | 2 | 3 if !bytes.is_empty() => dep_decode(fmt, &bytes).map(|v| render(&v)).unwrap_or("!".into()),
                    _ => "-".into(),
                };
                // the message's query is normally the lookup path; sometimes another path, sometimes not UTF-8
                let q = match r.below(12) {
                    0 => "!".to_string(),
                    1 => pword(&format!("{}{}", pre, g.pointer(r))),
                    2 => pword(&g.pointer(r)),
                    _ => "=".to_string(),
                };
                let hdr = format!("{}:{}:{}", *r.pick(&[0u64, 1, u64::MAX, 77]), *r.pick(&[0u64, 1, 255]), *r.pick(&[1u64, 0, 999]));
                format!("req {} {} {} {} {} {} {}", pword(&path), q, r.below(3), hdr, fmt, hex(&bytes), dec)
            }
        };
        let op = if wired && op.starts_with("req ") {
            // the same request as one frame to a real Server: version, notify flag and query format become parameters
            let w: Vec<&str> = op.split(' ').collect();
            let q = if w[2] == "=" { w[1].to_string() } else { w[2].to_string() };
            format!("wire {} {} {} {} {} {} {}", *r.pick(&[1u8, 1, 1, 1, 0, 2, 255]), *r.pick(&[0u8, 0, 1]), *r.pick(&[1u16, 1, 1, 1, 0, 2, 999]), q, w[5], w[6], w[7])
        } else {
            op
        };
        let op = if !op.starts_with("req ") && !op.starts_with("wire ") && r.chance(1, 25) {
            let n = if thorough { *r.pick(&[1u32, 2, 7, 8, 9, 16, 17, 64, 65, 256, 1000]) } else { *r.pick(&[2u32, 7, 8, 9, 16, 17, 64, 65, 65, 256]) };
            format!("rep {} {}", n, op)
        } else {
            op
        };
        next(ops, op);
        if i % 25 == 24 {
            next(ops, "dump".into());
        }
    }
    next(ops, "dump".into());
}

/// One sequence on a document that really is `depth` levels deep: `/d0/d1/…/d(depth-1)` is an object holding
/// `target`, `keep` and a callable `run`.  Reads, writes, merges, registrations and calls at depth, depth+1 and
/// depth+2 – existing and non-existing targets, the ancestor, the sibling, and the escaped alias
/// `…/d(depth-2)/d(depth-1)~1target`, which addresses a member that does not exist.
fn gen_deep(r: &mut Rng, k: &mut u64, ops: &mut Vec<String>, depth: usize) {
    let mut next = |ops: &mut Vec<String>, s: String| {
        let (name, rest) = s.split_once(' ').map(|(a, b)| (a.to_string(), format!(" {b}"))).unwrap_or((s.clone(), String::new()));
        ops.push(format!("{} {}{}", name, *k, rest));
        *k += 1;
    };
    let chain = |n: usize| -> String { (0..n).map(|i| format!("/d{i}")).collect() };
    let c = chain(depth);
    let parent = chain(depth.saturating_sub(1));
    next(ops, "reset".into());
    next(ops, "router bare with \"/api\"".into());
    if r.chance(1, 2) {
        next(ops, OpR::SetRoot(json!({"other": [1, 2]})).words());
    }
    // install the chain in one registration (every missing ancestor is created) …
    next(ops, OpR::RegV(format!("{c}/target"), json!(1)).words());
    next(ops, OpR::RegV(format!("{c}/keep"), json!({"k": [0, 1]})).words());
    let mut body: Vec<OpR> = vec![
        OpR::Read(format!("{c}/target")),
        OpR::Disp(format!("{c}/keep/k/1"), None),
        OpR::Read(format!("{c}/missing")),
        OpR::Read(c.clone()),
        OpR::Read(parent.clone()),
        OpR::Disp(format!("{c}/target"), Some(json!(7))),
        OpR::Disp(format!("{c}/new"), Some(json!({"n": 8}))),
        OpR::Disp(format!("{c}/new/n"), Some(json!(9))),
        OpR::Disp(format!("{c}/missing/x"), Some(json!(9))),
        OpR::Disp(format!("{c}/keep/k/+1"), Some(json!("w"))),
        OpR::MergeAt(c.clone(), json!({"m": 1, "target": 2})),
        OpR::MergeAt(format!("{c}/nope"), json!({"m": 1})),
        OpR::RegF(format!("{c}/run"), 1, None),
        OpR::Disp(format!("{c}/run"), Some(json!({"x": 1}))),
        OpR::Disp(format!("{c}/run"), None),
        OpR::RegF(format!("{c}/keep/deeper/run"), 2, Some(9)),
        OpR::Disp(format!("{c}/keep/deeper/run"), Some(json!([1]))),
        OpR::RegV(format!("{c}/keep/deeper/v"), json!(3)),
        OpR::Read(format!("{c}/keep/deeper/v")),
    ];
    if depth >= 1 {
        // the escaped spelling of "last level + member" as ONE token: a different, non-existing member
        let last = format!("d{}", depth - 1);
        body.push(OpR::Read(format!("{parent}/{}", o_escape(&format!("{last}/target")))));
        body.push(OpR::Disp(format!("{parent}/{}", o_escape(&format!("{last}/run"))), Some(json!(5))));
        body.push(OpR::Read(format!("{c}/target")));
    }
    r.shuffle(&mut body[5..]);
    for op in body {
        next(ops, op.words());
    }
    next(ops, OpR::Read(format!("{c}/target")).words());
    next(ops, OpR::Read(format!("{c}/keep")).words());
    next(ops, "dump".into());
}

fn gen_jp(r: &mut Rng, k: &mut u64, ops: &mut Vec<String>, n: usize) {
    // the public JSON-pointer functions on documents that really are deep: existing and missing targets
    for d in [1usize, 16, 17, 63, 64, 65, 127, 128, 129, 255, 257, 1000] {
        for suffix in ["/target", "/k/1", "/k/+1", "/missing", "", "/k/2", "/target/x"] {
            ops.push(format!("jpd {} {} {}", *k, d, pword(suffix)));
            *k += 1;
        }
    }
    const PIECES: &[&str] = &["-", "a", "b", "~0", "~1", "~", "~2", "~01", "~10", "~~", "0", "1", "01", "+1", "", "é", "/", "//", "x"];
    for i in 0..n {
        let d = r.below(5);
        let mut p = String::new();
        for _ in 0..d {
            if r.chance(9, 10) {
                p.push('/');
            }
            for _ in 0..r.below(3) {
                p.push_str(r.pick(PIECES));
            }
        }
        if i % 2 == 0 {
            ops.push(format!("jp {} {}", *k, pword(&p)));
        } else {
            // make the pointer likely to hit: walk a generated value
            let v = gen_value(r, 3);
            let mut q = String::new();
            let mut cur = &v;
            loop {
                match cur {
                    Value::Object(m) if !m.is_empty() && r.chance(4, 5) => {
                        let keys: Vec<&String> = m.keys().collect();
                        let key = *r.pick(&keys);
                        q.push('/');
                        q.push_str(&o_escape(key));
                        cur = &m[key];
                    }
                    Value::Array(a) if !a.is_empty() && r.chance(4, 5) => {
                        let i = r.below(a.len() as u64 + 1) as usize;
                        q.push('/');
                        q.push_str(&match r.below(6) { 0 => format!("0{i}"), 1 => format!("+{i}"), 2 => "-".to_string(), _ => i.to_string() });
                        if i >= a.len() {
                            break;
                        }
                        cur = &a[i];
                    }
                    _ => break,
                }
            }
            let q = if r.chance(1, 4) { p } else { q };
            ops.push(format!("jpe {} {} {}", *k, render(&v), pword(&q)));
        }
        *k += 1;
    }
}

fn gen_scenario(r: &mut Rng, max_threads: u64, max_ops: u64) -> Scenario {
    // a tiny pool of related pointers so that the threads conflict
    let t1 = (*r.pick(&["a", "b", "x/y", "0", "~1"])).to_string();
    let t2 = (*r.pick(&["b", "c", "0", "m~n", "~1", "/"])).to_string();
    let p1 = format!("/{}", o_escape(&t1));
    let p2 = format!("{}/{}", p1, o_escape(&t2));
    let p3 = format!("{}/{}", p2, o_escape(r.pick(&["c", "0", "1"])));
    let pool = [p1.clone(), p2.clone(), p2.clone(), p3, String::new()];
    let val = |r: &mut Rng| match r.below(6) {
        0 => json!(r.below(5)),
        1 => json!({}),
        2 => json!([r.below(5), r.below(5)]),
        3 => json!({ t2.clone(): r.below(5) }),
        4 => json!({ t1.clone(): { t2.clone(): r.below(5) } }),
        _ => json!("s"),
    };
    let mut tag = 0u64;
    let mut op = |r: &mut Rng, setup: bool| -> OpR {
        let p = r.pick(&pool).clone();
        match r.below(if setup { 5 } else { 14 }) {
            0 | 1 => OpR::RegV(p, val(r)),
            2 => {
                tag += 1;
                OpR::RegF(if p.is_empty() { p2.clone() } else { p }, tag, if r.chance(1, 4) { Some(2_000_000) } else { None })
            }
            3 => OpR::SetRoot(val(r)),
            4 => {
                // several fields: a merge is ONE step, no reader may see only some of them
                let o = json!({ t2.clone(): r.below(5), "k1": r.below(5), "k2": r.below(5), "": r.below(5) });
                if r.chance(1, 3) { OpR::MergeRoot(o) } else { OpR::MergeAt(p, o) }
            }
            5 | 6 | 7 => OpR::Disp(p, None),
            8 => OpR::Read(p),
            _ => OpR::Disp(p, Some(val(r))),
        }
    };
    let setup = (0..r.below(4)).map(|_| op(r, true)).collect();
    let nt = r.range(2, max_threads);
    let threads = (0..nt).map(|_| (0..r.range(2, max_ops)).map(|_| op(r, false)).collect()).collect();
    Scenario { setup, threads }
}

/// a mutator (2–5 ops) beside 1–3 watchers, each hammering one read-only call on a pointer of the same small pool
fn gen_watch(r: &mut Rng) -> Watch {
    let sc = gen_scenario(r, 2, 4);
    let mut mutator: Vec<OpR> = sc.threads.concat().into_iter().filter(|op| !matches!(op, OpR::Read(_) | OpR::Disp(_, None))).collect();
    if mutator.is_empty() {
        mutator.push(OpR::MergeRoot(json!({"k1": 1, "k2": 2, "": 3})));
    }
    let mut ptrs: Vec<String> = vec![String::new()];
    for op in sc.setup.iter().chain(&mutator) {
        match op {
            OpR::RegV(p, _) | OpR::MergeAt(p, _) | OpR::Disp(p, _) | OpR::RegF(p, _, _) | OpR::Read(p) => ptrs.push(p.clone()),
            _ => {}
        }
    }
    let watchers = (0..r.range(1, 3)).map(|_| {
        let p = r.pick(&ptrs).clone();
        if r.chance(1, 2) { OpR::Read(p) } else { OpR::Disp(p, None) }
    }).collect();
    Watch { setup: sc.setup, mutator, watchers }
}

/// The order-sensitive pairs between the two lock regions of the body-bearing dispatch: a write whose
/// outcome depends on what `register_function`'s parent creation does to the tree.
fn race_scenarios() -> Vec<Scenario> {
    let d = |p: &str, v: Value| OpR::Disp(p.into(), Some(v));
    vec![
        Scenario { setup: vec![OpR::SetRoot(json!({"a":5}))], threads: vec![vec![d("/a/b", json!(1))], vec![OpR::RegF("/a/b".into(), 1, None)]] },
        Scenario { setup: vec![OpR::SetRoot(json!({"x":1}))], threads: vec![vec![d("/a/b", json!(1))], vec![OpR::RegF("/a/b".into(), 1, None)]] },
        Scenario { setup: vec![OpR::SetRoot(json!({"a":{}}))], threads: vec![vec![d("/a/b", json!(1))], vec![OpR::RegF("/a/b".into(), 1, None), OpR::Disp("/a".into(), None)]] },
    ]
}

// watchdog: a single registry call that does not return within 20 s (a lock held across a callable that
// calls back in) is reported as a failing input instead of hanging the run
static OP_STARTED: std::sync::atomic::AtomicU64 = std::sync::atomic::AtomicU64::new(0);
static CURRENT: Mutex<(String, Vec<String>)> = Mutex::new((String::new(), Vec::new()));

fn heartbeat() {
    OP_STARTED.store(now_ms(), Ordering::SeqCst);
}

fn now_ms() -> u64 {
    std::time::SystemTime::now().duration_since(std::time::UNIX_EPOCH).unwrap().as_millis() as u64
}

fn start_watchdog(dir: std::path::PathBuf, family: String) {
    std::thread::spawn(move || loop {
        std::thread::sleep(std::time::Duration::from_millis(500));
        let t0 = OP_STARTED.load(Ordering::SeqCst);
        let limit = 20_000;
        let _ = &family;
        if t0 != 0 && now_ms().saturating_sub(t0) > limit {
            let (line, mut trail) = CURRENT.lock().map(|g| g.clone()).unwrap_or_default();
            trail.push(line.clone());
            let sig = if line.starts_with("conc") || line.starts_with("watch") { "registry.conc.no_progress" } else { "registry.call.deadlock" };
            let v = json!({"sig": sig, "detail": format!("the registry did not answer within {} s: {}", limit / 1000, line.chars().take(400).collect::<String>()), "ops": trail});
            use std::io::Write as _;
            if let Ok(mut f) = std::fs::OpenOptions::new().append(true).open(dir.join("oracle.txt")) {
                let _ = writeln!(f, "{}", v);
            }
            std::process::exit(3);
        }
    });
}

/// (file, public entry points this family drives).  Anything else that is `pub fn` in these files of the tree under
/// test is reported (`not_driven` in stats.json, stderr): a new twin must not go unnoticed.
const DRIVEN: &[(&str, &[&str])] = &[
    ("registry.rs", &["code", "new", "set_root", "register_value", "merge_root", "merge_at", "register_function", "register_function_arc", "read_value", "dispatch", "dispatch_with_ctx", "decode_body"]),
    ("json_pointer.rs", &["parse", "evaluate"]),
];
/// server.rs has entry points of many properties; the registry mount is reached through these (all driven)
const DRIVEN_SERVER: &[&str] = &["with_registry", "register_registry", "get", "with_middleware", "new", "listen", "serve"];

fn entry_point_audit(out: &mut Out) -> Vec<String> {
    let repo = std::env::var("VERIF_REPO").unwrap_or_else(|_| "/repo".into());
    let mut missing = Vec::new();
    let names = |file: &str| -> Vec<String> {
        let text = std::fs::read_to_string(std::path::Path::new(&repo).join("src").join(file)).unwrap_or_default();
        let text = text.split("#[cfg(test)]").next().unwrap_or("").to_string();
        let mut v: Vec<String> = Vec::new();
        for line in text.lines() {
            let t = line.trim_start();
            for pre in ["pub async fn ", "pub fn ", "pub(crate) fn "] {
                if let Some(rest) = t.strip_prefix(pre) {
                    let n: String = rest.chars().take_while(|c| c.is_alphanumeric() || *c == '_').collect();
                    if !n.is_empty() && !v.contains(&n) {
                        v.push(n);
                    }
                }
            }
        }
        v
    };
    for (file, driven) in DRIVEN {
        let found = names(file);
        for n in &found {
            if !driven.contains(&n.as_str()) {
                missing.push(format!("{}::{}", file, n));
            }
        }
        out.add(&format!("entry_points.{}", file), found.len() as u64);
    }
    // in server.rs: anything whose name speaks of a registry
    for n in names("server.rs") {
        if n.contains("registr") && !DRIVEN_SERVER.contains(&n.as_str()) {
            missing.push(format!("server.rs::{}", n));
        }
    }
    out.extra.insert("not_driven".into(), json!(missing));
    missing
}

fn main() {
    let args = Args::parse();
    let family = args.extra.first().cloned().unwrap_or_else(|| "seq".into());
    if std::env::var("VERIF_LOUD").is_err() {
        quiet_panics();
    }
    let mut out = Out::new(&args.out);
    start_watchdog(args.out.clone(), family.clone());
    let missing = entry_point_audit(&mut out);
    if !missing.is_empty() {
        eprintln!("registry: public entry points NOT DRIVEN by this family (add them to DRIVEN or say why not): {:?}", missing);
    }
    if args.has("--check-entry-points") {
        std::process::exit(if missing.is_empty() { 0 } else { 1 });
    }
    let mut rng = Rng::new(args.seed);
    let thorough = args.thorough();
    let ops: Vec<String> = if let Some(ops) = args.replay_ops() {
        ops
    } else if family == "seq" {
        out.rule = "random op sequences (5..100 ops after reset+router) of register_value / register_function (echoing or failing callables) / merge_at / merge_root / set_root / read_value / dispatch read / dispatch with body / requests through a Router::with_registry mount (6 prefix sets; json, beve, utf8, raw, broken bodies), pointers drawn from a per-sequence pool grown by child/parent steps over tokens {a,b,c,'',0,1,01,+1,++1,-,2,00,+0,x/y,m~n,~,/,é,'k k',2^64-1,2^64,-1,+,1e0,~1,~0,/0,/1,~/,a~1b,/~,~01 (escaped: ~01,~00,~10,~11,~0~1,a~01b,~1~0,~001)} plus root forms and malformed pointers (no slash, ~2, trailing ~); parse_json_pointer / eval_json_pointer on well-formed and lenient inputs; exhaustive enumeration of all op sequences over 3 pointers x 3 values (27 ops) a depth ladder (documents 1..1000, thorough 4096, levels deep: reads, writes, merges, registrations, calls at depth, depth+1, depth+2, the sibling, the ancestor and the escaped alias of the last two tokens); in domains d1 (nesting), d2 (escapes + root), d3 (array indices), d4 (keys `~1` and `/`: pointers /~01, /~1, /~01/~10), d5 (index spellings ++1, +01, -0). Distinct by op line; non-trivial = the operation succeeded (Ok result)".into();
        let mut ops = Vec::new();
        let mut k = 0u64;
        // depth ladder: documents that really are that deep, around every power of two a parser might cap at
        let mut depths: Vec<usize> = vec![1, 2, 15, 16, 17, 31, 32, 33, 62, 63, 64, 65, 66, 127, 128, 129, 255, 256, 257, 1000];
        if thorough {
            depths.extend([511, 512, 513, 1023, 1024, 1025, 4096]);
        }
        for d in depths {
            gen_deep(&mut rng, &mut k, &mut ops, d);
        }
        let nseq = if thorough { 4000 } else { 400 };
        for _ in 0..nseq {
            gen_sequence(&mut rng, &mut k, &mut ops, 100, thorough);
        }
        gen_jp(&mut rng, &mut k, &mut ops, if thorough { 40000 } else { 4000 });
        let len = if thorough { 5 } else { 4 };
        for (d, l) in [("d1", len), ("d2", len), ("d3", len - 1), ("d4", len - 1), ("d5", len - 1)] {
            ops.push(format!("enum {} {} {}", k, d, l));
            k += 1;
        }
        ops
    } else {
        out.rule = "concurrent histories on one real Registry: 2..4 threads x 2..4 ops (register_value, register_function, set_root, merge_at, read, dispatch read/write/call) over 3 nested pointers + root, threads released together by a spin barrier, each scenario run many times and every distinct outcome checked; plus targeted two-thread race loops on the pairs that are order-sensitive between the two lock regions of the body-bearing dispatch. Distinct by scenario+outcome; non-trivial = the scenario showed more than one outcome".into();
        let mut ops = Vec::new();
        let mut k = 0u64;
        let (nsc, iters, race) = if thorough { (1200, 200, 500_000) } else { (250, 40, 100_000) };
        for sc in race_scenarios() {
            ops.push(format!("conc {} {} {}", k, race, sc.words()));
            k += 1;
        }
        for _ in 0..nsc {
            let sc = gen_scenario(&mut rng, 4, 4);
            ops.push(format!("conc {} {} {}", k, iters, sc.words()));
            k += 1;
        }
        // observers beside a mutator: merges of several fields, root replacement, registrations, writes
        for _ in 0..nsc / 3 {
            let wt = gen_watch(&mut rng);
            ops.push(format!("watch {} {} {}", k, iters, wt.words()));
            k += 1;
        }
        ops
    };
    let mut ctx = Ctx { sys: Sys::new(), prefixes: vec![], router: None, trail: vec![], pending_lines: vec![], wire: None };
    let mut wedged = false;
    for line in ops {
        let line = match line.split_once(" => ") {
            Some((a, _)) => a.to_string(),
            None => line,
        };
        out.begin(&line);
        *CURRENT.lock().unwrap() = (line.clone(), ctx.trail.clone());
        let name = line.split(' ').next().unwrap_or("");
        // the watchdog fires when nothing has made progress for 20 s: single calls, or one iteration / node of the composite
        // lines (race loop, watch, enumeration), which report a heartbeat each
        heartbeat();
        match name {
            "conc" => exec_conc(&mut out, &line),
            "watch" => exec_watch(&mut out, &line),
            "enum" => {
                let obs = exec_enum(&mut out, &line);
                out.case(&line, &obs, true);
            }
            "nregv" => {} // derived line of an earlier run (a re-entrant callable's nested call): re-derived, not executed
            _ if wedged && name != "reset" => {} // the rest of a sequence whose registry stopped answering
            _ => {
                wedged = false;
                // the harness's own observation calls (tree dump, probes) go through the public API too: if they panic,
                // the registry has stopped answering (e.g. it treats a lock poisoned by a panicking Drop as fatal)
                match catch(|| exec_seq(&mut out, &mut ctx, &line)) {
                    Ok(Some((obs, nt))) => out.case(&line, &obs, nt),
                    Ok(None) => out.config(&line),
                    Err(msg) => {
                        wedged = true;
                        let mut trail = ctx.trail.clone();
                        if trail.last() != Some(&line) {
                            trail.push(line.clone());
                        }
                        out.oracle_fail("registry.wedged", &format!("the registry panicked on an ordinary call after an earlier panic inside an API call: {}", msg), &trail);
                        out.case(&line, &format!("{} wedged", line.split(' ').nth(1).unwrap_or("?")), false);
                    }
                }
                for (l, o) in std::mem::take(&mut ctx.pending_lines) {
                    ctx.trail.push(l.clone());
                    out.case(&l, &o, true);
                }
            }
        }
        OP_STARTED.store(0, Ordering::SeqCst);
        if out.oracle_failures >= 12 {
            break; // enough failing inputs: report quickly
        }
    }
    out.finish();
}
