//! Family `fleet` (C19): `Fleet` / `AsyncFleet` retry loops against scripted fake nodes.
//! Usage: fam_fleet --tier T --seed N --out DIR [--replay FILE]
//!
//! A *node* is a TCP endpoint on a loopback address private to this process (127.x.y.1) that follows a script of behaviours, one per *contact*
//! (a connect attempt, or a request arriving on an open connection):
//!   refused   the port has no listener (a bound, non-listening SO_REUSEPORT placeholder keeps the port)
//!   atc       the request is read, the connection is closed without a reply            (accept-then-close)
//!   idle      the request is answered, then the node half-closes and waits for the client's FIN,
//!             so the client has seen the close before anything else happens           (closed while idle)
//!   silent    the request is read, nothing is sent
//!   malformed 48 bytes that are not a REPE header are sent back
//!   apperr    a well-formed reply with error code 4096
//!   success   a well-formed JSON reply
//! After the script the node is healthy (`success`).  Refused connects are counted by a packet
//! socket on `lo` that sees the kernel's RST|ACK (seq 0) answers; without CAP_NET_RAW every case
//! that contains `refused` is skipped and counted.
//!
//! Everything that depends on scheduling is one-sided: a case whose physical realisation deviated
//! from its script (late listener, late reply, kernel chose another error kind, lost packet,
//! watchdog) is counted under `skipped.*` and never reported.
use repe::{AsyncFleet, Fleet, FleetOptions, NodeConfig, RepeError, RetryPolicy};
use repe_verif_harness::frames::{RawFrame, RawHeader};
use repe_verif_harness::*;
use std::collections::HashMap;
use std::io::{Read, Write};
use std::net::{Shutdown, TcpListener, TcpStream};
use std::os::fd::{AsRawFd, FromRawFd, OwnedFd, RawFd};
use std::sync::atomic::{AtomicU64, AtomicUsize, Ordering};
use std::sync::{Arc, Condvar, Mutex, Weak};
use std::time::{Duration, Instant};

const T_NODE: Duration = Duration::from_millis(80); // per-node call timeout
const DELAY: Duration = Duration::from_millis(15); // retry delay
const T_BCAST: Duration = Duration::from_millis(3000);
const WATCHDOG: Duration = Duration::from_secs(10);
const HEALTHY_CALLS: usize = 3;
const HEALTH_TIMEOUT: Duration = Duration::from_secs(5); // the fleets' DEFAULT_HEALTH_TIMEOUT
/// Cases whose oracle failure was confirmed. After this many the remaining cases are not run: the
/// verdict is settled, and a defect that makes every case slow must not make the run endless.
static CONFIRMED: AtomicU64 = AtomicU64::new(0);
const ENOUGH_CONFIRMED: u64 = 12;
/// A single call that takes longer than this (plus the retry delays it is entitled to) is far beyond
/// what any generated script can cost (at most 3 silent attempts of 120 ms and stalled fragments).
const SLOW_CALL: Duration = Duration::from_millis(1500);
const IDLE_WATCHDOG: Duration = Duration::from_secs(2);
/// Watchdog expiries so far. When the implementation's socket behaviour systematically differs from
/// what the scripts engineer (e.g. a client that no longer closes its socket after EOF), every case
/// would sit in a watchdog: after a handful of expiries the watchdogs shrink and skipped cases are
/// not tried again, so the run ends in bounded time and reports the skipped share.
static EXPIRIES: AtomicU64 = AtomicU64::new(0);
const MANY_EXPIRIES: u64 = 24;

fn watchdog(full: Duration) -> Duration {
    if EXPIRIES.load(Ordering::SeqCst) > MANY_EXPIRIES { Duration::from_millis(250) } else { full }
}

// ------------------------------------------------------------------------------------------
// behaviours
// ------------------------------------------------------------------------------------------
/// Parameters the property does not depend on, varied per case (one word `p=a.b.c…` of the op line, so
/// a replay is exact; the model never sees it — its names and tags are the tokens of the op line, which
/// the harness maps injectively to the strings actually used).
#[derive(Clone, Copy, Default, Debug, PartialEq, Eq)]
struct Pv {
    nm: u8, // node-name style
    tg: u8, // tag style
    me: u8, // method / health endpoint style
    pa: u8, // params of call_json / broadcast_json
    to: u8, // node timeout
    dl: u8, // retry delay
    dt: u8, // FleetOptions.default_timeout
    by: u8, // a second, healthy node in the fleet of a single-node case: 0 none, 1 present, 2 present and connected
    cl: u8, // which handle operations go through: 0 the fleet, 1 alternately a held clone, 2 a fresh clone each
    mf: u8, // which malformed reply the node sends
    op: u8, // constructor: 0 `with_options`, 1 `new` (default options: 3 attempts, 1 s delay; only with max 3)
    ob: u8, // observer threads sweeping the read-only entry points while the case runs (0–3)
    fr: u8, // how the node's replies arrive: 0 whole, 1 byte by byte, 2 in 2–3 pieces, 3 the same with stalls, 4 cut at 48 and after the query
    ls: u8, // 1: an attempt the node was silent on is answered after all, once the timeout has passed
    rs: u8, // size of the success reply's body: 0 small, 1..6 = 4095, 4096, 4097, 65535, 65537, 1 MiB
    rt: u8, // async cases: 1 = a runtime of its own with one worker thread and one blocking thread
    bb: u8, // which undecodable body a `badbody` reply carries
    st: u8, // replies stall in mid-frame for 0 / 300 ms / 600 ms / 1.1 s / 2.5 s / 5.5 s / 11 s (the node timeout is then twice that + 2 s)
}

const PV_RANGES: [u8; 18] = [6, 6, 4, 5, 3, 4, 3, 3, 3, 3, 2, 4, 5, 2, 7, 2, 8, 7];

impl Pv {
    fn fields(&self) -> [u8; 18] {
        [self.nm, self.tg, self.me, self.pa, self.to, self.dl, self.dt, self.by, self.cl, self.mf, self.op, self.ob, self.fr, self.ls, self.rs, self.rt, self.bb, self.st]
    }
    fn from_fields(f: [u8; 18]) -> Pv {
        Pv { nm: f[0], tg: f[1], me: f[2], pa: f[3], to: f[4], dl: f[5], dt: f[6], by: f[7], cl: f[8], mf: f[9], op: f[10], ob: f[11], fr: f[12], ls: f[13], rs: f[14], rt: f[15], bb: f[16], st: f[17] }
    }
    fn parse(w: &str) -> Option<Pv> {
        let v: Vec<u8> = w.strip_prefix("p=")?.split('.').map(|x| x.parse::<u8>().ok()).collect::<Option<Vec<u8>>>()?;
        if !(10..=18).contains(&v.len()) || v.iter().zip(PV_RANGES).any(|(x, r)| *x >= r) {
            return None;
        }
        let mut f = [0u8; 18];
        f[..v.len()].copy_from_slice(&v);
        Some(Pv::from_fields(f))
    }
    fn show(&self) -> String {
        format!("p={}", self.fields().iter().map(|x| x.to_string()).collect::<Vec<_>>().join("."))
    }
    /// Each field: the ordinary value half of the time, otherwise any of its values.
    fn random(rng: &mut Rng) -> Pv {
        let mut f = [0u8; 18];
        for (i, (x, r)) in f.iter_mut().zip(PV_RANGES).enumerate() {
            if (i < 10 || (12..17).contains(&i)) && rng.chance(1, 2) {
                *x = rng.below(r as u64) as u8;
            }
        }
        // the 1 MiB reply in one case in sixteen of those that vary the size
        if f[14] == 6 && !rng.chance(1, 16) {
            f[14] = 5;
        }
        // observers in one case in eight (they cost CPU that the timing of the other cases needs)
        if rng.chance(1, 8) {
            f[11] = 1 + rng.below(3) as u8;
        }
        Pv::from_fields(f)
    }
    /// A refused connect is counted when the kernel's RST has been seen, and only then does the node go
    /// on with its script: a fleet that reconnects with no delay at all can be refused a second time by
    /// the same script element. Scripts with `refused` therefore never get the zero delay.
    fn random_for(rng: &mut Rng, seq: &[Beh]) -> Pv {
        let mut p = Pv::random(rng);
        if p.dl == 1 && seq.contains(&Beh::Refused) {
            p.dl = 2;
        }
        p
    }
    fn stall(&self) -> Duration {
        Duration::from_millis([0, 300, 600, 1100, 2500, 5500, 11000][self.st as usize])
    }
    fn t_node(&self) -> Duration {
        if self.st > 0 {
            return self.stall() * 2 + Duration::from_secs(2);
        }
        Duration::from_millis([80, 60, 120][self.to as usize])
    }
    fn delay(&self) -> Duration {
        if self.op == 1 {
            return Duration::from_secs(1); // DEFAULT_RETRY_DELAY
        }
        [Duration::from_millis(15), Duration::ZERO, Duration::from_millis(1), Duration::from_millis(40)][self.dl as usize]
    }
    /// `FleetOptions.default_timeout`: nothing a correct fleet does depends on it (the node's own timeout
    /// governs), so it is either far longer or far shorter than every node timeout.
    fn default_timeout(&self) -> Duration {
        [Duration::from_secs(20), Duration::from_millis(1), Duration::from_millis(300)][self.dt as usize]
    }
    fn index_of(tok: &str) -> usize {
        tok.trim_start_matches(|c: char| !c.is_ascii_digit()).parse().unwrap_or(0)
    }
    fn name(&self, tok: &str) -> String {
        match self.nm {
            0 => tok.to_string(),
            1 => format!("узел·{tok}·節點"),
            2 => format!("{tok}{}", "x".repeat(300)),
            3 => format!("{tok} \"q\" \\ /{tok}\n\t"),
            4 => "n".repeat(Pv::index_of(tok) + 1 + usize::from(tok == "by") * 9),
            _ => {
                if Pv::index_of(tok) == 0 && tok != "by" {
                    "<unknown>".to_string()
                } else {
                    tok.to_string()
                }
            }
        }
    }
    fn tag(&self, t: &str) -> String {
        match (self.tg, t) {
            (0, _) => t.to_string(),
            (1, _) => format!("метка-{t}-標"),
            (2, "a") => "tag".into(),
            (2, "b") => "Tag".into(),
            (2, "c") => "TAG".into(),
            (2, _) => format!("tAG{t}"),
            (3, "a") => "x".into(),
            (3, "b") => "xx".into(),
            (3, "c") => "x ".into(),
            (3, _) => format!("xxx{t}"),
            (4, "a") => "".into(),
            (4, "b") => " ".into(),
            (4, "c") => "\t".into(),
            (4, _) => format!("\n{t}"),
            (_, _) => format!("{}{t}", "t".repeat(1000)),
        }
    }
    fn method(&self, base: &str) -> String {
        match self.me {
            0 => base.to_string(),
            1 => format!("{base}/путь/✓"),
            2 => format!("{base}/{}", "y".repeat(2000)),
            _ => format!("{base}/a b\"c"),
        }
    }
    fn params(&self) -> serde_json::Value {
        match self.pa {
            0 => serde_json::json!({"x": 1}),
            1 => serde_json::Value::Null,
            2 => serde_json::json!({"big": "z".repeat(65536)}),
            3 => serde_json::json!({"ключ": ["值", 1.5, null, {"": []}]}),
            _ => serde_json::json!([]),
        }
    }
}

#[derive(Clone, Copy, PartialEq, Eq, Debug, Hash)]
enum Beh {
    Refused,
    Atc,
    Idle,
    Silent,
    Malformed,
    AppErr,
    Success,
    /// a well-framed reply, error code 0, whose body the entry point cannot decode (not one of the seven
    /// outcomes of the property's alphabet that are enumerated exhaustively: a kind of malformed reply
    /// that leaves the connection sound; generated in targeted cases)
    BadBody,
}
const ALL_BEH: [Beh; 7] = [Beh::Refused, Beh::Atc, Beh::Idle, Beh::Silent, Beh::Malformed, Beh::AppErr, Beh::Success];

impl Beh {
    fn name(self) -> &'static str {
        match self {
            Beh::Refused => "refused",
            Beh::Atc => "atc",
            Beh::Idle => "idle",
            Beh::Silent => "silent",
            Beh::Malformed => "malformed",
            Beh::AppErr => "apperr",
            Beh::Success => "success",
            Beh::BadBody => "badbody",
        }
    }
    fn parse(s: &str) -> Option<Beh> {
        if s == "badbody" {
            return Some(Beh::BadBody);
        }
        ALL_BEH.iter().copied().find(|b| b.name() == s)
    }
    fn is_reply(self) -> bool {
        matches!(self, Beh::Success | Beh::Idle | Beh::AppErr | Beh::BadBody)
    }
}

fn parse_seq(s: &str) -> Option<Vec<Beh>> {
    if s == "-" {
        return Some(vec![]);
    }
    s.split(',').filter(|x| !x.is_empty()).map(Beh::parse).collect()
}

fn show_seq(seq: &[Beh]) -> String {
    if seq.is_empty() { "-".into() } else { seq.iter().map(|b| b.name()).collect::<Vec<_>>().join(",") }
}

// ------------------------------------------------------------------------------------------
// raw sockets
// ------------------------------------------------------------------------------------------
fn cvt(r: i32) -> std::io::Result<i32> {
    if r < 0 { Err(std::io::Error::last_os_error()) } else { Ok(r) }
}

/// Loopback address private to this process: every address in 127.0.0.0/8 is local on Linux `lo`.
/// Sockets bound to it are invisible to whoever uses 127.0.0.1 (other tests on this machine that
/// probe "unused" ports, connect to ports of servers they have just stopped, …), and a refused
/// connect is attributed to a node only if the RST comes from this address.
fn node_ip() -> [u8; 4] {
    static IP: std::sync::OnceLock<[u8; 4]> = std::sync::OnceLock::new();
    *IP.get_or_init(|| {
        let pid = std::process::id();
        let ip = [127, 100 + (pid % 100) as u8, 1 + ((pid / 100) % 250) as u8, 1];
        // usable? (a loopback configured as 127.0.0.1/32 would refuse the bind)
        let addr = std::net::SocketAddr::from((ip, 0));
        let ok = TcpListener::bind(addr).and_then(|l| TcpStream::connect(l.local_addr()?)).is_ok();
        if ok { ip } else { [127, 0, 0, 1] }
    })
}

/// False when the private address could not be used: the nodes then share 127.0.0.1 with every
/// other program on the machine, a refused connect can no longer be attributed, and every case
/// that needs the sniffer is skipped.
fn private_ip() -> bool {
    node_ip() != [127, 0, 0, 1]
}

fn node_host() -> String {
    let a = node_ip();
    format!("{}.{}.{}.{}", a[0], a[1], a[2], a[3])
}

fn loopback_addr(port: u16) -> libc::sockaddr_in {
    libc::sockaddr_in {
        sin_family: libc::AF_INET as libc::sa_family_t,
        sin_port: port.to_be(),
        sin_addr: libc::in_addr { s_addr: u32::from_ne_bytes(node_ip()) },
        sin_zero: [0; 8],
    }
}

fn local_port(fd: RawFd) -> std::io::Result<u16> {
    let mut a: libc::sockaddr_in = unsafe { std::mem::zeroed() };
    let mut len = std::mem::size_of::<libc::sockaddr_in>() as libc::socklen_t;
    cvt(unsafe { libc::getsockname(fd, &mut a as *mut _ as *mut libc::sockaddr, &mut len) })?;
    Ok(u16::from_be(a.sin_port))
}

/// TCP socket bound to `node_ip()`:`port` (0 = any); `reuseport` lets the placeholder and the listener share it.
fn bound_socket(port: u16, reuseport: bool) -> std::io::Result<(OwnedFd, u16)> {
    unsafe {
        let fd = cvt(libc::socket(libc::AF_INET, libc::SOCK_STREAM | libc::SOCK_CLOEXEC, 0))?;
        let fd = OwnedFd::from_raw_fd(fd);
        if reuseport {
            let one: libc::c_int = 1;
            cvt(libc::setsockopt(fd.as_raw_fd(), libc::SOL_SOCKET, libc::SO_REUSEPORT, &one as *const _ as *const libc::c_void, 4))?;
        }
        let a = loopback_addr(port);
        cvt(libc::bind(fd.as_raw_fd(), &a as *const _ as *const libc::sockaddr, std::mem::size_of::<libc::sockaddr_in>() as u32))?;
        let p = local_port(fd.as_raw_fd())?;
        Ok((fd, p))
    }
}

fn poll_in(fd: RawFd, ms: i32) -> bool {
    let mut p = libc::pollfd { fd, events: libc::POLLIN, revents: 0 };
    let r = unsafe { libc::poll(&mut p, 1, ms) };
    r > 0 && p.revents != 0
}

fn unread_bytes(fd: RawFd) -> i32 {
    let mut n: libc::c_int = 0;
    unsafe { libc::ioctl(fd, libc::FIONREAD, &mut n) };
    n
}

// ------------------------------------------------------------------------------------------
// sniffer: counts refused connects (RST|ACK with seq 0) per source port on `lo`
// ------------------------------------------------------------------------------------------
struct Sniffer {
    fd: OwnedFd,
    registry: Mutex<HashMap<u16, Weak<NodeShared>>>,
    /// per worker thread: a port that always refuses, and how many refusals of it have been sniffed
    barriers: Mutex<HashMap<u16, u64>>,
    cv: Condvar,
    drops: AtomicU64,
    /// count the copy taken when the kernel *transmits* the RST (PACKET_OUTGOING): it is queued to
    /// this socket before the client's socket can see the RST, hence before `connect` returns
    outgoing: bool,
    /// test switches: FLEET_TEST_DROP_RST=n loses every n-th RST (markers included), FLEET_TEST_DROP_NODE_RST=n
    /// every n-th but never a marker, FLEET_TEST_DELAY_RST_US=d delays each; FLEET_TEST_NO_SNIFFER=1
    test_drop_every: u64,
    test_drop_node_every: u64,
    test_delay: Duration,
    seen: AtomicU64,
    retired: std::sync::atomic::AtomicBool,
}

fn env_u64(name: &str) -> u64 {
    std::env::var(name).ok().and_then(|v| v.parse().ok()).unwrap_or(0)
}

struct BarrierHandle {
    _placeholder: OwnedFd,
    port: u16,
    issued: u64,
}

thread_local! {
    static BARRIER: std::cell::RefCell<Option<BarrierHandle>> = const { std::cell::RefCell::new(None) };
}

#[repr(C)]
struct TpacketStats {
    packets: u32,
    drops: u32,
}

impl Sniffer {
    fn start() -> Option<Arc<Sniffer>> {
        if env_u64("FLEET_TEST_NO_SNIFFER") != 0 || !private_ip() {
            return None;
        }
        // outgoing copies first; a kernel that does not show them falls back to the received copies
        Sniffer::start_mode(true).or_else(|| Sniffer::start_mode(false))
    }

    fn start_mode(outgoing: bool) -> Option<Arc<Sniffer>> {
        unsafe {
            let proto = (libc::ETH_P_ALL as u16).to_be();
            let fd = libc::socket(libc::AF_PACKET, libc::SOCK_DGRAM | libc::SOCK_CLOEXEC, proto as i32);
            if fd < 0 {
                return None;
            }
            let fd = OwnedFd::from_raw_fd(fd);
            let ifindex = libc::if_nametoindex(b"lo\0".as_ptr() as *const libc::c_char);
            if ifindex == 0 {
                return None;
            }
            // TCP, not a fragment, RST set
            let prog: [libc::sock_filter; 9] = [
                libc::sock_filter { code: 0x30, jt: 0, jf: 0, k: 9 },
                libc::sock_filter { code: 0x15, jt: 0, jf: 6, k: 6 },
                libc::sock_filter { code: 0x28, jt: 0, jf: 0, k: 6 },
                libc::sock_filter { code: 0x45, jt: 4, jf: 0, k: 0x1fff },
                libc::sock_filter { code: 0xb1, jt: 0, jf: 0, k: 0 },
                libc::sock_filter { code: 0x50, jt: 0, jf: 0, k: 13 },
                libc::sock_filter { code: 0x45, jt: 0, jf: 1, k: 0x04 },
                libc::sock_filter { code: 0x06, jt: 0, jf: 0, k: 0xffff },
                libc::sock_filter { code: 0x06, jt: 0, jf: 0, k: 0 },
            ];
            let fprog = libc::sock_fprog { len: prog.len() as u16, filter: prog.as_ptr() as *mut libc::sock_filter };
            libc::setsockopt(fd.as_raw_fd(), libc::SOL_SOCKET, libc::SO_ATTACH_FILTER, &fprog as *const _ as *const libc::c_void, std::mem::size_of::<libc::sock_fprog>() as u32);
            let big: libc::c_int = 16 << 20;
            libc::setsockopt(fd.as_raw_fd(), libc::SOL_SOCKET, libc::SO_RCVBUFFORCE, &big as *const _ as *const libc::c_void, 4);
            let mut sll: libc::sockaddr_ll = std::mem::zeroed();
            sll.sll_family = libc::AF_PACKET as u16;
            sll.sll_protocol = proto;
            sll.sll_ifindex = ifindex as i32;
            if libc::bind(fd.as_raw_fd(), &sll as *const _ as *const libc::sockaddr, std::mem::size_of::<libc::sockaddr_ll>() as u32) < 0 {
                return None;
            }
            let s = Arc::new(Sniffer {
                fd,
                registry: Mutex::new(HashMap::new()),
                barriers: Mutex::new(HashMap::new()),
                cv: Condvar::new(),
                drops: AtomicU64::new(0),
                outgoing,
                test_drop_every: env_u64("FLEET_TEST_DROP_RST"),
                test_drop_node_every: env_u64("FLEET_TEST_DROP_NODE_RST"),
                test_delay: Duration::from_micros(env_u64("FLEET_TEST_DELAY_RST_US")),
                seen: AtomicU64::new(0),
                retired: std::sync::atomic::AtomicBool::new(false),
            });
            let s2 = s.clone();
            std::thread::Builder::new().name("sniffer".into()).spawn(move || s2.run()).ok()?;
            // self-test: three barriers must come through (tolerating the test switch that loses packets)
            let ok = (0..6).filter(|_| s.barrier_within(Duration::from_millis(500)).is_ok()).count() >= 3;
            if !ok {
                s.retired.store(true, Ordering::SeqCst);
                return None;
            }
            Some(s)
        }
    }

    fn run(&self) {
        let mut buf = vec![0u8; 65536];
        let ip = node_ip();
        loop {
            if self.retired.load(Ordering::SeqCst) {
                return;
            }
            let mut from: libc::sockaddr_ll = unsafe { std::mem::zeroed() };
            let mut flen = std::mem::size_of::<libc::sockaddr_ll>() as libc::socklen_t;
            let n = unsafe {
                libc::recvfrom(self.fd.as_raw_fd(), buf.as_mut_ptr() as *mut libc::c_void, buf.len(), 0, &mut from as *mut _ as *mut libc::sockaddr, &mut flen)
            };
            if n < 0 {
                let e = std::io::Error::last_os_error();
                if e.kind() == std::io::ErrorKind::Interrupted {
                    continue;
                }
                return;
            }
            let now = Instant::now();
            let b = &buf[..n as usize];
            let want_type = if self.outgoing { 4 /* PACKET_OUTGOING */ } else { 0 /* PACKET_HOST */ };
            if from.sll_pkttype != want_type || u16::from_be(from.sll_protocol) != libc::ETH_P_IP as u16 {
                continue;
            }
            if b.len() < 20 || b[0] >> 4 != 4 || b[9] != 6 || b[12..16] != ip {
                continue;
            }
            let ihl = ((b[0] & 0x0f) as usize) * 4;
            if b.len() < ihl + 14 {
                continue;
            }
            let t = &b[ihl..];
            let sport = u16::from_be_bytes([t[0], t[1]]);
            let seq = u32::from_be_bytes([t[4], t[5], t[6], t[7]]);
            let flags = t[13];
            if flags & 0x04 == 0 || flags & 0x10 == 0 || seq != 0 {
                continue; // not the answer to a SYN on a closed port
            }
            let k = self.seen.fetch_add(1, Ordering::SeqCst) + 1;
            if self.test_drop_every > 0 && k % self.test_drop_every == 0 {
                continue;
            }
            if !self.test_delay.is_zero() {
                std::thread::sleep(self.test_delay);
            }
            {
                let mut b = self.barriers.lock().unwrap();
                if let Some(c) = b.get_mut(&sport) {
                    *c += 1;
                    drop(b);
                    self.cv.notify_all();
                    continue;
                }
            }
            let node = self.registry.lock().unwrap().get(&sport).and_then(|w| w.upgrade());
            if let Some(node) = node {
                if self.test_drop_node_every > 0 && k % self.test_drop_node_every == 0 {
                    continue;
                }
                node.on_refusal(now);
            }
        }
    }

    /// Everything the kernel emitted on `lo` before this call has been processed when it returns Ok:
    /// the calling thread provokes one more refusal on a port of its own and waits until the sniffer
    /// (one thread, packets in order) has counted it.
    fn barrier(&self) -> Result<(), String> {
        self.barrier_within(watchdog(WATCHDOG))
    }

    fn barrier_within(&self, patience: Duration) -> Result<(), String> {
        BARRIER.with(|cell| {
            let mut cell = cell.borrow_mut();
            if cell.is_none() {
                let (ph, port) = bound_socket(0, true).map_err(|e| format!("barrier_bind:{e}"))?;
                self.barriers.lock().unwrap().insert(port, 0);
                *cell = Some(BarrierHandle { _placeholder: ph, port, issued: 0 });
            }
            let h = cell.as_mut().unwrap();
            let port = h.port;
            // a marker that does not arrive retires this thread's port: a late marker must not
            // satisfy a later barrier
            let retire = |cell: &mut Option<BarrierHandle>| {
                self.barriers.lock().unwrap().remove(&port);
                *cell = None;
            };
            match TcpStream::connect((node_host().as_str(), h.port)) {
                Ok(_) => {
                    retire(&mut cell);
                    return Err("barrier_connected".into());
                }
                Err(e) if e.kind() == std::io::ErrorKind::ConnectionRefused => {}
                Err(e) => {
                    let r = format!("barrier_errno_{}", e.raw_os_error().unwrap_or(0));
                    retire(&mut cell);
                    return Err(r);
                }
            }
            h.issued += 1;
            let issued = h.issued;
            let deadline = Instant::now() + patience;
            let mut m = self.barriers.lock().unwrap();
            loop {
                if m.get(&port).copied().unwrap_or(0) >= issued {
                    return Ok(());
                }
                let now = Instant::now();
                if now >= deadline {
                    drop(m);
                    EXPIRIES.fetch_add(1, Ordering::SeqCst);
                    retire(&mut cell);
                    return Err("barrier_timeout".into());
                }
                m = self.cv.wait_timeout(m, deadline - now).unwrap().0;
            }
        })
    }

    fn total_drops(&self) -> u64 {
        let mut st = TpacketStats { packets: 0, drops: 0 };
        let mut len = std::mem::size_of::<TpacketStats>() as libc::socklen_t;
        let r = unsafe { libc::getsockopt(self.fd.as_raw_fd(), 263 /* SOL_PACKET */, 6 /* PACKET_STATISTICS */, &mut st as *mut _ as *mut libc::c_void, &mut len) };
        if r == 0 {
            self.drops.fetch_add(st.drops as u64, Ordering::SeqCst);
        }
        self.drops.load(Ordering::SeqCst)
    }
}

// ------------------------------------------------------------------------------------------
// scripted node
// ------------------------------------------------------------------------------------------
/// Ports owned by live nodes of this process (two SO_REUSEPORT sockets of one user may share a port;
/// two nodes never must).
static PORTS: Mutex<Option<HashMap<u16, u64>>> = Mutex::new(None);
static PORT_COLLISIONS: AtomicU64 = AtomicU64::new(0);
static NODE_IDS: AtomicU64 = AtomicU64::new(1);

fn claim_port(port: u16, id: u64) -> bool {
    let mut g = PORTS.lock().unwrap();
    let m = g.get_or_insert_with(HashMap::new);
    if m.contains_key(&port) {
        PORT_COLLISIONS.fetch_add(1, Ordering::SeqCst);
        return false;
    }
    m.insert(port, id);
    true
}

fn release_port(port: u16, id: u64) {
    let mut g = PORTS.lock().unwrap();
    if let Some(m) = g.as_mut() {
        if m.get(&port) == Some(&id) {
            m.remove(&port);
        }
    }
}
#[derive(Clone, Copy, PartialEq, Eq, Debug)]
enum Via {
    Connect,
    Request,
}

#[derive(Clone, Copy, Debug)]
struct Contact {
    beh: Beh,
    via: Via,
    t: Instant,
    conn: u64,
}

struct NodeSt {
    script: Vec<Beh>,
    p: usize,
    healthy: bool,
    log: Vec<Contact>,
    desync: bool,
    trouble: Option<String>,
    token: Vec<u8>,
    idle_pending: usize,
    busy: usize,
    accept_busy: bool,
    conns: Vec<(u64, RawFd)>,
    next_conn: u64,
    listener: Option<TcpListener>,
    listen_gen: u64,
    stop: bool,
}

struct NodeShared {
    port: u16,
    id: u64,
    /// error code of the `apperr` replies of this node (4096 application, 7 Timeout, 8 ResourceExhausted,
    /// 6 MethodNotFound, 9 InternalError, 5 ParseError, 1 VersionMismatch, 2 InvalidHeader)
    app_code: AtomicU64,
    /// which malformed reply the node sends (0: 48 bytes 0xEE; 1: a sound frame but for the magic; 2: a
    /// header whose lengths contradict each other)
    malformed_kind: AtomicU64,
    /// how replies are written (see `Pv::fr`), whether a silent attempt is answered late and after how
    /// many ms (0 = never), and the size the success reply's body is padded to (0 = not padded)
    frag: AtomicU64,
    /// which undecodable body a `badbody` reply carries (see `bad_body`)
    bad_body_kind: AtomicU64,
    stall_ms: AtomicU64,
    late_ms: AtomicU64,
    pad_to: AtomicU64,
    _placeholder: OwnedFd,
    st: Mutex<NodeSt>,
    cv: Condvar,
}

struct Node {
    sh: Arc<NodeShared>,
    sniffer: Option<Arc<Sniffer>>,
}

impl Drop for NodeShared {
    fn drop(&mut self) {
        // runs when the last thread of the node has gone; the placeholder closes right after
        release_port(self.port, self.id);
    }
}

impl NodeSt {
    fn next_behaviour(&mut self) -> Beh {
        if self.healthy || self.p >= self.script.len() {
            Beh::Success
        } else {
            let b = self.script[self.p];
            self.p += 1;
            b
        }
    }
    fn want_listener(&self) -> bool {
        self.healthy || self.p >= self.script.len() || self.script[self.p] != Beh::Refused
    }
}

impl NodeShared {
    /// Bring the listener into the state the head of the script asks for. Called with the lock held,
    /// *before* the node does anything the client can react to.
    fn sync_listener(&self, st: &mut NodeSt) {
        let want = st.want_listener() && !st.stop;
        if want && st.listener.is_none() {
            match bound_socket(self.port, true).and_then(|(fd, _)| {
                cvt(unsafe { libc::listen(fd.as_raw_fd(), 64) })?;
                let l = unsafe { TcpListener::from_raw_fd(std::os::fd::IntoRawFd::into_raw_fd(fd)) };
                l.set_nonblocking(true)?;
                Ok(l)
            }) {
                Ok(l) => {
                    st.listener = Some(l);
                    st.listen_gen += 1;
                    self.cv.notify_all();
                }
                Err(e) => st.trouble = Some(format!("listen_up:{e}")),
            }
        } else if !want {
            if let Some(l) = st.listener.take() {
                unsafe { libc::shutdown(l.as_raw_fd(), libc::SHUT_RD) };
                st.listen_gen += 1;
                drop(l);
                self.cv.notify_all();
            }
        }
    }

    fn on_refusal(&self, t: Instant) {
        let mut st = self.st.lock().unwrap();
        if !st.healthy && st.p < st.script.len() && st.script[st.p] == Beh::Refused {
            st.p += 1;
            st.log.push(Contact { beh: Beh::Refused, via: Via::Connect, t, conn: u64::MAX });
            self.sync_listener(&mut st);
        } else if !st.stop {
            st.desync = true; // a connect was refused although the script wanted the listener up
        }
        self.cv.notify_all();
    }
}

fn reply_frame(req: &RawFrame, ec: u32, body_format: u16, body: &[u8]) -> Vec<u8> {
    RawFrame {
        h: RawHeader {
            length: 48 + req.query.len() as u64 + body.len() as u64,
            spec: 0x1507,
            version: 1,
            notify: 0,
            reserved: 0,
            id: req.h.id,
            query_length: req.query.len() as u64,
            body_length: body.len() as u64,
            query_format: req.h.query_format,
            body_format,
            ec,
        },
        query: req.query.clone(),
        body: body.to_vec(),
    }
    .to_vec()
}

/// What the node answers with at its `k`-th log entry: unique per node and contact, so that "reports
/// that reply" can be checked as identity of content, not only of kind.
fn reply_payload(node: u64, k: usize) -> String {
    format!("{{\"r\":[{node},{k}]}}")
}
/// The same, padded with a string member to exactly `size` bytes (if that is larger).
fn reply_payload_sized(node: u64, k: usize, size: usize) -> String {
    let base = format!("{{\"r\":[{node},{k}],\"pad\":\"\"}}");
    if size <= base.len() {
        return reply_payload(node, k);
    }
    format!("{{\"r\":[{node},{k}],\"pad\":\"{}\"}}", "p".repeat(size - base.len()))
}

/// The body (and body format code) of a `badbody` reply: a sound frame with error code 0 whose body is
/// empty, JSON cut short at several places, not JSON, JSON under a format code that is not JSON's,
/// not UTF-8, or JSON followed by more.
fn bad_body(kind: u64) -> (u16, Vec<u8>) {
    match kind {
        0 => (2, vec![]),
        1 => (2, b"{\"done\":".to_vec()),
        2 => (2, b"{\"r\":[1,".to_vec()),
        3 => (2, b"{".to_vec()),
        4 => (2, b"nope".to_vec()),
        5 => (999, b"{\"r\":[1,2]}".to_vec()),
        6 => (2, vec![0xff, 0xfe, b'{', b'}']),
        _ => (2, b"{\"r\":[1,2]} trailing".to_vec()),
    }
}

/// Write a frame the way the case asks for: whole, byte by byte (the first 160 bytes; the rest whole),
/// in 2–3 pieces cut at places drawn from `seed` (inside the header, at 48, inside the query, inside the
/// body), the same with a stall of 3 ms between the pieces, or cut at 48 and after the query.
fn write_frame(s: &mut TcpStream, frame: &[u8], how: u64, seed: u64, query_len: usize) -> std::io::Result<()> {
    let n = frame.len();
    let (how, stall_ms) = (how & 0xff, how >> 8);
    if stall_ms > 0 {
        // far longer than any timer a client or fleet could plausibly have of its own, far shorter than
        // the configured timeout: the reply is still the reply
        let mid = [24usize, 48, 48 + query_len / 2, n - 1][(seed % 4) as usize].min(n - 1).max(1);
        s.write_all(&frame[..mid])?;
        std::thread::sleep(Duration::from_millis(stall_ms));
        return s.write_all(&frame[mid..]);
    }
    let mut cuts: Vec<usize> = match how {
        0 => vec![],
        1 => (1..n.min(160)).collect(),
        2 | 3 => {
            let mut r = Rng::new(seed | 1);
            let mut c = vec![];
            for _ in 0..(1 + r.below(2)) {
                let at = match r.below(4) {
                    0 => 1 + r.below(47) as usize,
                    1 => 48,
                    2 => 48 + r.below(query_len.max(1) as u64) as usize,
                    _ => 48 + query_len + r.below((n - 48 - query_len).max(1) as u64) as usize,
                };
                c.push(at);
            }
            c
        }
        _ => vec![48, 48 + query_len],
    };
    cuts.retain(|c| *c > 0 && *c < n);
    cuts.sort();
    cuts.dedup();
    let mut from = 0;
    for c in cuts.into_iter().chain(std::iter::once(n)) {
        s.write_all(&frame[from..c])?;
        from = c;
        if how == 3 && from < n {
            std::thread::sleep(Duration::from_millis(3));
        }
    }
    Ok(())
}
fn reply_detail(node: u64, k: usize) -> String {
    format!("[{node},{k}]")
}
fn app_error_text(node: u64, k: usize) -> String {
    format!("scripted application error {node}.{k}")
}

fn read_frame(s: &mut TcpStream) -> Option<RawFrame> {
    let mut hb = [0u8; 48];
    s.read_exact(&mut hb).ok()?;
    let h = RawHeader::parse(&hb)?;
    if !h.consistent() || h.length > (1 << 20) {
        return None;
    }
    let mut q = vec![0u8; h.query_length as usize];
    s.read_exact(&mut q).ok()?;
    let mut b = vec![0u8; h.body_length as usize];
    s.read_exact(&mut b).ok()?;
    Some(RawFrame { h, query: q, body: b })
}

fn handle_conn(sh: Arc<NodeShared>, mut s: TcpStream, id: u64) {
    let fd = s.as_raw_fd();
    let _ = s.set_read_timeout(Some(WATCHDOG));
    let _ = s.set_nodelay(true);
    let finish = |sh: &NodeShared, busy: bool| {
        let mut st = sh.st.lock().unwrap();
        if busy {
            st.busy -= 1;
        }
        st.conns.retain(|(i, _)| *i != id);
        sh.cv.notify_all();
    };
    // a connection on which the node once stayed silent is hung: whatever else arrives on it is read
    // and never answered, whatever the script says next (a node that is reachable again is reachable
    // on a new connection)
    let mut hung = false;
    loop {
        if !poll_in(fd, 50) {
            if sh.st.lock().unwrap().stop {
                finish(&sh, false);
                return;
            }
            continue;
        }
        sh.st.lock().unwrap().busy += 1;
        let Some(req) = read_frame(&mut s) else {
            finish(&sh, true);
            return;
        };
        let log_index;
        let beh = {
            let mut st = sh.st.lock().unwrap();
            if req.query != st.token {
                st.trouble = Some("stranger".into()); // a request that was meant for another node
            }
            let b = if hung { Beh::Silent } else { st.next_behaviour() };
            log_index = st.log.len();
            st.log.push(Contact { beh: b, via: Via::Request, t: Instant::now(), conn: id });
            if b == Beh::Idle {
                st.idle_pending += 1;
            }
            sh.sync_listener(&mut st);
            b
        };
        let mut close = false;
        // (a stall is passed to `write_frame` in the upper bits: the frame stops in its middle for that long)
        let how = sh.frag.load(Ordering::SeqCst) | sh.stall_ms.load(Ordering::SeqCst) << 8;
        let seed = fnv(format!("{}.{log_index}", sh.id).as_bytes());
        match beh {
            Beh::Success => {
                let body = reply_payload_sized(sh.id, log_index, sh.pad_to.load(Ordering::SeqCst) as usize);
                let _ = write_frame(&mut s, &reply_frame(&req, 0, 2, body.as_bytes()), how, seed, req.query.len());
            }
            Beh::BadBody => {
                let (fmt, body) = bad_body(sh.bad_body_kind.load(Ordering::SeqCst));
                let _ = write_frame(&mut s, &reply_frame(&req, 0, fmt, &body), how, seed, req.query.len());
            }
            Beh::AppErr => {
                let code = sh.app_code.load(Ordering::SeqCst) as u32;
                let _ = write_frame(&mut s, &reply_frame(&req, code, 3, app_error_text(sh.id, log_index).as_bytes()), how, seed, req.query.len());
            }
            Beh::Malformed => {
                let _ = match sh.malformed_kind.load(Ordering::SeqCst) {
                    0 => s.write_all(&[0xEEu8; 48]),
                    1 => {
                        let mut f = reply_frame(&req, 0, 2, b"{}");
                        f[8..10].copy_from_slice(&0x1508u16.to_le_bytes()); // the magic, everything else sound
                        s.write_all(&f)
                    }
                    2 => {
                        let mut f = reply_frame(&req, 0, 2, b"{}");
                        f[0..8].copy_from_slice(&47u64.to_le_bytes()); // length below the header size
                        s.write_all(&f)
                    }
                    // (3–5 are only used by the `ux` rounds: replies another property is about)
                    3 => {
                        let mut f = reply_frame(&req, 0, 2, reply_payload(sh.id, log_index).as_bytes());
                        f[16..24].copy_from_slice(&(req.h.id ^ 0x5555).to_le_bytes()); // another request's id
                        s.write_all(&f)
                    }
                    4 => {
                        let mut f = reply_frame(&req, 0, 2, reply_payload(sh.id, log_index).as_bytes());
                        f[11] = 1; // the notify flag
                        s.write_all(&f)
                    }
                    _ => {
                        let mut f = reply_frame(&req, 0, 2, b"{}");
                        let q = req.query.len() as u64;
                        f[0..8].copy_from_slice(&(1u64 << 40).to_le_bytes());
                        f[32..40].copy_from_slice(&((1u64 << 40) - 48 - q).to_le_bytes()); // body_length to match
                        s.write_all(&f[..48 + q as usize])
                    }
                };
            }
            Beh::Silent => {
                let late = sh.late_ms.load(Ordering::SeqCst);
                if late > 0 && !hung {
                    // the answer comes after all — once the caller's timeout has passed. Whoever still
                    // listens on this connection then reads a reply to a request it has given up.
                    if let Ok(mut w) = s.try_clone() {
                        let frame = reply_frame(&req, 0, 2, reply_payload(sh.id, log_index).as_bytes());
                        let _ = std::thread::Builder::new().stack_size(64 << 10).spawn(move || {
                            std::thread::sleep(Duration::from_millis(late));
                            let _ = w.write_all(&frame);
                        });
                    }
                }
                hung = true;
            }
            Beh::Atc | Beh::Refused => close = true,
            Beh::Idle => {
                let _ = write_frame(&mut s, &reply_frame(&req, 0, 2, reply_payload(sh.id, log_index).as_bytes()), how, seed, req.query.len());
                let _ = s.shutdown(Shutdown::Write);
                // the client's reader sees EOF, fails its pending map and shuts its socket down: FIN
                let mut b = [0u8; 64];
                let _ = s.set_read_timeout(Some(watchdog(IDLE_WATCHDOG)));
                let ok = matches!(s.read(&mut b), Ok(0));
                let mut st = sh.st.lock().unwrap();
                st.idle_pending -= 1;
                if !ok {
                    EXPIRIES.fetch_add(1, Ordering::SeqCst);
                    st.trouble = Some("idle_handshake".into());
                }
                close = true;
            }
        }
        if close {
            finish(&sh, true);
            return; // drops the stream: every byte the client sent has been read, so this is a FIN
        }
        let mut st = sh.st.lock().unwrap();
        st.busy -= 1;
        sh.cv.notify_all();
    }
}

fn accept_loop(sh: Arc<NodeShared>) {
    loop {
        // wait for a listener
        let (l, my_gen) = {
            let mut st = sh.st.lock().unwrap();
            loop {
                if st.stop {
                    return;
                }
                if let Some(l) = &st.listener {
                    match l.try_clone() {
                        Ok(c) => break (c, st.listen_gen),
                        Err(e) => st.trouble = Some(format!("listener_clone:{e}")),
                    }
                }
                st = sh.cv.wait_timeout(st, Duration::from_millis(50)).unwrap().0;
            }
        };
        loop {
            let readable = poll_in(l.as_raw_fd(), 20);
            let mut st = sh.st.lock().unwrap();
            if st.stop {
                return;
            }
            if st.listen_gen != my_gen {
                break;
            }
            if !readable {
                continue;
            }
            st.accept_busy = true;
            match l.accept() {
                Ok((s, _)) => {
                    let _ = s.set_nonblocking(false);
                    let id = st.next_conn;
                    st.next_conn += 1;
                    st.conns.push((id, s.as_raw_fd()));
                    st.accept_busy = false;
                    drop(st);
                    let sh2 = sh.clone();
                    if std::thread::Builder::new().stack_size(128 << 10).spawn(move || handle_conn(sh2, s, id)).is_err() {
                        sh.st.lock().unwrap().trouble = Some("spawn".into());
                    }
                }
                Err(_) => {
                    st.accept_busy = false;
                }
            }
        }
    }
}

impl Node {
    fn new(script: Vec<Beh>, sniffer: Option<Arc<Sniffer>>) -> std::io::Result<Node> {
        let id = NODE_IDS.fetch_add(1, Ordering::SeqCst);
        let mut held = vec![];
        let (ph, port) = loop {
            let (ph, port) = bound_socket(0, true)?;
            if claim_port(port, id) {
                break (ph, port);
            }
            held.push(ph); // keep it so the kernel offers another port
            if held.len() > 16 {
                return Err(std::io::Error::other("no private port"));
            }
        };
        drop(held);
        let sh = Arc::new(NodeShared {
            port,
            id,
            app_code: AtomicU64::new(4096),
            malformed_kind: AtomicU64::new(0),
            frag: AtomicU64::new(0),
            bad_body_kind: AtomicU64::new(0),
            stall_ms: AtomicU64::new(0),
            late_ms: AtomicU64::new(0),
            pad_to: AtomicU64::new(0),
            _placeholder: ph,
            st: Mutex::new(NodeSt {
                script,
                p: 0,
                healthy: false,
                log: vec![],
                desync: false,
                trouble: None,
                token: format!("/m{id}").into_bytes(),
                idle_pending: 0,
                busy: 0,
                accept_busy: false,
                conns: vec![],
                next_conn: 0,
                listener: None,
                listen_gen: 0,
                stop: false,
            }),
            cv: Condvar::new(),
        });
        if let Some(s) = &sniffer {
            s.registry.lock().unwrap().insert(port, Arc::downgrade(&sh));
        }
        {
            let mut st = sh.st.lock().unwrap();
            sh.sync_listener(&mut st);
        }
        let sh2 = sh.clone();
        std::thread::Builder::new().stack_size(128 << 10).spawn(move || accept_loop(sh2))?;
        Ok(Node { sh, sniffer })
    }
    fn port(&self) -> u16 {
        self.sh.port
    }
    fn method(&self) -> String {
        String::from_utf8_lossy(&self.sh.st.lock().unwrap().token).into_owned()
    }
    /// Which error code the node's application errors carry: derived from the case's index token, so a
    /// replay uses the same one. Whatever the code, an error *reply* ends the call.
    fn set_app_code_for(&self, idx: &str) {
        // every `ErrorCode` but `Ok`, and codes the enum does not name (reserved range, application range,
        // the largest): an error *reply* whatever its code
        let codes = [4096u64, 7, 8, 6, 9, 5, 1, 2, 3, 4, 10, 4095, 4097, 70000, u32::MAX as u64];
        let code = std::env::var("FLEET_TEST_APP_CODE").ok().and_then(|x| x.parse().ok()).unwrap_or(codes[(fnv(idx.as_bytes()) % 15) as usize]);
        self.sh.app_code.store(code, Ordering::SeqCst);
    }
    fn set_token(&self, t: &str) {
        self.sh.st.lock().unwrap().token = t.as_bytes().to_vec();
    }
    fn exhausted(&self) -> bool {
        let st = self.sh.st.lock().unwrap();
        st.p >= st.script.len()
    }
    /// How this node writes its replies (fragments, late answers, size), as the case asks.
    fn apply(&self, pv: &Pv) {
        self.sh.frag.store(pv.fr as u64, Ordering::SeqCst);
        self.sh.bad_body_kind.store(pv.bb as u64, Ordering::SeqCst);
        self.sh.stall_ms.store(pv.stall().as_millis() as u64, Ordering::SeqCst);
        self.sh.late_ms.store(if pv.ls == 1 { pv.t_node().as_millis() as u64 + 40 } else { 0 }, Ordering::SeqCst);
        self.sh.pad_to.store([0u64, 4095, 4096, 4097, 65535, 65537, 1 << 20][pv.rs as usize], Ordering::SeqCst);
    }
    /// A new script for the same node (its connections and log stay).
    fn reload(&self, script: Vec<Beh>) {
        let mut st = self.sh.st.lock().unwrap();
        st.script = script;
        st.p = 0;
        st.healthy = false;
        self.sh.sync_listener(&mut st);
    }
    fn set_healthy(&self) {
        let mut st = self.sh.st.lock().unwrap();
        st.healthy = true;
        self.sh.sync_listener(&mut st);
    }
    fn log_len(&self) -> usize {
        self.sh.st.lock().unwrap().log.len()
    }
    fn log_from(&self, n: usize) -> Vec<Contact> {
        self.sh.st.lock().unwrap().log[n..].to_vec()
    }
    fn trouble(&self) -> Option<String> {
        let st = self.sh.st.lock().unwrap();
        if st.desync { Some("desync".into()) } else { st.trouble.clone() }
    }
    /// Wait until the node has nothing in flight: every packet the kernel emitted has been sniffed,
    /// no accepted-but-unhandled connection, no unread request bytes, no handler mid-frame, no idle
    /// close waiting for the client's FIN.
    fn settle(&self) -> Result<(), String> {
        if let Some(s) = &self.sniffer {
            s.barrier()?;
        }
        let deadline = Instant::now() + watchdog(WATCHDOG);
        let mut clean = 0;
        loop {
            {
                let st = self.sh.st.lock().unwrap();
                let quiet = st.busy == 0
                    && !st.accept_busy
                    && st.idle_pending == 0
                    && st.conns.iter().all(|(_, fd)| unread_bytes(*fd) == 0)
                    && st.listener.as_ref().map_or(true, |l| !poll_in(l.as_raw_fd(), 0));
                if quiet {
                    clean += 1;
                    if clean >= 2 {
                        return Ok(());
                    }
                } else {
                    clean = 0;
                }
            }
            if Instant::now() >= deadline {
                EXPIRIES.fetch_add(1, Ordering::SeqCst);
                return Err("settle".into());
            }
            std::thread::sleep(Duration::from_micros(150));
        }
    }
}

impl Drop for Node {
    fn drop(&mut self) {
        if let Some(s) = &self.sniffer {
            s.registry.lock().unwrap().remove(&self.sh.port);
        }
        let mut st = self.sh.st.lock().unwrap();
        st.stop = true;
        self.sh.sync_listener(&mut st);
        self.sh.cv.notify_all();
    }
}

// ------------------------------------------------------------------------------------------
// the fleets under test
// ------------------------------------------------------------------------------------------
fn class_of(e: &RepeError) -> String {
    match e {
        RepeError::Io(io) => format!("Io({:?})", io.kind()),
        RepeError::ServerError { .. } => "Server".into(),
        _ => "Decode".into(),
    }
}

fn class_of_result<T>(value: &Option<T>, error: &Option<RepeError>) -> String {
    match (value, error) {
        (_, Some(e)) => class_of(e),
        (Some(_), None) => "ok".into(),
        (None, None) => "None".into(),
    }
}

#[derive(Clone)]
enum AnyFleet {
    B(Fleet),
    A(AsyncFleet),
}

struct Env {
    sniffer: Option<Arc<Sniffer>>,
    rt: Arc<tokio::runtime::Runtime>,
}

thread_local! {
    /// How long a single call into the code under test may take in the case this thread executes: derived
    /// from the configured bounds (attempts × (timeout + delay), ×3, + 5 s). A call that has not returned
    /// by then never will as far as the property is concerned.
    static BUDGET: std::cell::Cell<Duration> = const { std::cell::Cell::new(Duration::from_secs(60)) };
    /// Set when a call of this thread's case outlived its budget: (entry point, budget).
    static NEVER_RETURNED: std::cell::RefCell<Option<(String, Duration)>> = const { std::cell::RefCell::new(None) };
}

/// Calls that never returned, over the whole run. After three the run stops executing cases.
static NEVER_RETURNED_TOTAL: AtomicU64 = AtomicU64::new(0);

fn set_budget(max: usize, timeout: Duration, delay: Duration) {
    let attempts = max.min(1000) as u32;
    BUDGET.with(|b| b.set((timeout + delay) * attempts * 3 + Duration::from_secs(5)));
}

/// Payload of the unwinding that abandons a case whose call never returned.
struct CallNeverReturned;

fn never_returned(what: &str, budget: Duration) -> ! {
    NEVER_RETURNED.with(|n| *n.borrow_mut() = Some((what.to_string(), budget)));
    // (after three, no further case is started; the cases under way are still confirmed)
    NEVER_RETURNED_TOTAL.fetch_add(1, Ordering::SeqCst);
    std::panic::panic_any(CallNeverReturned)
}

/// Run a blocking call into the code under test on a thread of its own and wait for it at most the
/// case's budget. On expiry the thread is abandoned (it holds clones only) and the case is unwound.
fn guarded<T: Send + 'static>(what: &str, f: impl FnOnce() -> T + Send + 'static) -> T {
    let budget = BUDGET.with(|b| b.get());
    let (tx, rx) = std::sync::mpsc::sync_channel::<std::thread::Result<T>>(1);
    let spawned = std::thread::Builder::new().stack_size(512 << 10).spawn(move || {
        let _ = tx.send(std::panic::catch_unwind(std::panic::AssertUnwindSafe(f)));
    });
    if spawned.is_err() {
        panic!("cannot spawn the thread of a guarded call");
    }
    match rx.recv_timeout(budget) {
        Ok(Ok(v)) => v,
        Ok(Err(p)) => std::panic::resume_unwind(p),
        Err(_) => never_returned(what, budget),
    }
}

/// The same for a future of the async fleet: it is dropped on expiry.
fn guarded_async<T>(env: &Env, what: &str, fut: impl std::future::Future<Output = T>) -> T {
    let budget = BUDGET.with(|b| b.get());
    match env.rt().block_on(async { tokio::time::timeout(budget, fut).await }) {
        Ok(v) => v,
        Err(_) => never_returned(what, budget),
    }
}

thread_local! {
    /// The runtime of the case this worker thread is executing, if the case asks for its own (a
    /// starved one: one worker thread, one blocking thread).
    static CASE_RT: std::cell::RefCell<Option<Arc<tokio::runtime::Runtime>>> = const { std::cell::RefCell::new(None) };
}

/// While it lives, the async operations of this thread's case run on a runtime of their own.
struct CaseRt(bool);

impl CaseRt {
    fn enter(own: bool) -> CaseRt {
        if own {
            let rt = tokio::runtime::Builder::new_multi_thread().worker_threads(1).max_blocking_threads(1).enable_all().build().expect("runtime");
            CASE_RT.with(|c| *c.borrow_mut() = Some(Arc::new(rt)));
        }
        CaseRt(own)
    }
}

impl Drop for CaseRt {
    fn drop(&mut self) {
        if self.0 {
            if let Some(rt) = CASE_RT.with(|c| c.borrow_mut().take()) {
                if let Ok(rt) = Arc::try_unwrap(rt) {
                    rt.shutdown_background();
                }
            }
        }
    }
}

impl Env {
    fn rt(&self) -> Arc<tokio::runtime::Runtime> {
        CASE_RT.with(|c| c.borrow().clone()).unwrap_or_else(|| self.rt.clone())
    }
}

/// What a call returned: its class (what the model predicts) and, for a reply, its content.
struct Returned {
    class: String,
    /// `ok`: the `r` member of the reply's JSON body; `Server`: `<code>:<message>`
    detail: Option<String>,
}

/// The accessors of `RemoteResult` are a second way to read a report (`succeeded`, `failed`,
/// `into_result`): they must say what the fields say.
fn accessors_agree<T>(class: String, r: repe::RemoteResult<T>) -> String {
    let (s, f) = (r.succeeded(), r.failed());
    let via = match r.into_result() {
        Ok(_) => "ok".to_string(),
        Err(e) => class_of(&e),
    };
    if class == "None" || (via == class && s != f && s == (class == "ok")) {
        class
    } else {
        format!("AccessorsDisagree(fields:{class},into_result:{via},succeeded:{s},failed:{f})")
    }
}

fn returned_json(r: repe::RemoteResult<serde_json::Value>) -> Returned {
    let class = class_of_result(&r.value, &r.error);
    let detail = match (&r.value, &r.error) {
        (_, Some(RepeError::ServerError { code, message })) => Some(format!("{}:{message}", u32::from(*code))),
        (Some(v), None) => Some(v.get("r").map_or("?".to_string(), |x| x.to_string())),
        _ => None,
    };
    Returned { class: accessors_agree(class, r), detail }
}

fn returned_message(r: repe::RemoteResult<repe::Message>) -> Returned {
    let class = class_of_result(&r.value, &r.error);
    let detail = match (&r.value, &r.error) {
        (_, Some(RepeError::ServerError { code, message })) => Some(format!("{}:{message}", u32::from(*code))),
        (Some(m), None) => Some(
            serde_json::from_slice::<serde_json::Value>(&m.body).ok().and_then(|v| v.get("r").map(|x| x.to_string())).unwrap_or("?".into()),
        ),
        _ => None,
    };
    Returned { class: accessors_agree(class, r), detail }
}

impl AnyFleet {
    fn new(kind: &str, configs: Vec<NodeConfig>, max: usize, pv: &Pv) -> AnyFleet {
        AnyFleet::with_delay(kind, configs, max, pv.delay(), pv)
    }
    fn with_delay(kind: &str, configs: Vec<NodeConfig>, max: usize, delay: Duration, pv: &Pv) -> AnyFleet {
        // the fleet-wide default differs from every node's own timeout: it must never be what a call waits for
        let opts = FleetOptions { default_timeout: pv.default_timeout(), retry_policy: RetryPolicy { max_attempts: max, delay } };
        if pv.op == 1 {
            // the twin constructor: default options. Only meaningful for a case that says max_attempts 3.
            assert_eq!(max, 3, "p.op=1 needs max 3");
            let f = match kind {
                "b" => AnyFleet::B(Fleet::new(configs).expect("fleet")),
                _ => AnyFleet::A(AsyncFleet::new(configs).expect("fleet")),
            };
            let o = match &f {
                AnyFleet::B(f) => f.options(),
                AnyFleet::A(f) => f.options(),
            };
            assert_eq!((o.retry_policy.max_attempts, o.retry_policy.delay), (3, Duration::from_secs(1)), "documented defaults");
            return f;
        }
        match kind {
            "b" => AnyFleet::B(Fleet::with_options(configs, opts).expect("fleet options")),
            _ => AnyFleet::A(AsyncFleet::with_options(configs, opts).expect("fleet options")),
        }
    }
    fn call(&self, env: &Env, variant: &str, name: &str, method: &str, params: &serde_json::Value) -> Returned {
        // the node exists in every case: a `FleetError` here is a call that reported neither a reply nor a transport error
        let refused = move |e: repe::FleetError| Returned { class: format!("FleetError({})", format!("{e:?}").split('(').next().unwrap_or("?")), detail: None };
        match (self, variant) {
            (AnyFleet::B(f), v) => {
                let (f, v, name, method, params) = (f.clone(), v.to_string(), name.to_string(), method.to_string(), params.clone());
                guarded("call_json / call_message", move || match v.as_str() {
                    "json" => f.call_json(&name, &method, Some(&params)).map_or_else(refused, returned_json),
                    "jsonnp" => f.call_json(&name, &method, None).map_or_else(refused, returned_json),
                    _ => f.call_message(&name, &method).map_or_else(refused, returned_message),
                })
            }
            (AnyFleet::A(f), "json") => guarded_async(env, "call_json", f.call_json(name, method, Some(params))).map_or_else(refused, returned_json),
            (AnyFleet::A(f), "jsonnp") => guarded_async(env, "call_json", f.call_json(name, method, None)).map_or_else(refused, returned_json),
            (AnyFleet::A(f), _) => guarded_async(env, "call_message", f.call_message(name, method)).map_or_else(refused, returned_message),
        }
    }
    /// `connect_all`: was `name` reported connected (Some(true)), failed (Some(false)) or neither (None)
    fn connect_all(&self, env: &Env, name: &str) -> Option<bool> {
        let s = match self {
            AnyFleet::B(f) => {
                let f = f.clone();
                guarded("connect_all", move || f.connect_all())
            }
            AnyFleet::A(f) => guarded_async(env, "connect_all", f.connect_all()),
        };
        if s.connected.iter().any(|x| x == name) { Some(true) } else if s.failed.iter().any(|x| x == name) { Some(false) } else { None }
    }
    fn disconnect_all(&self, env: &Env) {
        match self {
            AnyFleet::B(f) => {
                let f = f.clone();
                guarded("disconnect_all", move || drop(f.disconnect_all()))
            }
            AnyFleet::A(f) => drop(guarded_async(env, "disconnect_all", f.disconnect_all())),
        }
    }
    fn reconnect(&self, env: &Env, name: &str) -> Option<bool> {
        let s = match self {
            AnyFleet::B(f) => {
                let f = f.clone();
                guarded("reconnect_disconnected", move || f.reconnect_disconnected())
            }
            AnyFleet::A(f) => guarded_async(env, "reconnect_disconnected", f.reconnect_disconnected()),
        };
        if s.reconnected.iter().any(|x| x == name) { Some(true) } else if s.failed.iter().any(|x| x == name) { Some(false) } else { None }
    }
    /// `health_check`: class of the verdict for `name` (`ok` = healthy)
    fn health(&self, env: &Env, name: &str, method: &str) -> String {
        let mut m = match self {
            AnyFleet::B(f) => {
                let (f, method) = (f.clone(), method.to_string());
                guarded("health_check", move || f.health_check(&method))
            }
            AnyFleet::A(f) => guarded_async(env, "health_check", f.health_check(method)),
        };
        match m.remove(name) {
            None => "None".into(),
            Some(h) => match (h.healthy, &h.error) {
                (true, None) => "ok".into(),
                (_, Some(e)) => class_of(e),
                (false, None) => "None".into(),
            },
        }
    }
    fn is_connected(&self, env: &Env, name: &str) -> bool {
        match self {
            AnyFleet::B(f) => {
                let (f, name) = (f.clone(), name.to_string());
                guarded("is_connected", move || f.is_connected(&name).unwrap_or(false))
            }
            AnyFleet::A(f) => guarded_async(env, "is_connected", f.is_connected(name)).unwrap_or(false),
        }
    }
}

/// The fleet of a single-node case as the operations see it: the node under test is `n` (its real name
/// is styled), a healthy bystander node may be present, and operations go through the fleet itself, a
/// held clone, or a fresh clone each time — every handle shares the one node table and client slots.
struct Handles {
    orig: AnyFleet,
    held: AnyFleet,
    pv: Pv,
    n: String,
    params: serde_json::Value,
    k: std::cell::Cell<usize>,
}

impl Handles {
    fn new(kind: &str, configs: Vec<NodeConfig>, max: usize, pv: &Pv, n: String) -> Handles {
        let orig = AnyFleet::new(kind, configs, max, pv);
        Handles { held: orig.clone(), orig, pv: *pv, n, params: pv.params(), k: std::cell::Cell::new(0) }
    }
    fn with<R>(&self, f: impl FnOnce(&AnyFleet) -> R) -> R {
        let k = self.k.get();
        self.k.set(k + 1);
        match self.pv.cl {
            0 => f(&self.orig),
            1 => f(if k % 2 == 1 { &self.held } else { &self.orig }),
            _ => f(&self.orig.clone()),
        }
    }
    fn call(&self, env: &Env, variant: &str, method: &str) -> Returned {
        self.with(|f| f.call(env, variant, &self.n, method, &self.params))
    }
    fn connect_all(&self, env: &Env) -> Option<bool> {
        self.with(|f| f.connect_all(env, &self.n))
    }
    fn disconnect_all(&self, env: &Env) {
        self.with(|f| f.disconnect_all(env))
    }
    fn reconnect(&self, env: &Env) -> Option<bool> {
        self.with(|f| f.reconnect(env, &self.n))
    }
    fn health(&self, env: &Env, method: &str) -> String {
        self.with(|f| f.health(env, &self.n, method))
    }
    fn is_connected(&self, env: &Env) -> bool {
        self.with(|f| f.is_connected(env, &self.n))
    }
}

// ------------------------------------------------------------------------------------------
// one case
// ------------------------------------------------------------------------------------------
struct CallRec {
    contacts: Vec<Contact>,
    res: String,
    conn: bool,
    t0: Instant,
    t1: Instant,
    /// `is_connected` before the call, and the id the node's next connection would get: tells whether
    /// the first attempt ran on a cached client (dead: no contact; live: a request on an old connection)
    pre_conn: bool,
    conn_mark: u64,
    /// content of what was returned (see `Returned`), and what is needed to say what it should be
    detail: Option<String>,
    node_id: u64,
    log_base: usize,
    app_code: u32,
    /// the node's timeout and the retry delay of this case
    t_node: Duration,
    delay: Duration,
    /// the node answers its silent attempts after all, late (`Pv::ls`)
    late: bool,
    /// the entry point decodes the reply's body as JSON (`call_json`; not `call_message`, `health_check`)
    decodes: bool,
}

#[derive(Default)]
struct CaseOut {
    /// appended to the op line: what the implementation was observed to choose where the model allows a set
    op_suffix: Option<String>,
    obs: Option<String>,
    skip: Option<String>,
    fails: Vec<(String, String)>,
    nontrivial: bool,
    counters: Vec<String>,
}

/// Coverage evidence: which value of each varied parameter the judged cases had.
fn pv_counters(pv: &Pv, counters: &mut Vec<String>) {
    let names = ["name_style", "tag_style", "method_style", "params", "node_timeout", "retry_delay", "default_timeout", "bystander", "handle", "malformed_kind", "constructor", "observers", "reply_fragments", "late_reply", "reply_size", "own_runtime", "bad_body_kind", "reply_stall"];
    for (n, v) in names.iter().zip(pv.fields()) {
        counters.push(format!("param.{n}.{v}"));
    }
}

fn kind_name(kind: &str) -> &'static str {
    if kind == "b" { "blocking" } else { "async" }
}

enum Verdict {
    Fine,
    Skip(String),
    Fail(String, String),
}

/// The property's clauses evaluated on one call, from what the node saw and what the fleet returned.
fn check_call(kind: &str, max: usize, c: &CallRec, what: &str, sniffer_dependent: bool) -> Verdict {
    let health = what.contains("(health)");
    let k = kind_name(kind);
    let n = c.contacts.len();
    let show: Vec<String> = c
        .contacts
        .iter()
        .map(|x| {
            let conn = if x.via == Via::Connect { "connect".to_string() } else { format!("conn{}", x.conn) };
            format!("{}@{}+{}ms", x.beh.name(), conn, x.t.saturating_duration_since(c.t0).as_millis())
        })
        .collect();
    let ctx = format!(
        "{what}: node saw [{}], fleet returned {} after {}ms, max_attempts {}",
        show.join(","),
        c.res,
        c.t1.saturating_duration_since(c.t0).as_millis(),
        max
    );
    // the result's accessors and its fields tell different stories
    if c.res.starts_with("AccessorsDisagree") {
        return Verdict::Fail(format!("fleet.{k}.report.accessors_disagree"), ctx);
    }
    // the fleet did not recognise its own node
    if c.res.starts_with("FleetError") {
        return Verdict::Fail(format!("fleet.{k}.report.neither_reply_nor_error"), ctx);
    }
    // ---- evidence that depends on the sniffer must be complete and agree with what the fleet says ----
    // a refusal stamped before the call began was emitted for an earlier call and counted late
    if c.contacts.iter().any(|x| x.via == Via::Connect && x.t < c.t0) {
        return Verdict::Skip("refusal_out_of_window".into());
    }
    let reused = matches!(c.contacts.first(), Some(x) if x.via == Via::Request && x.conn < c.conn_mark);
    // attempts accounted for: the contacts, plus one attempt on a dead cached client if the call
    // began with a cached client and did not use its connection
    let accounted = n + usize::from(c.pre_conn && !reused);
    // (in the healthy phase the node has been listening since before the call began: no connect of that
    // call can have been refused by the kernel, seen or unseen — a refusal reported then is the fleet's own)
    let listening_throughout = what.starts_with("healthy call");
    if c.res == "Io(ConnectionRefused)" && !listening_throughout {
        // the fleet says its last attempt was refused: the node's log must end with that refusal
        if !matches!(c.contacts.last(), Some(x) if x.beh == Beh::Refused && x.via == Via::Connect) {
            return Verdict::Skip("refusal_unseen".into());
        }
    }
    if sniffer_dependent && c.res.starts_with("Io(") && accounted < max && !listening_throughout {
        // The call ended on a transport error although attempts seem to be left. Either the fleet
        // does not retry that kind (then the model, which has the extracted table, says so too — but
        // that cannot be told apart here), or it did use all its attempts and a refused connect was
        // not counted (the node then also stayed closed one attempt too long). Not judged.
        return Verdict::Skip("refusal_unseen".into());
    }
    // (1) bounded
    if n > max {
        return Verdict::Fail(format!("fleet.{k}.attempts.exceeds_max"), ctx);
    }
    // each attempt waits for the node's own timeout (60–120 ms), not for the fleet-wide default (20 s)
    // (at most one attempt more than the node saw can have been made: one on a dead cached client)
    if !health && c.t1.saturating_duration_since(c.t0) > (c.t_node + c.delay) * (n as u32 + 1) + Duration::from_secs(5) {
        return Verdict::Fail(format!("fleet.{k}.timeout.not_the_nodes"), ctx);
    }
    // the node read a request only after the fleet call had returned: the client did not wait for the
    // node (it timed out on a starved node thread); what the node then did is not what the call saw
    if c.contacts.iter().any(|x| x.via == Via::Request && x.t > c.t1) {
        return Verdict::Skip("node_lagged".into());
    }
    // lower bounds of the instants the client sent each attempt: it moves on when it has seen the
    // node's action (after the node read the request) or when its timeout fired
    let mut refs = Vec::with_capacity(n);
    // (an attempt on a dead cached client fails at once and is followed by the retry delay)
    let mut r = c.t0 + if c.pre_conn && !reused { c.delay } else { Duration::ZERO };
    for x in &c.contacts {
        refs.push(r);
        r = match (x.beh, x.via) {
            (Beh::Silent, _) => r + c.t_node,
            (Beh::Refused, Via::Connect) => r,
            _ => x.t.max(r).min(r + c.t_node),
        } + c.delay; // the fleet sleeps for the retry delay before the next attempt
    }
    // a request the node read T or more after the earliest instant the client can have sent it may
    // already have been given up by the client (timeout on a starved node thread): not judged
    for (x, r) in c.contacts.iter().zip(&refs) {
        if x.via == Via::Request && x.t.saturating_duration_since(*r) >= c.t_node {
            return Verdict::Skip("node_lagged".into());
        }
    }
    // (2) a retry follows only a transport failure; (3) the first reply ends the call
    for i in 0..n.saturating_sub(1) {
        let b = c.contacts[i].beh;
        if b.is_reply() || b == Beh::Malformed {
            // the client retried after the node answered; legitimate only if the answer came too late
            if c.contacts[i + 1].t.saturating_duration_since(refs[i]) < c.t_node {
                let sig = if b.is_reply() { "retry_after_reply" } else { "retry_after_nontransport" };
                return Verdict::Fail(format!("fleet.{k}.{sig}.{}", b.name()), ctx);
            }
            return Verdict::Skip("late_reply_retry".into());
        }
    }
    // (4) reports the reply or the last transport error
    let timed_out_late = c.res == "Io(TimedOut)" && n > 0 && c.t1.saturating_duration_since(refs[n - 1]) >= c.t_node;
    match c.contacts.last() {
        None => {
            if c.res == "ok" {
                return Verdict::Fail(format!("fleet.{k}.report.ok_without_contact"), ctx);
            }
        }
        Some(last) => {
            let (want, alts): (&str, &[&str]) = match (last.beh, last.via) {
                (Beh::Success, _) | (Beh::Idle, _) => ("ok", &[]),
                (Beh::AppErr, _) => ("Server", &[]),
                (Beh::BadBody, _) => (if c.decodes { "Decode" } else { "ok" }, &[]),
                (Beh::Malformed, _) => ("Decode", &[]),
                (Beh::Silent, _) => ("Io(TimedOut)", &[]),
                (Beh::Refused, Via::Connect) => ("Io(ConnectionRefused)", &[]),
                (Beh::Atc, _) | (Beh::Refused, Via::Request) => {
                    ("Io(UnexpectedEof)", &["Io(ConnectionReset)", "Io(ConnectionAborted)", "Io(BrokenPipe)"])
                }
            };
            if c.res != want {
                if c.late && last.beh == Beh::Silent && c.res == "ok" {
                    // the late answer of the node made it before a client whose timer fired late
                    return Verdict::Skip("late_reply".into());
                }
                if alts.contains(&c.res.as_str()) {
                    return Verdict::Skip(format!("class_not_engineered.{}", c.res));
                }
                if timed_out_late && last.via == Via::Request {
                    return Verdict::Skip("late_reply".into());
                }
                let sig = match last.beh {
                    Beh::Success | Beh::Idle | Beh::AppErr => "report.not_the_reply",
                    Beh::BadBody => "report.undecodable_reply_as_something_else",
                    Beh::Malformed => "report.malformed_reply",
                    _ => "report.not_the_last_transport_error",
                };
                return Verdict::Fail(format!("fleet.{k}.{sig}"), ctx);
            }
            // the frame of an undecodable body was sound: the connection it came on is kept
            if last.beh == Beh::BadBody && !c.conn {
                return Verdict::Fail(format!("fleet.{k}.badbody.connection_dropped"), ctx);
            }
            // "reports that reply": the content is the one the node sent at this, the final, contact
            if !health {
                let k_last = c.log_base + n - 1;
                let want_detail = match last.beh {
                    Beh::Success | Beh::Idle => Some(reply_detail(c.node_id, k_last)),
                    Beh::AppErr => Some(format!("{}:{}", c.app_code, app_error_text(c.node_id, k_last))),
                    _ => None,
                };
                if let (Some(w), Some(got)) = (&want_detail, &c.detail) {
                    // a code `ErrorCode` does not name is reported under another one by the clients (not the
                    // fleet's doing): then only the text is compared
                    let named = [1u32, 2, 3, 4, 5, 6, 7, 8, 9, 4096].contains(&c.app_code) || last.beh != Beh::AppErr;
                    let same = if named { w == got } else { w.split_once(':').map(|x| x.1) == got.split_once(':').map(|x| x.1) };
                    if !same {
                        return Verdict::Fail(
                            format!("fleet.{k}.report.not_the_reply"),
                            format!("{ctx}; the node's reply at that contact was {w}, the fleet returned {got}"),
                        );
                    }
                }
            }
        }
    }
    Verdict::Fine
}

fn show_call(c: &CallRec) -> String {
    format!("{}:{}:{}", c.contacts.len(), c.res, c.conn as u8)
}

fn one_call(env: &Env, fleet: &Handles, node: &Node, variant: &str) -> Result<CallRec, String> {
    let n0 = node.log_len();
    let pre_conn = fleet.is_connected(env);
    let conn_mark = node.sh.st.lock().unwrap().next_conn;
    let t0 = Instant::now();
    let ret = fleet.call(env, variant, &node.method());
    let t1 = Instant::now();
    node.settle()?;
    if let Some(t) = node.trouble() {
        return Err(t);
    }
    Ok(CallRec {
        contacts: node.log_from(n0),
        res: ret.class,
        conn: fleet.is_connected(env),
        t0,
        t1,
        pre_conn,
        conn_mark,
        detail: ret.detail,
        node_id: node.sh.id,
        log_base: n0,
        app_code: node.sh.app_code.load(Ordering::SeqCst) as u32,
        t_node: fleet.pv.t_node(),
        delay: fleet.pv.delay(),
        late: fleet.pv.ls == 1,
        decodes: variant != "msg",
    })
}

/// The node under test, an optional healthy bystander node, and the fleet over them.
struct Rig {
    // (dropped first: the observers stop before the fleet and the nodes go)
    _watchers: Option<Observers>,
    node: Node,
    by: Option<Node>,
    fleet: Handles,
}

fn build_rig(env: &Env, idx: &str, kind: &str, max: usize, seq: &[Beh], pv: &Pv) -> Result<Rig, String> {
    // the slowest legitimate call of the case: max_attempts timeouts and delays (the bystander's timeout
    // is a single attempt, never waited for; `run_life` widens the budget for the health check's 5 s)
    set_budget(max, pv.t_node(), pv.delay());
    let mk = |script: Vec<Beh>| Node::new(script, env.sniffer.clone()).map_err(|e| format!("node_{:?}:{e}", e.kind()));
    let node = mk(seq.to_vec())?;
    node.set_app_code_for(idx);
    node.sh.malformed_kind.store(pv.mf as u64, Ordering::SeqCst);
    node.apply(pv);
    node.set_token(&pv.method(&node.method()));
    let mut configs = vec![NodeConfig::new(node_host(), node.port()).unwrap().with_name(pv.name("n")).unwrap().with_timeout(pv.t_node()).unwrap()];
    let by = if pv.by > 0 { Some(mk(vec![])?) } else { None };
    if let Some(b) = &by {
        configs.push(NodeConfig::new(node_host(), b.port()).unwrap().with_name(pv.name("by")).unwrap().with_timeout(T_BCAST).unwrap());
    }
    let fleet = Handles::new(kind, configs, max, pv, pv.name("n"));
    if let (2, Some(b)) = (pv.by, &by) {
        // the bystander has a live cached client before the case begins
        if fleet.orig.call(env, "json", &pv.name("by"), &b.method(), &fleet.params).class != "ok" {
            return Err("bystander_setup".into());
        }
    }
    let _watchers = if pv.ob > 0 {
        let mut names = vec![pv.name("n")];
        if by.is_some() {
            names.push(pv.name("by"));
        }
        Some(Observers::start(env, &fleet.orig, names, pv.ob as usize, Some(Duration::from_micros(30))))
    } else {
        None
    };
    Ok(Rig { _watchers, node, by, fleet })
}

/// The bystander was healthy throughout: a call to it succeeds (the second one if only one attempt is
/// allowed and an operation of the case left it a dead or dropped client).
fn bystander_check(env: &Env, rig: &Rig, kind: &str, max: usize) -> Option<(String, String)> {
    // what the observers of the case saw was admissible (the node table of these cases never changes)
    if let Some(w) = &rig._watchers {
        if w.inadmissible() > 0 {
            return Some((
                format!("fleet.{}.observer.inadmissible_state", kind_name(kind)),
                format!("{} observation(s) by concurrent read-only observers: a node of the fleet reported as unknown, or more connected nodes than nodes", w.inadmissible()),
            ));
        }
    }
    let b = rig.by.as_ref()?;
    let name = rig.fleet.pv.name("by");
    let allowed = if max >= 2 { 1 } else { 2 };
    let mut seen = vec![];
    for _ in 0..allowed {
        let r = rig.fleet.orig.call(env, "json", &name, &b.method(), &rig.fleet.params);
        if r.class == "ok" {
            return None;
        }
        seen.push(r.class);
    }
    Some((
        format!("fleet.{}.bystander.wedged", kind_name(kind)),
        format!("a second node of the fleet that was healthy throughout the case answers {:?} to {allowed} call(s) with max_attempts={max}", seen),
    ))
}

fn run_case(env: &Env, idx: &str, kind: &str, variant: &str, max: usize, seq: &[Beh], pv: &Pv) -> CaseOut {
    let mut out = CaseOut::default();
    if seq.contains(&Beh::Refused) && env.sniffer.is_none() {
        out.skip = Some("no_sniffer".into());
        return out;
    }
    let drops0 = env.sniffer.as_ref().map(|s| s.total_drops());
    if let Some(s) = &env.sniffer {
        // the sniffer is alive and has caught up before the case begins
        if let Err(r) = s.barrier() {
            out.skip = Some(r);
            return out;
        }
    }
    let rig = match build_rig(env, idx, kind, max, seq, pv) {
        Ok(r) => r,
        Err(e) => {
            out.skip = Some(e);
            return out;
        }
    };
    let (node, fleet) = (&rig.node, &rig.fleet);
    let mut script_calls = vec![];
    let mut healthy_calls = vec![];
    let mut recovered: Option<usize> = None;
    let mut cut = false;
    let r: Result<(), String> = (|| {
        for _ in 0..(2 * seq.len() + 1) {
            if node.exhausted() {
                break;
            }
            let c = one_call(env, fleet, node, variant)?;
            let slow = c.t1.saturating_duration_since(c.t0) > SLOW_CALL + c.delay * 3 + fleet.pv.stall() * 2;
            script_calls.push(c);
            if slow {
                // far beyond what the script can cost: no point in paying for it 2*len+1 times
                cut = true;
                break;
            }
        }
        node.set_healthy();
        let allowed = if max >= 2 { 1 } else { 2 };
        for i in 0..HEALTHY_CALLS {
            let c = one_call(env, fleet, node, variant)?;
            let ok = c.res == "ok";
            let slow = c.t1.saturating_duration_since(c.t0) > SLOW_CALL + c.delay * 3 + fleet.pv.stall() * 2;
            healthy_calls.push(c);
            if ok {
                recovered = Some(i + 1);
                break;
            }
            if slow && i + 1 >= allowed {
                break; // the verdict on recovery is settled
            }
        }
        Ok(())
    })();
    if let Err(reason) = r {
        out.skip = Some(reason);
        return out;
    }
    if let (Some(s), Some(d0)) = (&env.sniffer, drops0) {
        if s.total_drops() != d0 {
            out.skip = Some("sniffer_drops".into());
            return out;
        }
    }
    // direct oracles
    // A script call whose refusals cannot be accounted for (the fleet reports a refusal the node did not
    // count) leaves the script phase unjudged and the case without an observation for the model — but
    // not the healthy phase: whatever happened before, the node is listening and answering then, and that
    // a call reaches it does not depend on the sniffer.
    let mut script_unjudged: Option<String> = None;
    for (i, c) in script_calls.iter().enumerate() {
        match check_call(kind, max, c, &format!("script call {}", i + 1), seq.contains(&Beh::Refused)) {
            Verdict::Fine => {}
            Verdict::Skip(r) if r == "refusal_unseen" => {
                out.fails.clear();
                script_unjudged = Some(r);
                break;
            }
            Verdict::Skip(r) => {
                out.skip = Some(r);
                return out;
            }
            Verdict::Fail(sig, d) => out.fails.push((sig, d)),
        }
    }
    for (i, c) in healthy_calls.iter().enumerate() {
        match check_call(kind, max, c, &format!("healthy call {}", i + 1), seq.contains(&Beh::Refused)) {
            Verdict::Fine => {}
            Verdict::Skip(r) => {
                out.skip = Some(r);
                return out;
            }
            Verdict::Fail(sig, d) => out.fails.push((sig, d)),
        }
    }
    // recovery: the node is accepting and answering; one call (two if only one attempt is allowed) must succeed
    let allowed = if max >= 2 { 1 } else { 2 };
    if recovered.map_or(true, |k| k > allowed) {
        let first_bad = &healthy_calls[0];
        let cls = first_bad.res.replace("Io(", "").replace(')', "");
        let hist: Vec<String> = healthy_calls.iter().map(show_call).collect();
        out.fails.push((
            format!("fleet.{}.recover.wedged.{}", kind_name(kind), cls),
            format!(
                "after [{}] the node was healthy (listening, answering) but {} call(s) with max_attempts={} did not recover: {} (contacts:result:is_connected); script calls: {}",
                show_seq(seq),
                healthy_calls.len(),
                max,
                hist.join(" "),
                script_calls.iter().map(show_call).collect::<Vec<_>>().join(" ")
            ),
        ));
    }
    if let Some(f) = bystander_check(env, &rig, kind, max) {
        out.fails.push(f);
    }
    if let Some(r) = script_unjudged {
        if out.fails.is_empty() {
            out.skip = Some(r);
            return out;
        }
        out.obs = Some(format!("{idx} script-phase-unjudged"));
        return out;
    }
    if cut && out.fails.is_empty() {
        // the script phase was cut short and nothing is wrong by the oracles: the observation is
        // incomplete, so it is not compared with the model either
        out.skip = Some("slow_call".into());
        return out;
    }
    let mut words = vec![idx.to_string(), "s".into()];
    words.extend(script_calls.iter().map(show_call));
    words.push("|".into());
    words.push("h".into());
    words.extend(healthy_calls.iter().map(show_call));
    words.push("|".into());
    words.push("rec".into());
    words.push(recovered.map_or("never".into(), |k| k.to_string()));
    out.obs = Some(words.join(" "));
    // calls that never reached the node ran on a dead cached client: the model allows a set of error
    // kinds there and is told which one was observed
    let dead: Vec<String> = script_calls
        .iter()
        .chain(healthy_calls.iter())
        .filter(|c| c.contacts.is_empty() && c.res.starts_with("Io("))
        .map(|c| c.res[3..c.res.len() - 1].to_string())
        .collect();
    if !dead.is_empty() {
        out.op_suffix = Some(format!("dead={}", dead.join(",")));
    }
    let all = script_calls.iter().chain(healthy_calls.iter());
    for c in all {
        if c.contacts.len() >= 2 {
            out.counters.push("call.retried".into());
            out.nontrivial = true;
        }
        if c.contacts.is_empty() {
            out.counters.push("call.dead_cache_no_contact".into());
            out.nontrivial = true;
        }
        if c.res != "ok" {
            out.nontrivial = true;
        }
        out.counters.push(format!("result.{}", c.res));
        for x in &c.contacts {
            out.counters.push(format!("contact.{}", x.beh.name()));
        }
    }
    out.counters.push(format!("case.{}.max{}.len{}", kind_name(kind), max.to_string(), seq.len()));
    pv_counters(pv, &mut out.counters);
    out.counters.push(format!("variant.{variant}"));
    out
}


// ------------------------------------------------------------------------------------------
// connection management and health check, mixed with calls
// ------------------------------------------------------------------------------------------
fn run_life(env: &Env, idx: &str, kind: &str, max: usize, seq: &[Beh], ops: &[String], pv: &Pv) -> CaseOut {
    let mut out = CaseOut::default();
    let k = kind_name(kind);
    if seq.contains(&Beh::Refused) && env.sniffer.is_none() {
        out.skip = Some("no_sniffer".into());
        return out;
    }
    let drops0 = env.sniffer.as_ref().map(|s| s.total_drops());
    if let Some(s) = &env.sniffer {
        if let Err(r) = s.barrier() {
            out.skip = Some(r);
            return out;
        }
    }
    let rig = match build_rig(env, idx, kind, max, seq, pv) {
        Ok(r) => r,
        Err(e) => {
            out.skip = Some(e);
            return out;
        }
    };
    set_budget(max, pv.t_node().max(HEALTH_TIMEOUT / max.min(1000) as u32), pv.delay());
    let (node, fleet) = (&rig.node, &rig.fleet);
    let sd = seq.contains(&Beh::Refused);
    let mut words = vec![idx.to_string(), "o".to_string()];
    let mut dead: Vec<String> = vec![];
    let mut healthy_calls = vec![];
    let mut recovered: Option<usize> = None;
    let mut verdicts: Vec<Verdict> = vec![];
    let r: Result<(), String> = (|| {
        for (i, op) in ops.iter().enumerate() {
            let what = format!("operation {} ({op})", i + 1);
            match op.as_str() {
                "call" => {
                    let c = one_call(env, fleet, node, "json")?;
                    verdicts.push(check_call(kind, max, &c, &what, sd));
                    if c.contacts.is_empty() && c.res.starts_with("Io(") {
                        dead.push(c.res[3..c.res.len() - 1].to_string());
                    }
                    words.push(format!("call:{}", show_call(&c)));
                }
                "health" => {
                    let n0 = node.log_len();
                    let pre_conn = fleet.is_connected(env);
                    let conn_mark = node.sh.st.lock().unwrap().next_conn;
                    let t0 = Instant::now();
                    let res = fleet.health(env, &node.method());
                    let t1 = Instant::now();
                    node.settle()?;
                    if let Some(t) = node.trouble() {
                        return Err(t);
                    }
                    let c = CallRec {
                        contacts: node.log_from(n0),
                        res,
                        conn: fleet.is_connected(env),
                        t0,
                        t1,
                        pre_conn,
                        conn_mark,
                        detail: None,
                        node_id: node.sh.id,
                        log_base: n0,
                        app_code: 0,
                        t_node: HEALTH_TIMEOUT,
                        delay: Duration::ZERO,
                        late: false,
                        decodes: false,
                    };
                    // a health check is one attempt: the clauses of a call with max_attempts = 1 …
                    verdicts.push(check_call(kind, 1, &c, &what, sd));
                    // … and an unhealthy verdict must not leave a client (least of all a dead one) behind
                    if c.res != "ok" && c.conn {
                        verdicts.push(Verdict::Fail(
                            format!("fleet.{k}.health.unhealthy_keeps_client"),
                            format!("{what}: verdict {} but is_connected stays true", c.res),
                        ));
                    }
                    if c.contacts.is_empty() && c.res.starts_with("Io(") {
                        dead.push(c.res[3..c.res.len() - 1].to_string());
                    }
                    words.push(format!("health:{}", show_call(&c)));
                }
                "conn" | "reconn" => {
                    let was = fleet.is_connected(env);
                    let n0 = node.log_len();
                    let r = if op == "conn" { fleet.connect_all(env) } else { fleet.reconnect(env) };
                    node.settle()?;
                    if let Some(t) = node.trouble() {
                        return Err(t);
                    }
                    let conn = fleet.is_connected(env);
                    // the fleet says the connect failed: the node's log must show the counted refusal
                    // (and only a refusal can be in the log of a bare connect)
                    let seen: Vec<Contact> = node.log_from(n0);
                    let refusals = seen.iter().filter(|x| x.beh == Beh::Refused && x.via == Via::Connect).count();
                    if (r == Some(false)) != (refusals == 1) || seen.len() != refusals {
                        return Err("refusal_unseen".into());
                    }
                    // the summary and the slot must agree; an occupied slot is not an attempt for reconnect
                    let consistent = match (op.as_str(), r) {
                        ("conn", Some(b)) => b == conn,
                        ("conn", None) => false,
                        (_, None) => was && conn,
                        (_, Some(b)) => !was && b == conn,
                    };
                    if !consistent {
                        verdicts.push(Verdict::Fail(
                            format!("fleet.{k}.{}.summary_mismatch", if op == "conn" { "connect_all" } else { "reconnect" }),
                            format!("{what}: summary {:?}, is_connected before {was} after {conn}", r),
                        ));
                    }
                    let txt = match r {
                        Some(true) => "ok",
                        Some(false) => "failed",
                        None => "-",
                    };
                    words.push(format!("{op}:{txt}:{}", conn as u8));
                }
                "disc" => {
                    fleet.disconnect_all(env);
                    node.settle()?;
                    let conn = fleet.is_connected(env);
                    if conn {
                        verdicts.push(Verdict::Fail(format!("fleet.{k}.disconnect_all.still_connected"), what.clone()));
                    }
                    words.push(format!("disc:{}", conn as u8));
                }
                _ => return Err("bad_life_op".into()),
            }
        }
        node.set_healthy();
        for i in 0..HEALTHY_CALLS {
            let c = one_call(env, fleet, node, "json")?;
            let ok = c.res == "ok";
            healthy_calls.push(c);
            if ok {
                recovered = Some(i + 1);
                break;
            }
        }
        Ok(())
    })();
    if let Err(reason) = r {
        out.skip = Some(reason);
        return out;
    }
    if let (Some(s), Some(d0)) = (&env.sniffer, drops0) {
        if s.total_drops() != d0 {
            out.skip = Some("sniffer_drops".into());
            return out;
        }
    }
    if let Some(f) = bystander_check(env, &rig, kind, max) {
        verdicts.push(Verdict::Fail(f.0, f.1));
    }
    for (i, c) in healthy_calls.iter().enumerate() {
        verdicts.push(check_call(kind, max, c, &format!("healthy call {}", i + 1), sd));
        if c.contacts.is_empty() && c.res.starts_with("Io(") {
            dead.push(c.res[3..c.res.len() - 1].to_string());
        }
    }
    for v in verdicts {
        match v {
            Verdict::Fine => {}
            Verdict::Skip(r) => {
                out.skip = Some(r);
                return out;
            }
            Verdict::Fail(sig, d) => out.fails.push((sig, d)),
        }
    }
    let allowed = if max >= 2 { 1 } else { 2 };
    if recovered.map_or(true, |n| n > allowed) {
        let cls = healthy_calls[0].res.replace("Io(", "").replace(')', "");
        out.fails.push((
            format!("fleet.{k}.recover.wedged.{cls}"),
            format!(
                "after operations [{}] against [{}] the node was healthy but {} call(s) with max_attempts={max} did not recover: {}",
                ops.join(","),
                show_seq(seq),
                healthy_calls.len(),
                healthy_calls.iter().map(show_call).collect::<Vec<_>>().join(" ")
            ),
        ));
    }
    words.push("|".into());
    words.push("h".into());
    words.extend(healthy_calls.iter().map(show_call));
    words.push("|".into());
    words.push("rec".into());
    words.push(recovered.map_or("never".into(), |n| n.to_string()));
    out.obs = Some(words.join(" "));
    if !dead.is_empty() {
        out.op_suffix = Some(format!("dead={}", dead.join(",")));
    }
    out.nontrivial = true;
    for op in ops {
        out.counters.push(format!("life.{op}"));
    }
    out.counters.push(format!("life.{k}.ops{}.len{}", ops.len(), seq.len()));
    pv_counters(pv, &mut out.counters);
    out
}

// ------------------------------------------------------------------------------------------
// broadcast cases
// ------------------------------------------------------------------------------------------
struct BcNode {
    name: String,
    tags: Vec<String>,
    /// empty = healthy; otherwise one of: all `refused`, all `silent`, or replies (`apperr`/`success`)
    script: Vec<Beh>,
    down: bool,
}

fn parse_bc_nodes(s: &str) -> Option<Vec<BcNode>> {
    let mut v = vec![];
    for part in s.split(';').filter(|x| !x.is_empty()) {
        let f: Vec<&str> = part.split('=').collect();
        if f.len() != 3 {
            return None;
        }
        let tags = f[1].split('+').filter(|x| !x.is_empty()).map(|x| x.to_string()).collect();
        let bs = parse_seq(f[2])?;
        // scripts whose every element yields the same class whatever the timing: the node never has
        // to answer within the short timeout that the silent nodes get
        let uniform = |b: Beh| bs.iter().all(|x| *x == b);
        if !(bs.is_empty() || uniform(Beh::Refused) || uniform(Beh::Silent) || bs.iter().all(|b| matches!(b, Beh::AppErr | Beh::Success | Beh::BadBody))) {
            return None;
        }
        let down = !bs.is_empty() && uniform(Beh::Refused);
        v.push(BcNode { name: f[0].to_string(), tags, script: bs, down });
    }
    Some(v)
}

/// How the reducer of a `map_reduce_json` behaves.
#[derive(Clone, Copy, PartialEq, Eq)]
enum Reducer {
    Collect,
    PanicString,
    PanicStr,
    PanicOther,
    Slow,
}

impl AnyFleet {
    /// `broadcast_json` (or `map_reduce_json`): (node name, what it returned) per result
    fn broadcast(&self, env: &Env, method: &str, params: Option<&serde_json::Value>, req: &[String], reducer: Option<Reducer>) -> Vec<(String, Returned)> {
        let one = |r: repe::RemoteResult<serde_json::Value>| (r.node.clone(), returned_json(r));
        let reduce = move |red: Reducer, v: Vec<repe::RemoteResult<serde_json::Value>>| -> Vec<(String, Returned)> {
            match red {
                Reducer::PanicString => std::panic::panic_any(format!("reducer panics with a String over {} results", v.len())),
                Reducer::PanicStr => std::panic::panic_any("reducer panics with a &'static str"),
                Reducer::PanicOther => std::panic::panic_any(4711i32),
                Reducer::Slow => std::thread::sleep(Duration::from_millis(30)),
                Reducer::Collect => {}
            }
            v.into_iter().map(one).collect()
        };
        match (self, reducer) {
            (AnyFleet::B(f), red) => {
                let (f, method, params, req) = (f.clone(), method.to_string(), params.cloned(), req.to_vec());
                guarded("broadcast_json / map_reduce_json", move || match red {
                    None => f.broadcast_json(&method, params.as_ref(), &req).into_iter().map(|(k, r)| (k, returned_json(r))).collect(),
                    Some(red) => f.map_reduce_json(&method, params.as_ref(), &req, |v| reduce(red, v)),
                })
            }
            (AnyFleet::A(f), None) => guarded_async(env, "broadcast_json", f.broadcast_json(method, params, req)).into_iter().map(|(k, r)| (k, returned_json(r))).collect(),
            (AnyFleet::A(f), Some(red)) => guarded_async(env, "map_reduce_json", f.map_reduce_json(method, params, req, |v| reduce(red, v))),
        }
    }
    fn filter_nodes(&self, env: &Env, req: &[String]) -> Vec<String> {
        match self {
            AnyFleet::B(f) => {
                let (f, req) = (f.clone(), req.to_vec());
                guarded("filter_nodes", move || f.filter_nodes(&req).into_iter().map(|n| n.name).collect())
            }
            AnyFleet::A(f) => guarded_async(env, "filter_nodes", f.filter_nodes(req)).into_iter().map(|n| n.name).collect(),
        }
    }
    fn remove_node(&self, env: &Env, name: &str) -> bool {
        match self {
            AnyFleet::B(f) => {
                let (f, name) = (f.clone(), name.to_string());
                guarded("remove_node", move || f.remove_node(&name))
            }
            AnyFleet::A(f) => guarded_async(env, "remove_node", f.remove_node(name)),
        }
    }
    fn add_node(&self, env: &Env, cfg: NodeConfig) -> bool {
        match self {
            AnyFleet::B(f) => {
                let f = f.clone();
                guarded("add_node", move || f.add_node(cfg).is_ok())
            }
            AnyFleet::A(f) => guarded_async(env, "add_node", f.add_node(cfg)).is_ok(),
        }
    }
    /// `call_json` on a name: `None` if the fleet does not know the node
    fn try_call(&self, env: &Env, name: &str, method: &str) -> Option<Returned> {
        match self {
            AnyFleet::B(f) => {
                let (f, name, method) = (f.clone(), name.to_string(), method.to_string());
                guarded("call_json", move || f.call_json(&name, &method, None).ok().map(returned_json))
            }
            AnyFleet::A(f) => guarded_async(env, "call_json", f.call_json(name, method, None)).ok().map(returned_json),
        }
    }
}

fn run_bc(env: &Env, idx: &str, kind: &str, max: usize, nodes: &[BcNode], req: &[String], map_reduce: bool, pv: &Pv) -> CaseOut {
    let mut out = CaseOut::default();
    if nodes.iter().any(|n| n.down) && env.sniffer.is_none() {
        out.skip = Some("no_sniffer".into());
        return out;
    }
    let drops0 = env.sniffer.as_ref().map(|s| s.total_drops());
    if let Some(s) = &env.sniffer {
        if let Err(r) = s.barrier() {
            out.skip = Some(r);
            return out;
        }
    }
    let mut live = vec![];
    for n in nodes {
        let script = n.script.clone();
        match Node::new(script, env.sniffer.clone()) {
            Ok(x) => {
                x.set_app_code_for(&format!("{idx}{}", n.name));
                x.apply(pv);
                live.push(x)
            }
            Err(e) => {
                out.skip = Some(format!("node_{:?}:{e}", e.kind()));
                return out;
            }
        }
    }
    // the strings actually used: names and tags of the op line are tokens, mapped injectively
    let real_name = |tok: &str| pv.name(tok);
    let token_of = |real: &str| nodes.iter().map(|n| n.name.clone()).find(|t| pv.name(t) == real).unwrap_or_else(|| format!("?{real}"));
    let real_req: Vec<String> = req.iter().map(|t| pv.tag(t)).collect();
    let short = |n: &BcNode| n.script.contains(&Beh::Silent);
    let config_of = |i: usize| -> NodeConfig {
        let (n, x) = (&nodes[i], &live[i]);
        // the per-node timeout: short for a node that never answers, generous (and different per node) for the others
        let t = if short(n) { pv.t_node() } else { T_BCAST + Duration::from_millis(100 * i as u64) };
        NodeConfig::new(node_host(), x.port()).unwrap().with_name(real_name(&n.name)).unwrap().with_tags(n.tags.iter().map(|t| pv.tag(t))).with_timeout(t).unwrap()
    };
    set_budget(max, T_BCAST + Duration::from_millis(100 * nodes.len() as u64), pv.delay());
    let configs: Vec<NodeConfig> = (0..nodes.len()).collect::<Vec<_>>().into_iter().map(config_of).collect();
    let fleet = AnyFleet::new(kind, configs, max, pv);
    let held = fleet.clone();
    let _watchers = if pv.ob > 0 {
        Some(Observers::start(env, &fleet, nodes.iter().map(|n| real_name(&n.name)).collect(), pv.ob as usize, Some(Duration::from_micros(30))))
    } else {
        None
    };
    let params_value = pv.params();
    let params: Option<&serde_json::Value> = if pv.pa == 4 { None } else { Some(&params_value) };
    let method = pv.method(&format!("/bc{}", live.first().map_or(0, |x| x.sh.id)));
    for x in &live {
        x.set_token(&method);
    }
    let method = method.as_str();
    let k = kind_name(kind);
    // ---- round 1: the broadcast of the op line (what the model predicts) ----
    let t0 = Instant::now();
    let returned = fleet.broadcast(env, method, params, &real_req, if map_reduce { Some(Reducer::Collect) } else { None });
    let took = t0.elapsed();
    let mut results: Vec<(String, String)> = returned.iter().map(|(n, r)| (token_of(n), r.class.clone())).collect();
    let mut filtered: Vec<String> = fleet.filter_nodes(env, &real_req).iter().map(|n| token_of(n)).collect();
    results.sort();
    filtered.sort();
    let mut addressed = vec![];
    for (n, x) in nodes.iter().zip(&live) {
        if let Err(r) = x.settle() {
            out.skip = Some(r);
            return out;
        }
        if let Some(t) = x.trouble() {
            out.skip = Some(t);
            return out;
        }
        if x.log_len() > 0 {
            addressed.push(n.name.clone());
        } else if n.down && results.iter().any(|(k, v)| *k == n.name && v == "Io(ConnectionRefused)") {
            // the fleet was refused by this node but no refusal was counted: evidence incomplete
            out.skip = Some("refusal_unseen".into());
            return out;
        }
    }
    if let (Some(s), Some(d0)) = (&env.sniffer, drops0) {
        if s.total_drops() != d0 {
            out.skip = Some("sniffer_drops".into());
            return out;
        }
    }
    addressed.sort();
    // direct oracle: exactly the nodes carrying all requested tags, one result each
    let expect_for = |req: &[String], without: Option<&str>| -> Vec<String> {
        let mut v: Vec<String> =
            nodes.iter().filter(|n| Some(n.name.as_str()) != without && req.iter().all(|t| n.tags.contains(t))).map(|n| n.name.clone()).collect();
        v.sort();
        v
    };
    let expect = expect_for(req, None);
    let ctx = format!(
        "nodes {:?} requested {:?} ({}): expected {:?}, contacted {:?}, results {:?}, filter_nodes {:?}",
        nodes.iter().map(|n| (n.name.as_str(), &n.tags)).collect::<Vec<_>>(),
        req,
        pv.show(),
        expect,
        addressed,
        results,
        filtered
    );
    if addressed != expect {
        out.fails.push((format!("fleet.{k}.broadcast.wrong_targets"), ctx.clone()));
    }
    let keys: Vec<String> = results.iter().map(|(k, _)| k.clone()).collect();
    if keys != expect {
        out.fails.push((format!("fleet.{k}.broadcast.results_mismatch"), ctx.clone()));
    }
    if filtered != expect {
        out.fails.push((format!("fleet.{k}.filter_nodes.mismatch"), ctx.clone()));
    }
    // the clauses of a call hold for each node's call: at most max_attempts contacts; a node that
    // answers is contacted once and its result is the reply it sent
    for (i, (n, x)) in nodes.iter().zip(&live).enumerate() {
        let log = x.log_from(0);
        if log.len() > max {
            out.fails.push((format!("fleet.{k}.attempts.exceeds_max"), format!("{ctx}; node {} was contacted {} times, max_attempts {max}", n.name, log.len())));
        }
        let answers = n.script.first().map_or(true, |b| b.is_reply());
        if answers && log.len() > 1 {
            if took >= T_BCAST {
                out.skip = Some("node_lagged".into());
                return out;
            }
            out.fails.push((format!("fleet.{k}.retry_after_reply.broadcast"), format!("{ctx}; node {} answered its first request and was contacted {} times", n.name, log.len())));
        }
        if answers && log.len() == 1 && log[0].beh == Beh::BadBody {
            // a sound frame with an undecodable body: one request, reported as what it is
            let got = returned.iter().find(|(nm, _)| *nm == real_name(&n.name)).map(|(_, r)| r.class.clone());
            if got.as_deref().map_or(false, |g| g != "Decode") {
                out.fails.push((format!("fleet.{k}.report.undecodable_reply_as_something_else"), format!("{ctx}; node {i} ({}) answered with an undecodable body, its result is {got:?}", n.name)));
            }
        } else if answers && log.len() == 1 {
            let want = match log[0].beh {
                Beh::AppErr => format!("{}:{}", x.sh.app_code.load(Ordering::SeqCst), app_error_text(x.sh.id, 0)),
                _ => reply_detail(x.sh.id, 0),
            };
            let got = returned.iter().find(|(nm, _)| *nm == real_name(&n.name)).and_then(|(_, r)| r.detail.clone());
            if let Some(got) = got {
                let named = [1u64, 2, 3, 4, 5, 6, 7, 8, 9, 4096].contains(&x.sh.app_code.load(Ordering::SeqCst)) || log[0].beh != Beh::AppErr;
                let same = if named { got == want } else { got.split_once(':').map(|x| x.1.to_string()) == want.split_once(':').map(|x| x.1.to_string()) };
                if !same {
                    out.fails.push((format!("fleet.{k}.report.not_the_reply"), format!("{ctx}; node {i} ({}) sent {want}, its result holds {got}", n.name)));
                }
            }
        }
    }
    let dash = |v: Vec<String>| if v.is_empty() { "-".to_string() } else { v.join(",") };
    out.obs = Some(format!(
        "{idx} addressed {} results {}",
        dash(addressed.clone()),
        dash(results.iter().map(|(k, v)| format!("{k}={v}")).collect())
    ));
    out.nontrivial = !expect.is_empty() && expect.len() < nodes.len() || nodes.iter().any(|n| !n.script.is_empty());
    out.counters.push(format!("bc.{k}.nodes{}.targets{}", nodes.len(), expect.len()));
    pv_counters(pv, &mut out.counters);
    if !out.fails.is_empty() {
        return out;
    }
    // ---- round 2: the same fleet again, every node healthy now: the twin entry point, another handle,
    // the request written in another order; optionally after a map_reduce whose reducer panicked ----
    for x in &live {
        x.set_healthy();
    }
    let handle: &AnyFleet = match pv.cl {
        0 => &fleet,
        _ => &held,
    };
    if nodes.len() >= 12 {
        // (q) the rare operations on a fleet that holds many nodes in every state (connected, never
        // connected, dropped after a failure): everything is dropped, reconnected, checked, dropped again
        // and partly reconnected before the second round — which must find the fleet as usable as ever
        let first = real_name(&nodes[0].name);
        handle.disconnect_all(env);
        let _ = handle.reconnect(env, &first);
        let _ = fleet.health(env, &first, method);
        let _ = handle.connect_all(env, &first);
        fleet.disconnect_all(env);
        let _ = fleet.connect_all(env, &first);
        out.counters.push("bc.management_on_many_nodes".into());
        for x in &live {
            if let Err(r) = x.settle() {
                out.skip = Some(r);
                return out;
            }
        }
    }
    let before = std::cell::RefCell::new(live.iter().map(|x| x.log_len()).collect::<Vec<usize>>());
    let mut req2: Vec<String> = req.iter().rev().cloned().collect();
    if let Some(first) = req.first() {
        req2.push(first.clone());
    }
    let real_req2: Vec<String> = req2.iter().map(|t| pv.tag(t)).collect();
    // one more round of requests to exactly `expect`, all answered: what the rounds below must show
    let round = |what: &str, returned: Option<Vec<(String, Returned)>>, expect: &[String], out: &mut CaseOut| -> bool {
        for x in &live {
            if let Err(r) = x.settle() {
                out.skip = Some(r);
                return false;
            }
        }
        if let Some(returned) = &returned {
            // a healthy node with the short timeout answered too late: scheduling, not judged
            if returned.iter().any(|(nm, r)| r.class == "Io(TimedOut)" && nodes.iter().any(|n| real_name(&n.name) == *nm && short(n))) {
                out.skip = Some("late_reply".into());
                return false;
            }
        }
        let mut got: Vec<String> = vec![];
        for (i, (n, x)) in nodes.iter().zip(&live).enumerate() {
            let d = x.log_len() - before.borrow()[i];
            before.borrow_mut()[i] = x.log_len();
            if d > 0 {
                got.push(n.name.clone());
            }
            if d > max {
                out.fails.push((format!("fleet.{k}.attempts.exceeds_max"), format!("{what}: node {} was contacted {d} times, max_attempts {max}; {ctx}", n.name)));
            }
        }
        got.sort();
        if got != expect {
            out.fails.push((format!("fleet.{k}.broadcast.wrong_targets"), format!("{what}: expected {expect:?}, contacted {got:?}; {ctx}")));
        }
        if let Some(returned) = returned {
            let mut res: Vec<(String, String)> = returned.iter().map(|(n, r)| (token_of(n), r.class.clone())).collect();
            res.sort();
            let keys: Vec<String> = res.iter().map(|(k, _)| k.clone()).collect();
            if keys != expect {
                out.fails.push((format!("fleet.{k}.broadcast.results_mismatch"), format!("{what}: expected {expect:?}, results {res:?}; {ctx}")));
            }
            for (name, class) in &res {
                if class != "ok" {
                    out.fails.push((format!("fleet.{k}.recover.broadcast"), format!("{what}: every node is healthy but {name} gave {class}; {ctx}")));
                }
            }
        }
        true
    };
    if map_reduce && pv.by > 0 {
        let red = [Reducer::PanicString, Reducer::PanicStr, Reducer::PanicOther][(fnv(idx.as_bytes()) % 3) as usize];
        let r = std::panic::catch_unwind(std::panic::AssertUnwindSafe(|| handle.broadcast(env, method, params, &real_req, Some(red))));
        out.counters.push(format!("bc.reducer_panicked.{}", r.is_err()));
        // the property says nothing about a panicking reducer (it unwinds into the caller, after the
        // fan-out); what is asserted is that the fan-out was the usual one and the fleet works afterwards
        if !round("map_reduce_json with a panicking reducer", None, &expect, &mut out) {
            return out;
        }
    }
    let twin = if map_reduce { None } else { Some(if pv.by == 1 { Reducer::Slow } else { Reducer::Collect }) };
    let returned2 = handle.broadcast(env, method, params, &real_req2, twin);
    if !round(&format!("second broadcast (request {req2:?}, {})", if map_reduce { "broadcast_json" } else { "map_reduce_json" }), Some(returned2), &expect, &mut out) {
        return out;
    }
    out.counters.push("bc.second_round".into());
    // ---- round 3: membership changes: remove a node, broadcast, add it again, broadcast ----
    if pv.mf > 0 && !nodes.is_empty() && out.fails.is_empty() {
        let j = (fnv(idx.as_bytes()) as usize / 7) % nodes.len();
        let gone = nodes[j].name.clone();
        let removed = handle.remove_node(env, &real_name(&gone));
        let known = fleet.try_call(env, &real_name(&gone), method).is_some();
        out.counters.push(format!("bc.membership.removed.{removed}.still_callable.{known}"));
        if known {
            // (a fleet that still knows the node has just called it)
            for x in &live {
                let _ = x.settle();
            }
            *before.borrow_mut() = live.iter().map(|x| x.log_len()).collect::<Vec<usize>>();
        }
        let r3 = fleet.broadcast(env, method, params, &real_req, None);
        if !round(&format!("broadcast after remove_node({gone})"), Some(r3), &expect_for(req, Some(&gone)), &mut out) {
            return out;
        }
        let added = fleet.add_node(env, config_of(j));
        let again = handle.add_node(env, config_of(j));
        out.counters.push(format!("bc.membership.added.{added}.duplicate_accepted.{again}"));
        let r4 = handle.broadcast(env, method, params, &real_req2, Some(Reducer::Collect));
        if !round(&format!("map_reduce_json after add_node({gone})"), Some(r4), &expect, &mut out) {
            return out;
        }
        out.counters.push("bc.membership_round".into());
    }
    for x in &live {
        if let Some(t) = x.trouble() {
            out.skip = Some(t);
            out.fails.clear();
            return out;
        }
    }
    out
}

// ------------------------------------------------------------------------------------------
// observers: threads that look at the fleet through every read-only entry point while a case runs
// ------------------------------------------------------------------------------------------
/// 1–3 threads sweeping the read-only entry points of a clone of the fleet (`is_connected`,
/// `is_connected_all`, `connected_nodes`, `nodes`, `keys`, `len`, `is_empty`, `node`, `filter_nodes`,
/// `options`, `Display`) until dropped. None of them talks to a node; several take the node slots'
/// locks, which is the point: what a call does to a slot must not depend on who else looks at it.
struct Observers {
    stop: Arc<std::sync::atomic::AtomicBool>,
    sweeps: Arc<AtomicU64>,
    /// observations that are not an admissible state: `is_connected` of a node of the fleet answered
    /// "no such node", or more nodes were listed as connected than the fleet has
    inadmissible: Arc<AtomicU64>,
    threads: Vec<std::thread::JoinHandle<()>>,
    tasks: Vec<tokio::task::JoinHandle<()>>,
}

impl Observers {
    /// `pause`: sleep between sweeps (None = spin)
    fn start(env: &Env, fleet: &AnyFleet, names: Vec<String>, count: usize, pause: Option<Duration>) -> Observers {
        let stop = Arc::new(std::sync::atomic::AtomicBool::new(false));
        let sweeps = Arc::new(AtomicU64::new(0));
        let inadmissible = Arc::new(AtomicU64::new(0));
        let mut threads = vec![];
        let mut tasks = vec![];
        let own_runtime = CASE_RT.with(|c| c.borrow().is_some());
        for t in 0..count {
            // every second observer of an async fleet is a task on the fleet's runtime, not a thread
            // (not on a starved runtime of one worker: a spinning task there is the only thing that runs)
            if let (AnyFleet::A(f), true, false) = (fleet, t % 2 == 1, own_runtime) {
                let (f, names, stop, sweeps, inadmissible) = (f.clone(), names.clone(), stop.clone(), sweeps.clone(), inadmissible.clone());
                let batch = if pause.is_none() { 64 } else { 1 };
                tasks.push(env.rt().spawn(async move {
                    while !stop.load(Ordering::Relaxed) {
                        for _ in 0..batch {
                            for n in &names {
                                if f.is_connected(n).await.is_err() {
                                    inadmissible.fetch_add(1, Ordering::Relaxed);
                                }
                            }
                        }
                        if f.connected_nodes().await.len() > f.len().await {
                            inadmissible.fetch_add(1, Ordering::Relaxed);
                        }
                        sweeps.fetch_add(batch, Ordering::Relaxed);
                        match pause {
                            Some(p) => tokio::time::sleep(p).await,
                            None => tokio::task::yield_now().await,
                        }
                    }
                }));
                continue;
            }
            let (fleet, names, stop, sweeps, rt, inadmissible) = (fleet.clone(), names.clone(), stop.clone(), sweeps.clone(), env.rt().handle().clone(), inadmissible.clone());
            let spawned = std::thread::Builder::new().stack_size(256 << 10).spawn(move || {
                let none: [&str; 0] = [];
                let mut k = t;
                // spinning observers spend nearly all their time in the shortest entry point that takes a
                // node slot's lock (`is_connected`), in batches, and sweep the others between batches
                let batch = if pause.is_none() { 512 } else { 1 };
                let mut mine = 0u64;
                while !stop.load(Ordering::Relaxed) {
                    k += 1;
                    match &fleet {
                        AnyFleet::B(f) => {
                            for _ in 0..batch {
                                for n in &names {
                                    if f.is_connected(n).is_err() {
                                        inadmissible.fetch_add(1, Ordering::Relaxed);
                                    }
                                }
                            }
                            match k % 8 {
                                0 => drop(f.connected_nodes()),
                                1 => drop(f.is_connected_all()),
                                2 => drop(format!("{f}")),
                                3 => drop((f.nodes(), f.keys(), f.len(), f.is_empty())),
                                4 => drop((f.filter_nodes(&none), f.options())),
                                5 => drop(names.first().map(|n| f.node(n))),
                                _ => {}
                            }
                        }
                        AnyFleet::A(f) => rt.block_on(async {
                            for _ in 0..batch {
                                for n in &names {
                                    if f.is_connected(n).await.is_err() {
                                        inadmissible.fetch_add(1, Ordering::Relaxed);
                                    }
                                }
                            }
                            match k % 8 {
                                0 => drop(f.connected_nodes().await),
                                1 => drop(f.is_connected_all().await),
                                3 => drop((f.nodes().await, f.keys().await, f.len().await, f.is_empty().await)),
                                4 => drop((f.filter_nodes(&none).await, f.options())),
                                5 => {
                                    if let Some(n) = names.first() {
                                        drop(f.node(n).await)
                                    }
                                }
                                _ => {}
                            }
                        }),
                    }
                    mine += batch as u64;
                    if mine >= 4096 || pause.is_some() {
                        sweeps.fetch_add(mine, Ordering::Relaxed);
                        mine = 0;
                    }
                    if let Some(p) = pause {
                        std::thread::sleep(p);
                    }
                }
                sweeps.fetch_add(mine, Ordering::Relaxed);
            });
            if let Ok(h) = spawned {
                threads.push(h);
            }
        }
        Observers { stop, sweeps, inadmissible, threads, tasks }
    }
    fn sweeps(&self) -> u64 {
        self.sweeps.load(Ordering::Relaxed)
    }
    fn inadmissible(&self) -> u64 {
        self.inadmissible.load(Ordering::Relaxed)
    }
}

impl Drop for Observers {
    fn drop(&mut self) {
        self.stop.store(true, Ordering::SeqCst);
        // an observer stuck inside the fleet (a read-only entry point that never returns) is left behind
        let deadline = Instant::now() + Duration::from_secs(2);
        for h in self.threads.drain(..) {
            while !h.is_finished() && Instant::now() < deadline {
                std::thread::sleep(Duration::from_micros(200));
            }
            if h.is_finished() {
                let _ = h.join();
            }
        }
        for t in self.tasks.drain(..) {
            t.abort();
        }
    }
}

/// `obs`: rounds of "the node drops one request, then is healthy" on one fleet, with observer threads
/// spinning. Round = the node's script is `[atc]`; call A; if A did not succeed, call B.
/// max_attempts >= 2: A's second attempt must reconnect and succeed. max_attempts = 1: A fails with the
/// transport error, B must reconnect and succeed. The oracle does not depend on timing (a healthy
/// node must be reached after a transport failure); only the interleaving with the observers does,
/// hence the rounds.
fn run_obs(env: &Env, idx: &str, kind: &str, variant: &str, max: usize, observers: usize, rounds: usize, pv: &Pv) -> CaseOut {
    let mut out = CaseOut::default();
    let k = kind_name(kind);
    let rig = match build_rig(env, idx, kind, max, &[], pv) {
        Ok(r) => r,
        Err(e) => {
            out.skip = Some(e);
            return out;
        }
    };
    let (node, fleet) = (&rig.node, &rig.fleet);
    let mut names = vec![pv.name("n")];
    if rig.by.is_some() {
        names.push(pv.name("by"));
    }
    let watchers = Observers::start(env, &fleet.orig, names, observers, None);
    let norm = |c: &CallRec| -> String {
        let res = match c.res.as_str() {
            "Io(ConnectionReset)" | "Io(ConnectionAborted)" => "Io(UnexpectedEof)",
            x => x,
        };
        format!("{}:{}:{}", c.contacts.len(), res, c.conn as u8)
    };
    let mut first: Option<String> = None;
    let mut deviation: Option<(usize, String)> = None;
    for round in 0..rounds {
        node.reload(vec![Beh::Atc]);
        let r: Result<Vec<CallRec>, String> = (|| {
            let a = one_call(env, fleet, node, variant)?;
            if a.res == "ok" {
                return Ok(vec![a]);
            }
            let b = one_call(env, fleet, node, variant)?;
            Ok(vec![a, b])
        })();
        let calls = match r {
            Ok(c) => c,
            Err(e) => {
                out.skip = Some(e);
                return out;
            }
        };
        let shown = calls.iter().map(norm).collect::<Vec<_>>().join(" ");
        let ctx = format!(
            "round {round} of {rounds}, {observers} observer thread(s) ({} looks at the node slot so far), max_attempts {max}: calls {} (contacts:result:is_connected)",
            watchers.sweeps(),
            calls.iter().map(show_call).collect::<Vec<_>>().join(" ")
        );
        let a = &calls[0];
        // a starved node may answer too late; that is a matter of scheduling
        if calls.iter().any(|c| c.res == "Io(TimedOut)") {
            out.skip = Some("late_reply".into());
            return out;
        }
        if max >= 2 && a.res != "ok" && a.contacts.len() == 1 {
            // one request reached the node, the node dropped it and has been accepting and answering
            // since; attempts were left, none of them reached the node
            out.fails.push((format!("fleet.{k}.recover.next_attempt_did_not_reconnect"), ctx.clone()));
        }
        if let Some(b) = calls.get(1) {
            if max == 1 && b.res != "ok" && b.contacts.is_empty() && a.contacts.len() == 1 {
                out.fails.push((format!("fleet.{k}.recover.next_call_did_not_reconnect"), ctx.clone()));
            }
        }
        // the clauses of a call, and the rules about evidence that deviated from the script for
        // reasons of scheduling (a request read after the client had given up, a late reply …)
        if out.fails.is_empty() {
            for (i, c) in calls.iter().enumerate() {
                match check_call(kind, max, c, &format!("round {round}, call {}", i + 1), false) {
                    Verdict::Fine => {}
                    Verdict::Skip(r) => {
                        out.skip = Some(r);
                        return out;
                    }
                    Verdict::Fail(sig, d) => {
                        out.fails.push((sig, format!("{d}; {ctx}")));
                        break;
                    }
                }
            }
        }
        if !out.fails.is_empty() {
            deviation = Some((round, shown));
            break;
        }
        match &first {
            None => first = Some(shown),
            Some(f) if *f != shown => {
                deviation = Some((round, shown));
                break;
            }
            _ => {}
        }
    }
    let sweeps = watchers.sweeps();
    if watchers.inadmissible() > 0 && out.fails.is_empty() {
        out.fails.push((format!("fleet.{k}.observer.inadmissible_state"), format!("{} inadmissible observation(s) in {rounds} rounds", watchers.inadmissible())));
        deviation = Some((0, String::new()));
    }
    drop(watchers);
    out.obs = Some(match deviation {
        None => format!("{idx} all {}", first.unwrap_or_default()),
        // which round an interleaving hits differs from execution to execution: a failing case says
        // only that it deviates (round and calls are in the failure's detail), so that it reproduces
        Some(_) if !out.fails.is_empty() => format!("{idx} deviates"),
        Some((r, s)) => format!("{idx} first {} round {r} {s}", first.unwrap_or_default()),
    });
    out.nontrivial = true;
    out.counters.push(format!("obs.{k}.max{max}.observers{observers}"));
    out.counters.push(format!("obs.looks_per_round.{}k", if rounds == 0 { 0 } else { (sweeps / rounds as u64 / 1000).min(100) / 10 * 10 }));
    pv_counters(pv, &mut out.counters);
    out
}

/// `cx`: an async fleet operation is cancelled (its future dropped) at a drawn instant, in rounds on one
/// fleet; afterwards the node is healthy and a call must reconnect and succeed — with the reply of that
/// call, not one addressed to the cancelled request. What the cancelled operation did to the node is
/// not predicted (it depends on the instant); the rounds are "exercised only" for the model.
fn run_cx(env: &Env, idx: &str, max: usize, rounds: usize, pv: &Pv) -> CaseOut {
    let mut out = CaseOut::default();
    let kind = "a";
    let k = kind_name(kind);
    let rig = match build_rig(env, idx, kind, max, &[], pv) {
        Ok(r) => r,
        Err(e) => {
            out.skip = Some(e);
            return out;
        }
    };
    let (node, fleet) = (&rig.node, &rig.fleet);
    let AnyFleet::A(f) = &fleet.orig else { unreachable!() };
    let name = pv.name("n");
    let params = pv.params();
    let none: [&str; 0] = [];
    let mut rng = Rng::new(fnv(idx.as_bytes()) | 1);
    let allowed = if max >= 2 { 1 } else { 2 };
    for round in 0..rounds {
        let what = round % 6;
        // calls are cancelled against a node that would stay silent (the call is mid-attempt whenever the
        // cut falls) or that answers (the cut races with the reply); operations that spawn their work
        // (connect_all, broadcast_json) only against a node that answers: what they spawned runs on
        let silent = what < 2;
        node.reload(if silent { vec![Beh::Silent] } else { vec![] });
        let cut = Duration::from_micros(rng.below(if silent { 20_000 } else { 1_500 }));
        let method = node.method();
        let done: bool = env.rt().block_on(async {
            match what {
                0 | 2 => tokio::time::timeout(cut, f.call_json(&name, &method, Some(&params))).await.is_ok(),
                1 | 3 => tokio::time::timeout(cut, f.call_message(&name, &method)).await.is_ok(),
                4 => tokio::time::timeout(cut, f.connect_all()).await.is_ok(),
                _ => tokio::time::timeout(cut, f.broadcast_json(&method, Some(&params), &none)).await.is_ok(),
            }
        });
        out.counters.push(format!("cx.op{what}.{}", if done { "completed" } else { "cancelled" }));
        node.reload(vec![]);
        if what >= 4 {
            std::thread::sleep(Duration::from_millis(20)); // what the operation spawned finishes against a node that answers
        }
        if let Err(e) = node.settle() {
            out.skip = Some(e);
            return out;
        }
        let mut calls = vec![];
        let mut recovered = false;
        for _ in 0..allowed {
            match one_call(env, fleet, node, ["json", "msg", "jsonnp"][round % 3]) {
                Ok(c) => {
                    let ok = c.res == "ok";
                    calls.push(c);
                    if ok {
                        recovered = true;
                        break;
                    }
                }
                Err(e) => {
                    out.skip = Some(e);
                    return out;
                }
            }
        }
        let ctx = format!(
            "round {round} of {rounds}: operation {what} ({}) dropped after {}µs ({}); then the node answers: calls {} (contacts:result:is_connected), max_attempts {max}",
            ["call_json/silent node", "call_message/silent node", "call_json", "call_message", "connect_all", "broadcast_json"][what],
            cut.as_micros(),
            if done { "it had completed" } else { "cancelled" },
            calls.iter().map(show_call).collect::<Vec<_>>().join(" ")
        );
        for (i, c) in calls.iter().enumerate() {
            match check_call(kind, max, c, &format!("round {round}, call {}", i + 1), false) {
                Verdict::Fine => {}
                Verdict::Skip(r) => {
                    out.skip = Some(r);
                    return out;
                }
                Verdict::Fail(sig, d) => {
                    out.fails.push((sig, format!("{d}; {ctx}")));
                    break;
                }
            }
        }
        if out.fails.is_empty() && !recovered {
            if calls.iter().any(|c| c.res == "Io(TimedOut)" && c.contacts.iter().any(|x| x.beh == Beh::Success)) {
                out.skip = Some("late_reply".into());
                return out;
            }
            out.fails.push((format!("fleet.{k}.recover.after_cancel"), ctx));
        }
        if !out.fails.is_empty() {
            break;
        }
    }
    out.obs = Some(if out.fails.is_empty() { format!("{idx} rounds ok") } else { format!("{idx} deviates") });
    out.nontrivial = true;
    out.counters.push(format!("cx.max{max}"));
    pv_counters(pv, &mut out.counters);
    out
}

/// `ux`: replies whose handling belongs to other properties — a response carrying another request's id,
/// a "response" with the notify flag set, a header that announces a frame of 2^40 bytes — in rounds on
/// one fleet. What the clients make of them (an error of which class, a timeout, a dead connection) is
/// not this property's business and is not predicted; this property's clauses are: the call returns, at
/// most `max_attempts` requests reach the node, and once the node answers properly again a call
/// succeeds (within two calls) with its own reply.
fn run_ux(env: &Env, idx: &str, kind: &str, max: usize, rounds: usize, pv: &Pv) -> CaseOut {
    let mut out = CaseOut::default();
    let k = kind_name(kind);
    let rig = match build_rig(env, idx, kind, max, &[], pv) {
        Ok(r) => r,
        Err(e) => {
            out.skip = Some(e);
            return out;
        }
    };
    let (node, fleet) = (&rig.node, &rig.fleet);
    for round in 0..rounds {
        let odd = 3 + (round % 3) as u64;
        node.sh.malformed_kind.store(odd, Ordering::SeqCst);
        node.reload(vec![Beh::Malformed; max.min(4)]);
        let variant = ["json", "msg", "jsonnp"][round % 3];
        let a = match one_call(env, fleet, node, variant) {
            Ok(c) => c,
            Err(e) => {
                out.skip = Some(e);
                return out;
            }
        };
        let what = ["a response with another request's id", "a response with the notify flag set", "a header announcing 2^40 bytes"][round % 3];
        if a.contacts.len() > max {
            out.fails.push((format!("fleet.{k}.attempts.exceeds_max"), format!("round {round}: the node answered with {what}; {} requests reached it, max_attempts {max}", a.contacts.len())));
            break;
        }
        out.counters.push(format!("ux.{k}.kind{odd}.{}", a.res));
        node.reload(vec![]);
        let mut calls = vec![];
        let mut recovered = false;
        for _ in 0..2 {
            match one_call(env, fleet, node, variant) {
                Ok(c) => {
                    let ok = c.res == "ok";
                    calls.push(c);
                    if ok {
                        recovered = true;
                        break;
                    }
                }
                Err(e) => {
                    out.skip = Some(e);
                    return out;
                }
            }
        }
        let ctx = format!(
            "round {round} of {rounds}: the node answered with {what} (the fleet reported {} after {} request(s)); then it answers properly: calls {} (contacts:result:is_connected), max_attempts {max}",
            a.res,
            a.contacts.len(),
            calls.iter().map(show_call).collect::<Vec<_>>().join(" ")
        );
        for (i, c) in calls.iter().enumerate() {
            match check_call(kind, max, c, &format!("round {round}, call {}", i + 1), false) {
                Verdict::Fine => {}
                Verdict::Skip(r) => {
                    out.skip = Some(r);
                    return out;
                }
                Verdict::Fail(sig, d) => {
                    out.fails.push((sig, format!("{d}; {ctx}")));
                    break;
                }
            }
        }
        if out.fails.is_empty() && !recovered {
            if calls.iter().any(|c| c.res == "Io(TimedOut)" && c.contacts.iter().any(|x| x.beh == Beh::Success)) {
                out.skip = Some("late_reply".into());
                return out;
            }
            out.fails.push((format!("fleet.{k}.recover.after_foreign_reply"), ctx));
        }
        if !out.fails.is_empty() {
            break;
        }
    }
    out.obs = Some(if out.fails.is_empty() { format!("{idx} rounds ok") } else { format!("{idx} deviates") });
    out.nontrivial = true;
    out.counters.push(format!("ux.{k}.max{max}"));
    pv_counters(pv, &mut out.counters);
    out
}

// ------------------------------------------------------------------------------------------
// what the constructors refuse
// ------------------------------------------------------------------------------------------
fn run_opts(env: &Env, idx: &str, kind: &str, what: &str) -> CaseOut {
    let mut out = CaseOut::default();
    set_budget(2, T_BCAST, Duration::from_millis(1));
    let k = kind_name(kind);
    let mk = || Node::new(vec![], env.sniffer.clone()).map_err(|e| format!("node_{:?}:{e}", e.kind()));
    let (n1, n2) = match (mk(), mk()) {
        (Ok(a), Ok(b)) => (a, b),
        (Err(e), _) | (_, Err(e)) => {
            out.skip = Some(e);
            return out;
        }
    };
    let cfg = |x: &Node, name: &str| NodeConfig::new(node_host(), x.port()).unwrap().with_name(name).unwrap().with_timeout(T_BCAST).unwrap();
    let opts = |max: usize| FleetOptions { default_timeout: T_BCAST, retry_policy: RetryPolicy { max_attempts: max, delay: Duration::from_millis(1) } };
    let build = |configs: Vec<NodeConfig>, max: usize| -> Option<AnyFleet> {
        match kind {
            "b" => Fleet::with_options(configs, opts(max)).ok().map(AnyFleet::B),
            _ => AsyncFleet::with_options(configs, opts(max)).ok().map(AnyFleet::A),
        }
    };
    let accepted = match what {
        "zero" => match build(vec![cfg(&n1, "n")], 0) {
            None => false,
            Some(f) => {
                // a policy of zero attempts was accepted: a call must still report a reply or a transport error
                let r = f.call(env, "json", "n", &n1.method(), &serde_json::json!({"x": 1}));
                if r.class == "None" {
                    out.fails.push((
                        format!("fleet.{k}.report.neither_reply_nor_error"),
                        "with_options accepted max_attempts = 0; a call to a healthy node returned neither a value nor an error".into(),
                    ));
                }
                true
            }
        },
        "dup" => build(vec![cfg(&n1, "n"), cfg(&n2, "n")], 2).is_some(),
        _ => match build(vec![cfg(&n1, "n")], 2) {
            None => {
                out.skip = Some("opts_setup".into());
                return out;
            }
            Some(f) => f.add_node(env, cfg(&n2, "n")),
        },
    };
    out.obs = Some(format!("{idx} {}", if accepted { "accepted" } else { "rejected" }));
    out.counters.push(format!("opts.{k}.{what}"));
    out.nontrivial = true;
    out
}

// ------------------------------------------------------------------------------------------
// op lines
// ------------------------------------------------------------------------------------------
/// One case. A call into the code under test that outlives its budget unwinds the case from wherever
/// it is; the case then has one verdict: the call never returned (the attempt bound and "reports the
/// reply or the last transport error" are both violated by a call that reports nothing, ever).
fn exec(env: &Env, line: &str) -> CaseOut {
    NEVER_RETURNED.with(|n| *n.borrow_mut() = None);
    match std::panic::catch_unwind(std::panic::AssertUnwindSafe(|| exec_case(env, line))) {
        Ok(r) => r,
        Err(p) => {
            let Some((what, budget)) = NEVER_RETURNED.with(|n| n.borrow_mut().take()) else { std::panic::resume_unwind(p) };
            let w = words(line);
            let idx = w.get(1).copied().unwrap_or("?");
            let kind = w.iter().skip(2).find(|x| **x == "a" || **x == "b").copied().unwrap_or("b");
            CaseOut {
                obs: Some(format!("{idx} never-returned")),
                fails: vec![(
                    format!("fleet.{}.call_never_returned", kind_name(kind)),
                    format!("{what} had not returned after {} ms — three times the configured bound (max_attempts × (timeout + retry delay)) plus 5 s; the case was abandoned there", budget.as_millis()),
                )],
                nontrivial: true,
                ..Default::default()
            }
        }
    }
}

fn exec_case(env: &Env, line: &str) -> CaseOut {
    let mut w = words(line);
    // the parameter word may stand anywhere; without it every parameter has its ordinary value
    let pv = match w.iter().find(|x| x.starts_with("p=")) {
        None => Pv::default(),
        Some(x) => match Pv::parse(x) {
            Some(p) => p,
            None => return CaseOut { obs: Some(format!("{} bad-op", w.get(1).copied().unwrap_or("?"))), ..Default::default() },
        },
    };
    w.retain(|x| !x.starts_with("p="));
    let pv = &pv;
    let _own_runtime = CaseRt::enter(pv.rt == 1);
    let bad = || CaseOut { obs: Some(format!("{} bad-op", w.get(1).copied().unwrap_or("?"))), ..Default::default() };
    match w.as_slice() {
        ["case", idx, kind, variant, max, seq, ..] if w.len() <= 7 && ["b", "a"].contains(kind) && ["json", "jsonnp", "msg"].contains(variant) => {
            // a 7th word `dead=…` of a recorded op line is what an earlier run observed; it is observed again
            let (Ok(max), Some(seq)) = (max.parse::<usize>(), parse_seq(seq)) else { return bad() };
            if max == 0 || max > 1000 {
                return bad();
            }
            run_case(env, idx, kind, variant, max, &seq, pv)
        }
        [op @ ("bc" | "mr"), idx, kind, max, nodes, req] if ["b", "a"].contains(kind) => {
            let (Ok(max), Some(nodes)) = (max.parse::<usize>(), parse_bc_nodes(nodes)) else { return bad() };
            let req: Vec<String> = if *req == "-" { vec![] } else { req.split(',').map(|x| x.to_string()).collect() };
            let mut r = run_bc(env, idx, kind, max, &nodes, &req, *op == "mr", pv);
            if !r.fails.is_empty() {
                // which nodes a defective fan-out leaves out can depend on the iteration order of a hash
                // map: a failing broadcast says only that it deviates (the detail has the rest), so that
                // it reproduces
                r.obs = Some(format!("{idx} deviates"));
            }
            r
        }
        ["obs", idx, kind, variant, max, observers, rounds] if ["b", "a"].contains(kind) && ["json", "jsonnp", "msg"].contains(variant) => {
            let (Ok(max), Ok(o), Ok(r)) = (max.parse::<usize>(), observers.parse::<usize>(), rounds.parse::<usize>()) else { return bad() };
            if max == 0 || max > 1000 || o > 8 || r == 0 || r > 100_000 {
                return bad();
            }
            run_obs(env, idx, kind, variant, max, o, r, pv)
        }
        ["ux", idx, kind, max, rounds] if ["b", "a"].contains(kind) => {
            let (Ok(max), Ok(r)) = (max.parse::<usize>(), rounds.parse::<usize>()) else { return bad() };
            if max == 0 || max > 1000 || r == 0 || r > 100_000 {
                return bad();
            }
            run_ux(env, idx, kind, max, r, pv)
        }
        ["cx", idx, "a", max, rounds] => {
            let (Ok(max), Ok(r)) = (max.parse::<usize>(), rounds.parse::<usize>()) else { return bad() };
            if max == 0 || max > 1000 || r == 0 || r > 100_000 {
                return bad();
            }
            run_cx(env, idx, max, r, pv)
        }
        ["opts", idx, kind, what] if ["b", "a"].contains(kind) && ["zero", "dup", "dupadd"].contains(what) => run_opts(env, idx, kind, what),
        ["life", idx, kind, max, seq, ops, ..] if w.len() <= 7 && ["b", "a"].contains(kind) => {
            let (Ok(max), Some(seq)) = (max.parse::<usize>(), parse_seq(seq)) else { return bad() };
            let ops: Vec<String> = ops.split(',').filter(|x| !x.is_empty()).map(|x| x.to_string()).collect();
            if max == 0 || max > 1000 || ops.is_empty() || !ops.iter().all(|o| ["conn", "disc", "reconn", "health", "call"].contains(&o.as_str())) {
                return bad();
            }
            run_life(env, idx, kind, max, &seq, &ops, pv)
        }
        _ => bad(),
    }
}

fn all_seqs(len: usize) -> Vec<Vec<Beh>> {
    let mut out: Vec<Vec<Beh>> = vec![vec![]];
    for _ in 0..len {
        out = out.into_iter().flat_map(|s| ALL_BEH.iter().map(move |b| { let mut t = s.clone(); t.push(*b); t })).collect();
    }
    out
}

fn gen_cases(rng: &mut Rng, thorough: bool) -> Vec<String> {
    let mut ops = vec![];
    let mut n = 0usize;
    let mut n_new = 0usize;
    let variants = ["json", "jsonnp", "msg"];
    // every third case has the ordinary value of every parameter (no `p=` word), the others a drawn one
    let mut push = |ops: &mut Vec<String>, rng: &mut Rng, kind: &str, max: usize, seq: &[Beh]| {
        n += 1;
        let pw = |rng: &mut Rng, k: usize| if k % 3 == 0 { String::new() } else { format!(" {}", Pv::random_for(rng, seq).show()) };
        if thorough && max <= 2 {
            // every call variant
            for (j, v) in variants.iter().enumerate() {
                let tag = match *v { "json" => "j", "jsonnp" => "n", _ => "m" };
                ops.push(format!("case c{n}{tag} {kind} {v} {max} {}{}", show_seq(seq), pw(rng, n + j)));
            }
        } else {
            ops.push(format!("case c{n} {kind} {} {max} {}{}", variants[n % 3], show_seq(seq), pw(rng, n / 3)));
        }
    };
    // exhaustive part: every sequence of length <= bound
    let bounds: Vec<(usize, usize)> = if thorough { vec![(1, 3), (2, 4), (3, 5)] } else { vec![(1, 3), (2, 4), (3, 3)] };
    for (max, bound) in &bounds {
        for len in 0..=*bound {
            for seq in all_seqs(len) {
                for kind in ["b", "a"] {
                    push(&mut ops, rng, kind, *max, &seq);
                }
            }
        }
    }
    // sampled part (quick only): longer sequences for max 3
    if !thorough {
        for _ in 0..300 {
            let max = 3usize;
            let len = rng.range(4, max as u64 + 2) as usize;
            let seq: Vec<Beh> = (0..len).map(|_| *rng.pick(&ALL_BEH)).collect();
            let kind = if rng.chance(1, 2) { "b" } else { "a" };
            push(&mut ops, rng, kind, max, &seq);
        }
    }
    // larger bounds (the script ends, then the node answers):
    // sequences up to length 6 with at most two `silent`
    for _ in 0..(if thorough { 600 } else { 150 }) {
        // (not usize::MAX: a fleet — or the model under changed facts — that fails to leave the loop
        // would then spin for ever instead of being caught at attempt max+1)
        let max = *rng.pick(&[4usize, 5, 8, 64]);
        let len = rng.range(0, 6) as usize;
        let mut seq: Vec<Beh> = (0..len).map(|_| *rng.pick(&ALL_BEH)).collect();
        let mut silents = 0;
        for b in seq.iter_mut() {
            if *b == Beh::Silent {
                silents += 1;
                if silents > 2 {
                    *b = Beh::Atc;
                }
            }
        }
        let kind = if rng.chance(1, 2) { "b" } else { "a" };
        push(&mut ops, rng, kind, max, &seq);
    }
    // the twin constructor `new` (default options: 3 attempts, 1 s between them): scripts with at most
    // one failing attempt, no `silent` (each retry costs the default delay)
    {
        let firsts = [Beh::Refused, Beh::Atc, Beh::Idle, Beh::Malformed, Beh::AppErr, Beh::Success];
        for (i, b) in firsts.iter().enumerate() {
            for kind in ["b", "a"] {
                n_new += 1;
                let mut pv = Pv::random_for(rng, &[*b]);
                pv.op = 1;
                pv.dl = 0;
                let seq = if i % 2 == 0 { vec![*b] } else { vec![*b, Beh::Success] };
                ops.push(format!("case d{n_new} {kind} {} 3 {} {}", ["json", "jsonnp", "msg"][n_new % 3], show_seq(&seq), pv.show()));
            }
        }
    }
    // (g) the same outcome N times in a row, then a healthy node: the N-th is treated like the first
    {
        let ns: Vec<usize> = if thorough { vec![2, 7, 8, 9, 16, 17, 64, 65, 256] } else { vec![2, 7, 8, 9, 16, 17] };
        let mut g = 0usize;
        for b in ALL_BEH {
            for nrep in &ns {
                if b == Beh::Silent && *nrep > if thorough { 17 } else { 9 } {
                    continue;
                }
                for max in [1usize, 3] {
                    g += 1;
                    let kind = if g % 2 == 0 { "b" } else { "a" };
                    let seq = vec![b; *nrep];
                    let pw = if g % 3 == 0 { String::new() } else { format!(" {}", Pv::random_for(rng, &seq).show()) };
                    ops.push(format!("case g{g} {kind} {} {max} {}{pw}", ["json", "jsonnp", "msg"][g % 3], show_seq(&seq)));
                }
            }
        }
        if thorough {
            for b in [Beh::Atc, Beh::Success, Beh::AppErr, Beh::Idle] {
                for (kind, max) in [("b", 1usize), ("a", 8)] {
                    g += 1;
                    ops.push(format!("case g{g} {kind} json {max} {}", show_seq(&vec![b; 1000])));
                }
            }
        }
        // the same management operation N times in a row, against N times the same outcome
        for (i, op) in ["conn", "reconn", "health", "call", "disc", "disc,reconn", "health,call"].iter().enumerate() {
            for nrep in [8usize, 17] {
                g += 1;
                let b = [Beh::Refused, Beh::Atc, Beh::Idle, Beh::Malformed, Beh::AppErr][(i + nrep) % 5];
                let kind = if g % 2 == 0 { "b" } else { "a" };
                let seq = vec![b; nrep];
                ops.push(format!("life lg{g} {kind} {} {} {} {}", 1 + g % 3, show_seq(&seq), vec![*op; nrep].join(","), Pv::random_for(rng, &seq).show()));
            }
        }
        // fan-out over many nodes (16, 17, 33; thorough 64, 65, 129): one result per addressed node
        let counts: Vec<usize> = if thorough { vec![16, 17, 33, 64, 65, 129] } else { vec![16, 17, 33] };
        for cnt in counts {
            for (j, kind) in ["b", "a"].iter().enumerate() {
                g += 1;
                let nodes: Vec<String> = (0..cnt)
                    .map(|i| {
                        let tags = match i % 3 { 0 => "a", 1 => "a+b", _ => "b" };
                        let bs = if i == 5 { "refused" } else if i == 7 { "silent" } else if i == 9 { "apperr" } else { "-" };
                        format!("n{i:03}={tags}={bs}")
                    })
                    .collect();
                let mut pv = Pv::random(rng);
                pv.rs = pv.rs.min(3); // not the large replies times a hundred nodes
                pv.fr = 3; // every reply takes a few ms: all the calls of the fan-out are in flight at the same time
                ops.push(format!("{} bg{g} {kind} 1 {} {} {}", if j == 0 { "bc" } else { "mr" }, nodes.join(";"), ["a", "b,a", "-"][g % 3], pv.show()));
            }
        }
    }
    // a well-framed reply (error code 0) with an undecodable body — empty, JSON cut short, not JSON, a
    // wrong format code, not UTF-8, trailing bytes: every sequence of length <= 2 that contains it, over
    // the eight outcomes, for each entry point (with params, without, message) and max_attempts 1..3;
    // in a row; in broadcasts (with and without params)
    {
        let eight: Vec<Beh> = ALL_BEH.iter().copied().chain(std::iter::once(Beh::BadBody)).collect();
        let mut seqs: Vec<Vec<Beh>> = vec![vec![Beh::BadBody]];
        for a in &eight {
            for b in &eight {
                if *a == Beh::BadBody || *b == Beh::BadBody {
                    seqs.push(vec![*a, *b]);
                }
            }
        }
        let mut q = 0usize;
        for seq in &seqs {
            for (vi, v) in ["json", "jsonnp", "msg"].iter().enumerate() {
                for max in [1usize, 2, 3] {
                    q += 1;
                    if !thorough && (q + vi) % 2 == 0 && seq.len() == 2 {
                        continue; // quick: half of the two-element ones
                    }
                    let kind = if q % 2 == 0 { "b" } else { "a" };
                    let mut pv = Pv::random_for(rng, seq);
                    pv.bb = (q % 8) as u8;
                    ops.push(format!("case q{q} {kind} {v} {max} {} {}", show_seq(seq), pv.show()));
                }
            }
        }
        for nrep in [2usize, 8, 17] {
            for (vi, v) in ["json", "jsonnp", "msg"].iter().enumerate() {
                q += 1;
                let mut pv = Pv::random(rng);
                pv.bb = ((q + vi) % 8) as u8;
                ops.push(format!("case q{q} {} {v} {} {} {}", ["b", "a"][q % 2], 1 + q % 3, show_seq(&vec![Beh::BadBody; nrep]), pv.show()));
            }
        }
        for bb in 0..8u8 {
            for kind in ["b", "a"] {
                for pa in [0u8, 4] {
                    q += 1;
                    let pv = Pv { bb, pa, ..Pv::random(rng) };
                    let op = if q % 2 == 0 { "bc" } else { "mr" };
                    ops.push(format!("{op} bq{q} {kind} {} n0=a=badbody;n1=a=-;n2=b=badbody a {}", 1 + q % 3, pv.show()));
                }
            }
        }
    }
    // (s) replies that stall in mid-frame for longer than any plausible internal timer (300 ms, 600 ms,
    // 1.1 s; thorough also 2.5 s, 5.5 s, 11 s) under a node timeout of twice that + 2 s: still the reply,
    // one request. Run side by side, so the wall time is that of the longest.
    {
        let scripts: [&[Beh]; 4] = [&[Beh::Success], &[Beh::AppErr], &[Beh::Atc, Beh::Success], &[Beh::BadBody]];
        let mut sn = 0usize;
        for st in 1..=(if thorough { 6u8 } else { 3 }) {
            for kind in ["b", "a"] {
                for v in ["json", "jsonnp", "msg"] {
                    for sc in scripts {
                        sn += 1;
                        let pv = Pv { st, bb: (sn % 8) as u8, cl: (sn % 3) as u8, ..Pv::default() };
                        ops.push(format!("case s{sn} {kind} {v} {} {} {}", 2 + sn % 2, show_seq(sc), pv.show()));
                    }
                }
            }
        }
    }
    // (k) pairs of knobs at their extremes: an orthogonal array of strength 2 over seven two-valued knobs
    // (max_attempts 1|64, retry delay 0|40 ms, node timeout 60|120 ms, default timeout 1 ms|20 s, handle
    // fleet|fresh clone, shared|own starved runtime, replies whole|in stalled pieces): every pair of
    // values of every two knobs occurs together
    {
        let scripts: [&[Beh]; 4] = [&[Beh::Silent, Beh::Atc, Beh::Success], &[Beh::Idle, Beh::Atc], &[Beh::Malformed, Beh::AppErr, Beh::Idle], &[Beh::Atc, Beh::Atc, Beh::Atc]];
        let mut kk = 0usize;
        for row in 0..8u8 {
            let (b0, b1, b2) = (row & 1, row >> 1 & 1, row >> 2 & 1);
            let col = [b0, b1, b2, b0 ^ b1, b0 ^ b2, b1 ^ b2, b0 ^ b1 ^ b2];
            for sc in scripts {
                for kind in ["b", "a"] {
                    kk += 1;
                    let pv = Pv {
                        dl: [1, 3][col[1] as usize],
                        to: [1, 2][col[2] as usize],
                        dt: [1, 0][col[3] as usize],
                        cl: [0, 2][col[4] as usize],
                        rt: col[5],
                        fr: [0, 3][col[6] as usize],
                        ..Pv::default()
                    };
                    let max = [1usize, 64][col[0] as usize];
                    ops.push(format!("case k{kk} {kind} {} {max} {} {}", ["json", "jsonnp", "msg"][kk % 3], show_seq(sc), pv.show()));
                }
            }
        }
    }
    // (u) replies that are other properties' business (foreign id, notify flag, an absurd length): the
    // clauses of this one still hold around them
    for (i, (kind, max)) in [("b", 1usize), ("a", 1), ("b", 2), ("a", 3)].iter().enumerate() {
        let mut pv = Pv::random(rng);
        (pv.ob, pv.op, pv.ls, pv.st, pv.mf) = (0, 0, 0, 0, 0);
        pv.dl = [0, 2][i % 2];
        ops.push(format!("ux u{i} {kind} {max} {} {}", if thorough { 30 } else { 9 }, pv.show()));
    }
    // (m) an async operation dropped mid-way, in rounds; then the node answers
    for (i, max) in [1usize, 2, 3].iter().enumerate() {
        let mut pv = Pv::random(rng);
        (pv.ob, pv.op, pv.ls, pv.fr) = (0, 0, 0, 0);
        pv.dl = [0, 2, 1][i];
        ops.push(format!("cx x{i} a {max} {} {}", if thorough { 240 } else { 60 }, pv.show()));
    }
    // read-only observers spinning while a node drops a request and is healthy again, in rounds on one fleet
    {
        let rounds = if thorough { 800 } else { 400 };
        let mut o = 0usize;
        for kind in ["b", "a"] {
            for max in [1usize, 2, 3] {
                for observers in [1usize, 2, 3] {
                    o += 1;
                    let mut pv = Pv::random(rng);
                    pv.ob = 0;
                    pv.op = 0;
                    pv.nm = 0; // a short name: the observers' time goes into the slot lock, not into hashing the key
                    (pv.fr, pv.ls, pv.rs, pv.rt) = (0, 0, 0, 0); // hundreds of rounds: nothing that slows a round
                    pv.dl = [0, 2][o % 2]; // 15 ms or 1 ms between attempts
                    ops.push(format!("obs w{o} {kind} {} {max} {observers} {rounds} {}", ["json", "jsonnp", "msg"][o % 3], pv.show()));
                }
            }
        }
    }
    // what the constructors must refuse for the hypotheses of the theorems to hold (max_attempts >= 1,
    // distinct node names): if one is accepted, the clause it protects is judged on the result
    for (i, what) in ["zero", "dup", "dupadd"].iter().enumerate() {
        for kind in ["b", "a"] {
            ops.push(format!("opts o{i}{kind} {kind} {what}"));
        }
    }
    // connection management and health check mixed with calls: every operation sequence up to length 3
    // over {connect_all, disconnect_all, reconnect_disconnected, health_check, call}; node scripts up to
    // length 2 without `silent` (health_check waits 5 s for a reply): quick 8 sampled scripts per
    // operation sequence, thorough all 43
    {
        let life_ops = ["conn", "disc", "reconn", "health", "call"];
        let mut op_seqs: Vec<Vec<&str>> = vec![];
        for len in 1..=3usize {
            let mut cur: Vec<Vec<&str>> = vec![vec![]];
            for _ in 0..len {
                cur = cur.into_iter().flat_map(|s| life_ops.iter().map(move |o| { let mut t = s.clone(); t.push(*o); t })).collect();
            }
            op_seqs.extend(cur);
        }
        let scripts: Vec<Vec<Beh>> = (0..=2).flat_map(all_seqs).filter(|s| !s.contains(&Beh::Silent)).collect();
        let mut l = 0usize;
        for os in &op_seqs {
            let chosen: Vec<&Vec<Beh>> = if thorough { scripts.iter().collect() } else { (0..8).map(|_| rng.pick(&scripts)).collect() };
            for sc in chosen {
                l += 1;
                let kind = if l % 2 == 0 { "b" } else { "a" };
                let max = 1 + l % 3;
                let pw = if l % 3 == 0 { String::new() } else { format!(" {}", Pv::random_for(rng, sc).show()) };
                ops.push(format!("life l{l} {kind} {max} {} {}{pw}", show_seq(sc), os.join(",")));
            }
        }
    }
    // broadcasts: every assignment of tag subsets to up to N nodes, every requested subset
    let mut m = 0usize;
    let plans: Vec<(usize, Vec<&str>)> =
        if thorough { vec![(4, vec!["a", "b"]), (3, vec!["a", "b", "c"])] } else { vec![(3, vec!["a", "b"])] };
    for (maxn, universe) in plans {
        let subsets: Vec<Vec<&str>> = (0..(1usize << universe.len()))
            .map(|mask| universe.iter().enumerate().filter(|(i, _)| mask >> i & 1 == 1).map(|(_, t)| *t).collect())
            .collect();
        let mut reqs: Vec<String> = subsets.iter().map(|s| if s.is_empty() { "-".to_string() } else { s.join(",") }).collect();
        reqs.push(format!("{0},{0}", universe[0])); // a duplicated tag is one tag
        // the request is a list in the caller's order: descending, with a repeat in the middle, and with
        // a tag no node carries
        for sub in subsets.iter().filter(|x| x.len() >= 2) {
            let mut r: Vec<&str> = sub.clone();
            r.reverse();
            reqs.push(r.join(","));
            reqs.push(format!("{},{}", sub.join(","), sub[0]));
        }
        reqs.push("z".to_string());
        reqs.push(format!("z,{}", universe[0]));
        for nn in 1..=maxn {
            let total = subsets.len().pow(nn as u32);
            for code in 0..total {
                let mut c = code;
                let mut tagsets = vec![];
                for _ in 0..nn {
                    tagsets.push(subsets[c % subsets.len()].join("+"));
                    c /= subsets.len();
                }
                for req in &reqs {
                    m += 1;
                    let kind = if m % 2 == 0 { "b" } else { "a" };
                    let max = 1 + m % 2;
                    // every 7th broadcast has a refusing node, every 5th a node that is silent on every
                    // attempt (it is addressed and must still get its one result entry), every 11th a
                    // node that answers with an application error
                    let special: Option<(usize, String)> = if m % 7 == 0 {
                        Some((m % nn, vec!["refused"; max].join(",")))
                    } else if m % 5 == 0 {
                        Some((m % nn, vec!["silent"; max].join(",")))
                    } else if m % 11 == 0 {
                        Some((m % nn, "apperr".to_string()))
                    } else {
                        None
                    };
                    let nodes: Vec<String> = tagsets
                        .iter()
                        .enumerate()
                        .map(|(i, t)| {
                            let bs = match &special {
                                Some((j, b)) if *j == i => b.clone(),
                                _ => "-".to_string(),
                            };
                            format!("n{i}={t}={bs}")
                        })
                        .collect();
                    let op = if m % 3 == 0 { "mr" } else { "bc" };
                    let pw = if m % 3 == 1 { String::new() } else { format!(" {}", Pv::random(rng).show()) };
                    ops.push(format!("{op} b{m} {kind} {max} {} {req}{pw}", nodes.join(";")));
                }
            }
        }
    }
    ops
}

/// Public entry points of the anchored files that the harness drives (calls, with an oracle or as an
/// observer), and those it knowingly does not.
const DRIVEN: &[&str] = &[
    "new", "with_options", "options", "len", "is_empty", "keys", "node", "nodes", "connected_nodes", "filter_nodes", "add_node",
    "remove_node", "connect_all", "disconnect_all", "reconnect_disconnected", "is_connected_all", "is_connected", "call_json",
    "call_message", "broadcast_json", "map_reduce_json", "health_check", "with_name", "with_tags", "with_timeout", "succeeded",
    "failed", "into_result",
];
/// `address`: getter of (host, port) on `NodeConfig` / `Node`; takes part in no clause.
const NOT_DRIVEN_BECAUSE: &[&str] = &["address"];

/// `pub fn` / `pub async fn` names of the anchored files of the tree under test that are in neither list:
/// a new entry point (a twin, a `_with_timeout` variant …) is then visible in the evidence instead of silent.
fn entry_point_audit(out: &mut Out) {
    let repo = std::env::var("VERIF_REPO").unwrap_or_else(|_| "/repo".into());
    let mut missing: Vec<String> = vec![];
    let mut seen = 0usize;
    for file in ["fleet.rs", "async_fleet.rs"] {
        let text = std::fs::read_to_string(std::path::Path::new(&repo).join("src").join(file)).unwrap_or_default();
        let text = text.split("#[cfg(test)]").next().unwrap_or("").to_string();
        for line in text.lines() {
            let t = line.trim_start();
            for pre in ["pub async fn ", "pub fn "] {
                if let Some(rest) = t.strip_prefix(pre) {
                    let name: String = rest.chars().take_while(|c| c.is_alphanumeric() || *c == '_').collect();
                    seen += 1;
                    if !DRIVEN.contains(&name.as_str()) && !NOT_DRIVEN_BECAUSE.contains(&name.as_str()) {
                        let full = format!("{file}::{name}");
                        if !missing.contains(&full) {
                            eprintln!("entry point not driven by fam_fleet: {full}");
                            out.count(&format!("fleet.NOT_DRIVEN.{full}"));
                            missing.push(full);
                        }
                    }
                }
            }
        }
    }
    out.extra.insert("entry_points_seen".into(), serde_json::json!(seen));
    out.extra.insert("not_driven".into(), serde_json::json!(missing));
}

fn main() {
    let args = Args::parse();
    quiet_panics();
    let mut out = Out::new(&args.out);
    let mut rng = Rng::new(args.seed);
    let env = Arc::new(Env {
        sniffer: Sniffer::start(),
        rt: Arc::new(tokio::runtime::Builder::new_multi_thread().worker_threads(4).enable_all().build().unwrap()),
    });
    out.extra.insert("sniffer".into(), serde_json::json!(env.sniffer.is_some()));
    entry_point_audit(&mut out);
    out.extra.insert("node_timeout_ms".into(), serde_json::json!(T_NODE.as_millis() as u64));
    out.extra.insert("retry_delay_ms".into(), serde_json::json!(DELAY.as_millis() as u64));
    out.rule = "case = fresh Fleet/AsyncFleet + one scripted node: calls until the script is consumed (at most 2*len+1), then a healthy phase of up to 3 calls; all behaviour sequences over the 7-letter alphabet up to length max+2 (quick: max 1 up to length 3, max 2 up to length 4, max 3 up to length 3 + 300 sampled sequences of length 4-5; thorough: max 1..3 up to length max+2, exhaustive) + sampled sequences up to length 6 for max_attempts 4, 5, 8, 64 (quick 150, thorough 600) + 12 cases through Fleet::new / AsyncFleet::new (default options), both fleets, call variants json/jsonnp/msg in rotation (thorough: all three for max 1,2); life = every sequence (length 1-3) of connect_all / disconnect_all / reconnect_disconnected / health_check / call against node scripts of length <= 2 without silent (quick: 8 sampled scripts each; thorough: all 43), then the healthy phase; bc / mr (map_reduce_json) = every assignment of tag subsets to up to 3 (thorough 4) nodes x every requested subset, each subset also reversed and with a repeat, one duplicated tag, a tag no node carries; every 7th with a refusing node, every 5th with a node that is silent on every attempt, every 11th with a node answering an application error; after the judged broadcast every node is healthy and the same fleet is used again through the twin entry point (after a panicking reducer in some mr cases) and, in about a fifth of the cases, after remove_node / add_node; obs = 400 (thorough 800) rounds on one fleet of [the node drops one request, then is healthy] for max_attempts 1/2/3, both fleets, while 1-3 threads spin on the read-only entry points; one case in eight of the other families runs with 1-3 pausing observer threads (param.observers); a connection the node was silent on stays hung; opts = what the constructors must refuse (max_attempts 0, duplicate names at construction and at add_node). Two cases in three carry a word p= with drawn values of the parameters the property does not depend on (distribution: param.*). Distinct by op line; non-trivial = a call retried, hit a dead cached client, or returned an error / a broadcast that selects a proper non-empty subset or has a refusing node".into();
    let mut ops: Vec<String> = match args.replay_ops() {
        Some(ops) => ops,
        None => gen_cases(&mut rng, args.thorough()),
    };
    if args.replay.is_none() {
        // spread the slow cases; order of execution does not matter, order of output is by index
        rng.shuffle(&mut ops);
    }
    let workers = if args.thorough() { 32 } else { 24 };
    let next = Arc::new(AtomicUsize::new(0));
    let ops = Arc::new(ops);
    let results: Arc<Mutex<Vec<Option<CaseOut>>>> = Arc::new(Mutex::new((0..ops.len()).map(|_| None).collect()));
    let skipped_tries = Arc::new(Mutex::new(Vec::<String>::new()));
    let mut handles = vec![];
    for _ in 0..workers.min(ops.len().max(1)) {
        let (env, next, ops, results, skipped_tries) = (env.clone(), next.clone(), ops.clone(), results.clone(), skipped_tries.clone());
        handles.push(std::thread::spawn(move || loop {
            let i = next.fetch_add(1, Ordering::SeqCst);
            if i >= ops.len() {
                break;
            }
            // a case whose physical realisation deviated from its script is tried again, then skipped
            let run = |line: &str| -> CaseOut {
                match catch(|| exec(&env, line)) {
                    Ok(r) => r,
                    Err(msg) => CaseOut { skip: Some(format!("harness_panic:{msg}")), ..Default::default() },
                }
            };
            if CONFIRMED.load(Ordering::SeqCst) >= ENOUGH_CONFIRMED || NEVER_RETURNED_TOTAL.load(Ordering::SeqCst) >= 3 {
                results.lock().unwrap()[i] = Some(CaseOut { skip: Some("not_run_after_failures".into()), ..Default::default() });
                continue;
            }
            let mut r = run(&ops[i]);
            for _ in 0..2 {
                if let Some(reason) = &r.skip {
                    if reason == "no_sniffer" || EXPIRIES.load(Ordering::SeqCst) > MANY_EXPIRIES {
                        break;
                    }
                    skipped_tries.lock().unwrap().push(reason.clone());
                    r = run(&ops[i]);
                } else {
                    break;
                }
            }
            // an oracle failure is reported only if the same case fails the same oracles in two more
            // executions: a defect of the fleet is deterministic, an accident of scheduling is not
            if r.skip.is_none() && !r.fails.is_empty() {
                let sigs = |x: &CaseOut| { let mut v: Vec<String> = x.fails.iter().map(|f| f.0.clone()).collect(); v.sort(); v.dedup(); v };
                let first = sigs(&r);
                for _ in 0..2 {
                    if CONFIRMED.load(Ordering::SeqCst) >= ENOUGH_CONFIRMED {
                        // the verdict is settled by other cases: this one is not paid for twice more
                        r = CaseOut { skip: Some("not_run_after_failures".into()), ..Default::default() };
                        break;
                    }
                    let again = run(&ops[i]);
                    if again.skip.is_some() || sigs(&again) != first || again.obs != r.obs {
                        if std::env::var("FLEET_TEST_VERBOSE").is_ok() {
                            eprintln!("unconfirmed: {} :: {:?}", ops[i], r.fails);
                        }
                        skipped_tries.lock().unwrap().push("unconfirmed_failure".into());
                        r = CaseOut { skip: Some("unconfirmed_failure".into()), ..Default::default() };
                        break;
                    }
                }
                if r.skip.is_none() {
                    CONFIRMED.fetch_add(1, Ordering::SeqCst);
                }
            }
            results.lock().unwrap()[i] = Some(r);
        }));
    }
    for h in handles {
        let _ = h.join(); // a worker that died leaves its case without a result: counted below
    }
    for reason in skipped_tries.lock().unwrap().iter() {
        out.count(&format!("retried_case.{}", reason.split(':').next().unwrap_or("?")));
    }
    let results = std::mem::take(&mut *results.lock().unwrap());
    // report the shortest failing case of each signature first
    let mut fails: Vec<(String, usize, String, String)> = vec![];
    for (line, r) in ops.iter().zip(results.iter()) {
        if let Some(r) = r {
            if r.skip.is_none() {
                for (sig, detail) in &r.fails {
                    fails.push((sig.clone(), line.len(), line.clone(), detail.clone()));
                }
            }
        }
    }
    fails.sort();
    for (sig, _, line, detail) in &fails {
        out.oracle_fail(sig, detail, &[line.clone()]);
    }
    for (line, r) in ops.iter().zip(results) {
        let r = r.unwrap_or_else(|| CaseOut { skip: Some("harness_panic:worker".into()), ..Default::default() });
        if let Some(reason) = &r.skip {
            out.count(&format!("skipped.{}", reason.split(':').next().unwrap_or("?")));
            if std::env::var("FLEET_TEST_VERBOSE").is_ok() {
                eprintln!("skipped ({reason}): {line}");
            }
            continue;
        }
        for c in &r.counters {
            out.count(c);
        }
        let base: String = line.split(' ').filter(|w| !w.starts_with("dead=")).collect::<Vec<_>>().join(" ");
        let full = match &r.op_suffix {
            Some(sfx) => format!("{base} {sfx}"),
            None => base,
        };
        out.case(&full, r.obs.as_deref().unwrap_or("?"), r.nontrivial);
    }
    // share of cases not judged, by kind of reason (evidence only; never a verdict)
    let sum = |f: &dyn Fn(&str) -> bool| -> u64 { out.counters.iter().filter(|(k, _)| k.starts_with("skipped.") && f(&k[8..])).map(|(_, v)| *v).sum() };
    let behavioural = sum(&|k| ["idle_handshake", "settle", "stranger"].contains(&k) || k.starts_with("class_not_engineered"));
    let scheduling = sum(&|k| ["node_lagged", "late_reply", "late_reply_retry", "desync", "slow_call"].contains(&k));
    let evidence = sum(&|k| ["refusal_unseen", "refusal_out_of_window", "sniffer_drops", "unconfirmed_failure", "no_sniffer", "harness_panic"].contains(&k) || k.starts_with("barrier") || (k.starts_with("node_") && k != "node_lagged"));
    out.extra.insert("cases_generated".into(), serde_json::json!(ops.len()));
    out.extra.insert("skipped_socket_behaviour".into(), serde_json::json!(behavioural));
    out.extra.insert("skipped_scheduling".into(), serde_json::json!(scheduling));
    out.extra.insert("skipped_incomplete_evidence".into(), serde_json::json!(evidence));
    out.extra.insert("private_loopback_address".into(), serde_json::json!(private_ip()));
    if let Some(s) = &env.sniffer {
        out.extra.insert("sniffer_drops".into(), serde_json::json!(s.total_drops()));
    }
    out.extra.insert("port_collisions".into(), serde_json::json!(PORT_COLLISIONS.load(Ordering::SeqCst)));
    out.finish();
    // threads of nodes still winding down are detached; leave at once
    std::process::exit(0);
}
