//! Family `fleet` (C19): `Fleet` / `AsyncFleet` retry loops against scripted fake nodes.
//! Usage: fam_fleet --tier T --seed N --out DIR [--replay FILE]
//!
//! A *node* is a TCP endpoint on a loopback address private to this process (127.x.y.1) that follows a script of behaviours, one per *contact*
//! (a connect attempt, or a request arriving on an open connection):
//!   refused   the port has no listener (a bound, non-listening SO_REUSEPORT placeholder keeps the port)
//!   atc       the request is read, the connection is closed without a reply            (accept-then-close)
//!   idle      the request is answered, then the node half-closes and waits for the client's FIN,
//!             so the client has seen the close before anything else happens           (closed while idle)
//!   silent    the request is read, nothing is sent
//!   malformed 48 bytes that are not a REPE header are sent back
//!   apperr    a well-formed reply with error code 4096
//!   success   a well-formed JSON reply
//! After the script the node is healthy (`success`).  Refused connects are counted by a packet
//! socket on `lo` that sees the kernel's RST|ACK (seq 0) answers; without CAP_NET_RAW every case
//! that contains `refused` is skipped and counted.
//!
//! Everything that depends on scheduling is one-sided: a case whose physical realisation deviated
//! from its script (late listener, late reply, kernel chose another error kind, lost packet,
//! watchdog) is counted under `skipped.*` and never reported.
use repe::{AsyncFleet, Fleet, FleetOptions, NodeConfig, RepeError, RetryPolicy};
use repe_verif_harness::frames::{RawFrame, RawHeader};
use repe_verif_harness::*;
use std::collections::HashMap;
use std::io::{Read, Write};
use std::net::{Shutdown, TcpListener, TcpStream};
use std::os::fd::{AsRawFd, FromRawFd, OwnedFd, RawFd};
use std::sync::atomic::{AtomicU64, AtomicUsize, Ordering};
use std::sync::{Arc, Condvar, Mutex, Weak};
use std::time::{Duration, Instant};

const T_NODE: Duration = Duration::from_millis(80); // per-node call timeout
const DELAY: Duration = Duration::from_millis(15); // retry delay
const T_BCAST: Duration = Duration::from_millis(3000);
const WATCHDOG: Duration = Duration::from_secs(10);
const HEALTHY_CALLS: usize = 3;
const DEFAULT_TIMEOUT: Duration = Duration::from_secs(20); // FleetOptions.default_timeout, unused by a correct fleet
/// Cases whose oracle failure was confirmed. After this many the remaining cases are not run: the
/// verdict is settled, and a defect that makes every case slow must not make the run endless.
static CONFIRMED: AtomicU64 = AtomicU64::new(0);
const ENOUGH_CONFIRMED: u64 = 40;
const IDLE_WATCHDOG: Duration = Duration::from_secs(2);
/// Watchdog expiries so far. When the implementation's socket behaviour systematically differs from
/// what the scripts engineer (e.g. a client that no longer closes its socket after EOF), every case
/// would sit in a watchdog: after a handful of expiries the watchdogs shrink and skipped cases are
/// not tried again, so the run ends in bounded time and reports the skipped share.
static EXPIRIES: AtomicU64 = AtomicU64::new(0);
const MANY_EXPIRIES: u64 = 24;

fn watchdog(full: Duration) -> Duration {
    if EXPIRIES.load(Ordering::SeqCst) > MANY_EXPIRIES { Duration::from_millis(250) } else { full }
}

// ------------------------------------------------------------------------------------------
// behaviours
// ------------------------------------------------------------------------------------------
#[derive(Clone, Copy, PartialEq, Eq, Debug, Hash)]
enum Beh {
    Refused,
    Atc,
    Idle,
    Silent,
    Malformed,
    AppErr,
    Success,
}
const ALL_BEH: [Beh; 7] = [Beh::Refused, Beh::Atc, Beh::Idle, Beh::Silent, Beh::Malformed, Beh::AppErr, Beh::Success];

impl Beh {
    fn name(self) -> &'static str {
        match self {
            Beh::Refused => "refused",
            Beh::Atc => "atc",
            Beh::Idle => "idle",
            Beh::Silent => "silent",
            Beh::Malformed => "malformed",
            Beh::AppErr => "apperr",
            Beh::Success => "success",
        }
    }
    fn parse(s: &str) -> Option<Beh> {
        ALL_BEH.iter().copied().find(|b| b.name() == s)
    }
    fn is_reply(self) -> bool {
        matches!(self, Beh::Success | Beh::Idle | Beh::AppErr)
    }
}

fn parse_seq(s: &str) -> Option<Vec<Beh>> {
    if s == "-" {
        return Some(vec![]);
    }
    s.split(',').filter(|x| !x.is_empty()).map(Beh::parse).collect()
}

fn show_seq(seq: &[Beh]) -> String {
    if seq.is_empty() { "-".into() } else { seq.iter().map(|b| b.name()).collect::<Vec<_>>().join(",") }
}

// ------------------------------------------------------------------------------------------
// raw sockets
// ------------------------------------------------------------------------------------------
fn cvt(r: i32) -> std::io::Result<i32> {
    if r < 0 { Err(std::io::Error::last_os_error()) } else { Ok(r) }
}

/// Loopback address private to this process: every address in 127.0.0.0/8 is local on Linux `lo`.
/// Sockets bound to it are invisible to whoever uses 127.0.0.1 (other tests on this machine that
/// probe "unused" ports, connect to ports of servers they have just stopped, …), and a refused
/// connect is attributed to a node only if the RST comes from this address.
fn node_ip() -> [u8; 4] {
    static IP: std::sync::OnceLock<[u8; 4]> = std::sync::OnceLock::new();
    *IP.get_or_init(|| {
        let pid = std::process::id();
        let ip = [127, 100 + (pid % 100) as u8, 1 + ((pid / 100) % 250) as u8, 1];
        // usable? (a loopback configured as 127.0.0.1/32 would refuse the bind)
        let addr = std::net::SocketAddr::from((ip, 0));
        let ok = TcpListener::bind(addr).and_then(|l| TcpStream::connect(l.local_addr()?)).is_ok();
        if ok { ip } else { [127, 0, 0, 1] }
    })
}

/// False when the private address could not be used: the nodes then share 127.0.0.1 with every
/// other program on the machine, a refused connect can no longer be attributed, and every case
/// that needs the sniffer is skipped.
fn private_ip() -> bool {
    node_ip() != [127, 0, 0, 1]
}

fn node_host() -> String {
    let a = node_ip();
    format!("{}.{}.{}.{}", a[0], a[1], a[2], a[3])
}

fn loopback_addr(port: u16) -> libc::sockaddr_in {
    libc::sockaddr_in {
        sin_family: libc::AF_INET as libc::sa_family_t,
        sin_port: port.to_be(),
        sin_addr: libc::in_addr { s_addr: u32::from_ne_bytes(node_ip()) },
        sin_zero: [0; 8],
    }
}

fn local_port(fd: RawFd) -> std::io::Result<u16> {
    let mut a: libc::sockaddr_in = unsafe { std::mem::zeroed() };
    let mut len = std::mem::size_of::<libc::sockaddr_in>() as libc::socklen_t;
    cvt(unsafe { libc::getsockname(fd, &mut a as *mut _ as *mut libc::sockaddr, &mut len) })?;
    Ok(u16::from_be(a.sin_port))
}

/// TCP socket bound to `node_ip()`:`port` (0 = any); `reuseport` lets the placeholder and the listener share it.
fn bound_socket(port: u16, reuseport: bool) -> std::io::Result<(OwnedFd, u16)> {
    unsafe {
        let fd = cvt(libc::socket(libc::AF_INET, libc::SOCK_STREAM | libc::SOCK_CLOEXEC, 0))?;
        let fd = OwnedFd::from_raw_fd(fd);
        if reuseport {
            let one: libc::c_int = 1;
            cvt(libc::setsockopt(fd.as_raw_fd(), libc::SOL_SOCKET, libc::SO_REUSEPORT, &one as *const _ as *const libc::c_void, 4))?;
        }
        let a = loopback_addr(port);
        cvt(libc::bind(fd.as_raw_fd(), &a as *const _ as *const libc::sockaddr, std::mem::size_of::<libc::sockaddr_in>() as u32))?;
        let p = local_port(fd.as_raw_fd())?;
        Ok((fd, p))
    }
}

fn poll_in(fd: RawFd, ms: i32) -> bool {
    let mut p = libc::pollfd { fd, events: libc::POLLIN, revents: 0 };
    let r = unsafe { libc::poll(&mut p, 1, ms) };
    r > 0 && p.revents != 0
}

fn unread_bytes(fd: RawFd) -> i32 {
    let mut n: libc::c_int = 0;
    unsafe { libc::ioctl(fd, libc::FIONREAD, &mut n) };
    n
}

// ------------------------------------------------------------------------------------------
// sniffer: counts refused connects (RST|ACK with seq 0) per source port on `lo`
// ------------------------------------------------------------------------------------------
struct Sniffer {
    fd: OwnedFd,
    registry: Mutex<HashMap<u16, Weak<NodeShared>>>,
    /// per worker thread: a port that always refuses, and how many refusals of it have been sniffed
    barriers: Mutex<HashMap<u16, u64>>,
    cv: Condvar,
    drops: AtomicU64,
    /// count the copy taken when the kernel *transmits* the RST (PACKET_OUTGOING): it is queued to
    /// this socket before the client's socket can see the RST, hence before `connect` returns
    outgoing: bool,
    /// test switches: FLEET_TEST_DROP_RST=n loses every n-th RST (markers included), FLEET_TEST_DROP_NODE_RST=n
    /// every n-th but never a marker, FLEET_TEST_DELAY_RST_US=d delays each; FLEET_TEST_NO_SNIFFER=1
    test_drop_every: u64,
    test_drop_node_every: u64,
    test_delay: Duration,
    seen: AtomicU64,
    retired: std::sync::atomic::AtomicBool,
}

fn env_u64(name: &str) -> u64 {
    std::env::var(name).ok().and_then(|v| v.parse().ok()).unwrap_or(0)
}

struct BarrierHandle {
    _placeholder: OwnedFd,
    port: u16,
    issued: u64,
}

thread_local! {
    static BARRIER: std::cell::RefCell<Option<BarrierHandle>> = const { std::cell::RefCell::new(None) };
}

#[repr(C)]
struct TpacketStats {
    packets: u32,
    drops: u32,
}

impl Sniffer {
    fn start() -> Option<Arc<Sniffer>> {
        if env_u64("FLEET_TEST_NO_SNIFFER") != 0 || !private_ip() {
            return None;
        }
        // outgoing copies first; a kernel that does not show them falls back to the received copies
        Sniffer::start_mode(true).or_else(|| Sniffer::start_mode(false))
    }

    fn start_mode(outgoing: bool) -> Option<Arc<Sniffer>> {
        unsafe {
            let proto = (libc::ETH_P_ALL as u16).to_be();
            let fd = libc::socket(libc::AF_PACKET, libc::SOCK_DGRAM | libc::SOCK_CLOEXEC, proto as i32);
            if fd < 0 {
                return None;
            }
            let fd = OwnedFd::from_raw_fd(fd);
            let ifindex = libc::if_nametoindex(b"lo\0".as_ptr() as *const libc::c_char);
            if ifindex == 0 {
                return None;
            }
            // TCP, not a fragment, RST set
            let prog: [libc::sock_filter; 9] = [
                libc::sock_filter { code: 0x30, jt: 0, jf: 0, k: 9 },
                libc::sock_filter { code: 0x15, jt: 0, jf: 6, k: 6 },
                libc::sock_filter { code: 0x28, jt: 0, jf: 0, k: 6 },
                libc::sock_filter { code: 0x45, jt: 4, jf: 0, k: 0x1fff },
                libc::sock_filter { code: 0xb1, jt: 0, jf: 0, k: 0 },
                libc::sock_filter { code: 0x50, jt: 0, jf: 0, k: 13 },
                libc::sock_filter { code: 0x45, jt: 0, jf: 1, k: 0x04 },
                libc::sock_filter { code: 0x06, jt: 0, jf: 0, k: 0xffff },
                libc::sock_filter { code: 0x06, jt: 0, jf: 0, k: 0 },
            ];
            let fprog = libc::sock_fprog { len: prog.len() as u16, filter: prog.as_ptr() as *mut libc::sock_filter };
            libc::setsockopt(fd.as_raw_fd(), libc::SOL_SOCKET, libc::SO_ATTACH_FILTER, &fprog as *const _ as *const libc::c_void, std::mem::size_of::<libc::sock_fprog>() as u32);
            let big: libc::c_int = 16 << 20;
            libc::setsockopt(fd.as_raw_fd(), libc::SOL_SOCKET, libc::SO_RCVBUFFORCE, &big as *const _ as *const libc::c_void, 4);
            let mut sll: libc::sockaddr_ll = std::mem::zeroed();
            sll.sll_family = libc::AF_PACKET as u16;
            sll.sll_protocol = proto;
            sll.sll_ifindex = ifindex as i32;
            if libc::bind(fd.as_raw_fd(), &sll as *const _ as *const libc::sockaddr, std::mem::size_of::<libc::sockaddr_ll>() as u32) < 0 {
                return None;
            }
            let s = Arc::new(Sniffer {
                fd,
                registry: Mutex::new(HashMap::new()),
                barriers: Mutex::new(HashMap::new()),
                cv: Condvar::new(),
                drops: AtomicU64::new(0),
                outgoing,
                test_drop_every: env_u64("FLEET_TEST_DROP_RST"),
                test_drop_node_every: env_u64("FLEET_TEST_DROP_NODE_RST"),
                test_delay: Duration::from_micros(env_u64("FLEET_TEST_DELAY_RST_US")),
                seen: AtomicU64::new(0),
                retired: std::sync::atomic::AtomicBool::new(false),
            });
            let s2 = s.clone();
            std::thread::Builder::new().name("sniffer".into()).spawn(move || s2.run()).ok()?;
            // self-test: three barriers must come through (tolerating the test switch that loses packets)
            let ok = (0..6).filter(|_| s.barrier_within(Duration::from_millis(500)).is_ok()).count() >= 3;
            if !ok {
                s.retired.store(true, Ordering::SeqCst);
                return None;
            }
            Some(s)
        }
    }

    fn run(&self) {
        let mut buf = vec![0u8; 65536];
        let ip = node_ip();
        loop {
            if self.retired.load(Ordering::SeqCst) {
                return;
            }
            let mut from: libc::sockaddr_ll = unsafe { std::mem::zeroed() };
            let mut flen = std::mem::size_of::<libc::sockaddr_ll>() as libc::socklen_t;
            let n = unsafe {
                libc::recvfrom(self.fd.as_raw_fd(), buf.as_mut_ptr() as *mut libc::c_void, buf.len(), 0, &mut from as *mut _ as *mut libc::sockaddr, &mut flen)
            };
            if n < 0 {
                let e = std::io::Error::last_os_error();
                if e.kind() == std::io::ErrorKind::Interrupted {
                    continue;
                }
                return;
            }
            let now = Instant::now();
            let b = &buf[..n as usize];
            let want_type = if self.outgoing { 4 /* PACKET_OUTGOING */ } else { 0 /* PACKET_HOST */ };
            if from.sll_pkttype != want_type || u16::from_be(from.sll_protocol) != libc::ETH_P_IP as u16 {
                continue;
            }
            if b.len() < 20 || b[0] >> 4 != 4 || b[9] != 6 || b[12..16] != ip {
                continue;
            }
            let ihl = ((b[0] & 0x0f) as usize) * 4;
            if b.len() < ihl + 14 {
                continue;
            }
            let t = &b[ihl..];
            let sport = u16::from_be_bytes([t[0], t[1]]);
            let seq = u32::from_be_bytes([t[4], t[5], t[6], t[7]]);
            let flags = t[13];
            if flags & 0x04 == 0 || flags & 0x10 == 0 || seq != 0 {
                continue; // not the answer to a SYN on a closed port
            }
            let k = self.seen.fetch_add(1, Ordering::SeqCst) + 1;
            if self.test_drop_every > 0 && k % self.test_drop_every == 0 {
                continue;
            }
            if !self.test_delay.is_zero() {
                std::thread::sleep(self.test_delay);
            }
            {
                let mut b = self.barriers.lock().unwrap();
                if let Some(c) = b.get_mut(&sport) {
                    *c += 1;
                    drop(b);
                    self.cv.notify_all();
                    continue;
                }
            }
            let node = self.registry.lock().unwrap().get(&sport).and_then(|w| w.upgrade());
            if let Some(node) = node {
                if self.test_drop_node_every > 0 && k % self.test_drop_node_every == 0 {
                    continue;
                }
                node.on_refusal(now);
            }
        }
    }

    /// Everything the kernel emitted on `lo` before this call has been processed when it returns Ok:
    /// the calling thread provokes one more refusal on a port of its own and waits until the sniffer
    /// (one thread, packets in order) has counted it.
    fn barrier(&self) -> Result<(), String> {
        self.barrier_within(watchdog(WATCHDOG))
    }

    fn barrier_within(&self, patience: Duration) -> Result<(), String> {
        BARRIER.with(|cell| {
            let mut cell = cell.borrow_mut();
            if cell.is_none() {
                let (ph, port) = bound_socket(0, true).map_err(|e| format!("barrier_bind:{e}"))?;
                self.barriers.lock().unwrap().insert(port, 0);
                *cell = Some(BarrierHandle { _placeholder: ph, port, issued: 0 });
            }
            let h = cell.as_mut().unwrap();
            let port = h.port;
            // a marker that does not arrive retires this thread's port: a late marker must not
            // satisfy a later barrier
            let retire = |cell: &mut Option<BarrierHandle>| {
                self.barriers.lock().unwrap().remove(&port);
                *cell = None;
            };
            match TcpStream::connect((node_host().as_str(), h.port)) {
                Ok(_) => {
                    retire(&mut cell);
                    return Err("barrier_connected".into());
                }
                Err(e) if e.kind() == std::io::ErrorKind::ConnectionRefused => {}
                Err(e) => {
                    let r = format!("barrier_errno_{}", e.raw_os_error().unwrap_or(0));
                    retire(&mut cell);
                    return Err(r);
                }
            }
            h.issued += 1;
            let issued = h.issued;
            let deadline = Instant::now() + patience;
            let mut m = self.barriers.lock().unwrap();
            loop {
                if m.get(&port).copied().unwrap_or(0) >= issued {
                    return Ok(());
                }
                let now = Instant::now();
                if now >= deadline {
                    drop(m);
                    EXPIRIES.fetch_add(1, Ordering::SeqCst);
                    retire(&mut cell);
                    return Err("barrier_timeout".into());
                }
                m = self.cv.wait_timeout(m, deadline - now).unwrap().0;
            }
        })
    }

    fn total_drops(&self) -> u64 {
        let mut st = TpacketStats { packets: 0, drops: 0 };
        let mut len = std::mem::size_of::<TpacketStats>() as libc::socklen_t;
        let r = unsafe { libc::getsockopt(self.fd.as_raw_fd(), 263 /* SOL_PACKET */, 6 /* PACKET_STATISTICS */, &mut st as *mut _ as *mut libc::c_void, &mut len) };
        if r == 0 {
            self.drops.fetch_add(st.drops as u64, Ordering::SeqCst);
        }
        self.drops.load(Ordering::SeqCst)
    }
}

// ------------------------------------------------------------------------------------------
// scripted node
// ------------------------------------------------------------------------------------------
/// Ports owned by live nodes of this process (two SO_REUSEPORT sockets of one user may share a port;
/// two nodes never must).
static PORTS: Mutex<Option<HashMap<u16, u64>>> = Mutex::new(None);
static PORT_COLLISIONS: AtomicU64 = AtomicU64::new(0);
static NODE_IDS: AtomicU64 = AtomicU64::new(1);

fn claim_port(port: u16, id: u64) -> bool {
    let mut g = PORTS.lock().unwrap();
    let m = g.get_or_insert_with(HashMap::new);
    if m.contains_key(&port) {
        PORT_COLLISIONS.fetch_add(1, Ordering::SeqCst);
        return false;
    }
    m.insert(port, id);
    true
}

fn release_port(port: u16, id: u64) {
    let mut g = PORTS.lock().unwrap();
    if let Some(m) = g.as_mut() {
        if m.get(&port) == Some(&id) {
            m.remove(&port);
        }
    }
}
#[derive(Clone, Copy, PartialEq, Eq, Debug)]
enum Via {
    Connect,
    Request,
}

#[derive(Clone, Copy, Debug)]
struct Contact {
    beh: Beh,
    via: Via,
    t: Instant,
    conn: u64,
}

struct NodeSt {
    script: Vec<Beh>,
    p: usize,
    healthy: bool,
    log: Vec<Contact>,
    desync: bool,
    trouble: Option<String>,
    token: Vec<u8>,
    idle_pending: usize,
    busy: usize,
    accept_busy: bool,
    conns: Vec<(u64, RawFd)>,
    next_conn: u64,
    listener: Option<TcpListener>,
    listen_gen: u64,
    stop: bool,
}

struct NodeShared {
    port: u16,
    id: u64,
    /// error code of the `apperr` replies of this node (4096 application, 7 Timeout, 8 ResourceExhausted, 6 MethodNotFound)
    app_code: AtomicU64,
    _placeholder: OwnedFd,
    st: Mutex<NodeSt>,
    cv: Condvar,
}

struct Node {
    sh: Arc<NodeShared>,
    sniffer: Option<Arc<Sniffer>>,
}

impl Drop for NodeShared {
    fn drop(&mut self) {
        // runs when the last thread of the node has gone; the placeholder closes right after
        release_port(self.port, self.id);
    }
}

impl NodeSt {
    fn next_behaviour(&mut self) -> Beh {
        if self.healthy || self.p >= self.script.len() {
            Beh::Success
        } else {
            let b = self.script[self.p];
            self.p += 1;
            b
        }
    }
    fn want_listener(&self) -> bool {
        self.healthy || self.p >= self.script.len() || self.script[self.p] != Beh::Refused
    }
}

impl NodeShared {
    /// Bring the listener into the state the head of the script asks for. Called with the lock held,
    /// *before* the node does anything the client can react to.
    fn sync_listener(&self, st: &mut NodeSt) {
        let want = st.want_listener() && !st.stop;
        if want && st.listener.is_none() {
            match bound_socket(self.port, true).and_then(|(fd, _)| {
                cvt(unsafe { libc::listen(fd.as_raw_fd(), 64) })?;
                let l = unsafe { TcpListener::from_raw_fd(std::os::fd::IntoRawFd::into_raw_fd(fd)) };
                l.set_nonblocking(true)?;
                Ok(l)
            }) {
                Ok(l) => {
                    st.listener = Some(l);
                    st.listen_gen += 1;
                    self.cv.notify_all();
                }
                Err(e) => st.trouble = Some(format!("listen_up:{e}")),
            }
        } else if !want {
            if let Some(l) = st.listener.take() {
                unsafe { libc::shutdown(l.as_raw_fd(), libc::SHUT_RD) };
                st.listen_gen += 1;
                drop(l);
                self.cv.notify_all();
            }
        }
    }

    fn on_refusal(&self, t: Instant) {
        let mut st = self.st.lock().unwrap();
        if !st.healthy && st.p < st.script.len() && st.script[st.p] == Beh::Refused {
            st.p += 1;
            st.log.push(Contact { beh: Beh::Refused, via: Via::Connect, t, conn: u64::MAX });
            self.sync_listener(&mut st);
        } else if !st.stop {
            st.desync = true; // a connect was refused although the script wanted the listener up
        }
        self.cv.notify_all();
    }
}

fn reply_frame(req: &RawFrame, ec: u32, body_format: u16, body: &[u8]) -> Vec<u8> {
    RawFrame {
        h: RawHeader {
            length: 48 + req.query.len() as u64 + body.len() as u64,
            spec: 0x1507,
            version: 1,
            notify: 0,
            reserved: 0,
            id: req.h.id,
            query_length: req.query.len() as u64,
            body_length: body.len() as u64,
            query_format: req.h.query_format,
            body_format,
            ec,
        },
        query: req.query.clone(),
        body: body.to_vec(),
    }
    .to_vec()
}

fn read_frame(s: &mut TcpStream) -> Option<RawFrame> {
    let mut hb = [0u8; 48];
    s.read_exact(&mut hb).ok()?;
    let h = RawHeader::parse(&hb)?;
    if !h.consistent() || h.length > (1 << 20) {
        return None;
    }
    let mut q = vec![0u8; h.query_length as usize];
    s.read_exact(&mut q).ok()?;
    let mut b = vec![0u8; h.body_length as usize];
    s.read_exact(&mut b).ok()?;
    Some(RawFrame { h, query: q, body: b })
}

fn handle_conn(sh: Arc<NodeShared>, mut s: TcpStream, id: u64) {
    let fd = s.as_raw_fd();
    let _ = s.set_read_timeout(Some(WATCHDOG));
    let _ = s.set_nodelay(true);
    let finish = |sh: &NodeShared, busy: bool| {
        let mut st = sh.st.lock().unwrap();
        if busy {
            st.busy -= 1;
        }
        st.conns.retain(|(i, _)| *i != id);
        sh.cv.notify_all();
    };
    loop {
        if !poll_in(fd, 50) {
            if sh.st.lock().unwrap().stop {
                finish(&sh, false);
                return;
            }
            continue;
        }
        sh.st.lock().unwrap().busy += 1;
        let Some(req) = read_frame(&mut s) else {
            finish(&sh, true);
            return;
        };
        let beh = {
            let mut st = sh.st.lock().unwrap();
            if req.query != st.token {
                st.trouble = Some("stranger".into()); // a request that was meant for another node
            }
            let b = st.next_behaviour();
            st.log.push(Contact { beh: b, via: Via::Request, t: Instant::now(), conn: id });
            if b == Beh::Idle {
                st.idle_pending += 1;
            }
            sh.sync_listener(&mut st);
            b
        };
        let mut close = false;
        match beh {
            Beh::Success => {
                let _ = s.write_all(&reply_frame(&req, 0, 2, b"{\"ok\":true}"));
            }
            Beh::AppErr => {
                let code = sh.app_code.load(Ordering::SeqCst) as u32;
                let _ = s.write_all(&reply_frame(&req, code, 3, b"scripted application error"));
            }
            Beh::Malformed => {
                let _ = s.write_all(&[0xEEu8; 48]);
            }
            Beh::Silent => {}
            Beh::Atc | Beh::Refused => close = true,
            Beh::Idle => {
                let _ = s.write_all(&reply_frame(&req, 0, 2, b"{\"ok\":true}"));
                let _ = s.shutdown(Shutdown::Write);
                // the client's reader sees EOF, fails its pending map and shuts its socket down: FIN
                let mut b = [0u8; 64];
                let _ = s.set_read_timeout(Some(watchdog(IDLE_WATCHDOG)));
                let ok = matches!(s.read(&mut b), Ok(0));
                let mut st = sh.st.lock().unwrap();
                st.idle_pending -= 1;
                if !ok {
                    EXPIRIES.fetch_add(1, Ordering::SeqCst);
                    st.trouble = Some("idle_handshake".into());
                }
                close = true;
            }
        }
        if close {
            finish(&sh, true);
            return; // drops the stream: every byte the client sent has been read, so this is a FIN
        }
        let mut st = sh.st.lock().unwrap();
        st.busy -= 1;
        sh.cv.notify_all();
    }
}

fn accept_loop(sh: Arc<NodeShared>) {
    loop {
        // wait for a listener
        let (l, my_gen) = {
            let mut st = sh.st.lock().unwrap();
            loop {
                if st.stop {
                    return;
                }
                if let Some(l) = &st.listener {
                    match l.try_clone() {
                        Ok(c) => break (c, st.listen_gen),
                        Err(e) => st.trouble = Some(format!("listener_clone:{e}")),
                    }
                }
                st = sh.cv.wait_timeout(st, Duration::from_millis(50)).unwrap().0;
            }
        };
        loop {
            let readable = poll_in(l.as_raw_fd(), 20);
            let mut st = sh.st.lock().unwrap();
            if st.stop {
                return;
            }
            if st.listen_gen != my_gen {
                break;
            }
            if !readable {
                continue;
            }
            st.accept_busy = true;
            match l.accept() {
                Ok((s, _)) => {
                    let _ = s.set_nonblocking(false);
                    let id = st.next_conn;
                    st.next_conn += 1;
                    st.conns.push((id, s.as_raw_fd()));
                    st.accept_busy = false;
                    drop(st);
                    let sh2 = sh.clone();
                    if std::thread::Builder::new().stack_size(128 << 10).spawn(move || handle_conn(sh2, s, id)).is_err() {
                        sh.st.lock().unwrap().trouble = Some("spawn".into());
                    }
                }
                Err(_) => {
                    st.accept_busy = false;
                }
            }
        }
    }
}

impl Node {
    fn new(script: Vec<Beh>, sniffer: Option<Arc<Sniffer>>) -> std::io::Result<Node> {
        let id = NODE_IDS.fetch_add(1, Ordering::SeqCst);
        let mut held = vec![];
        let (ph, port) = loop {
            let (ph, port) = bound_socket(0, true)?;
            if claim_port(port, id) {
                break (ph, port);
            }
            held.push(ph); // keep it so the kernel offers another port
            if held.len() > 16 {
                return Err(std::io::Error::other("no private port"));
            }
        };
        drop(held);
        let sh = Arc::new(NodeShared {
            port,
            id,
            app_code: AtomicU64::new(4096),
            _placeholder: ph,
            st: Mutex::new(NodeSt {
                script,
                p: 0,
                healthy: false,
                log: vec![],
                desync: false,
                trouble: None,
                token: format!("/m{id}").into_bytes(),
                idle_pending: 0,
                busy: 0,
                accept_busy: false,
                conns: vec![],
                next_conn: 0,
                listener: None,
                listen_gen: 0,
                stop: false,
            }),
            cv: Condvar::new(),
        });
        if let Some(s) = &sniffer {
            s.registry.lock().unwrap().insert(port, Arc::downgrade(&sh));
        }
        {
            let mut st = sh.st.lock().unwrap();
            sh.sync_listener(&mut st);
        }
        let sh2 = sh.clone();
        std::thread::Builder::new().stack_size(128 << 10).spawn(move || accept_loop(sh2))?;
        Ok(Node { sh, sniffer })
    }
    fn port(&self) -> u16 {
        self.sh.port
    }
    fn method(&self) -> String {
        String::from_utf8_lossy(&self.sh.st.lock().unwrap().token).into_owned()
    }
    /// Which error code the node's application errors carry: derived from the case's index token, so a
    /// replay uses the same one. Whatever the code, an error *reply* ends the call.
    fn set_app_code_for(&self, idx: &str) {
        let codes = [4096u64, 7, 8, 6];
        self.sh.app_code.store(codes[(fnv(idx.as_bytes()) % 4) as usize], Ordering::SeqCst);
    }
    fn set_token(&self, t: &str) {
        self.sh.st.lock().unwrap().token = t.as_bytes().to_vec();
    }
    fn exhausted(&self) -> bool {
        let st = self.sh.st.lock().unwrap();
        st.p >= st.script.len()
    }
    fn set_healthy(&self) {
        let mut st = self.sh.st.lock().unwrap();
        st.healthy = true;
        self.sh.sync_listener(&mut st);
    }
    fn log_len(&self) -> usize {
        self.sh.st.lock().unwrap().log.len()
    }
    fn log_from(&self, n: usize) -> Vec<Contact> {
        self.sh.st.lock().unwrap().log[n..].to_vec()
    }
    fn trouble(&self) -> Option<String> {
        let st = self.sh.st.lock().unwrap();
        if st.desync { Some("desync".into()) } else { st.trouble.clone() }
    }
    /// Wait until the node has nothing in flight: every packet the kernel emitted has been sniffed,
    /// no accepted-but-unhandled connection, no unread request bytes, no handler mid-frame, no idle
    /// close waiting for the client's FIN.
    fn settle(&self) -> Result<(), String> {
        if let Some(s) = &self.sniffer {
            s.barrier()?;
        }
        let deadline = Instant::now() + watchdog(WATCHDOG);
        let mut clean = 0;
        loop {
            {
                let st = self.sh.st.lock().unwrap();
                let quiet = st.busy == 0
                    && !st.accept_busy
                    && st.idle_pending == 0
                    && st.conns.iter().all(|(_, fd)| unread_bytes(*fd) == 0)
                    && st.listener.as_ref().map_or(true, |l| !poll_in(l.as_raw_fd(), 0));
                if quiet {
                    clean += 1;
                    if clean >= 2 {
                        return Ok(());
                    }
                } else {
                    clean = 0;
                }
            }
            if Instant::now() >= deadline {
                EXPIRIES.fetch_add(1, Ordering::SeqCst);
                return Err("settle".into());
            }
            std::thread::sleep(Duration::from_micros(150));
        }
    }
}

impl Drop for Node {
    fn drop(&mut self) {
        if let Some(s) = &self.sniffer {
            s.registry.lock().unwrap().remove(&self.sh.port);
        }
        let mut st = self.sh.st.lock().unwrap();
        st.stop = true;
        self.sh.sync_listener(&mut st);
        self.sh.cv.notify_all();
    }
}

// ------------------------------------------------------------------------------------------
// the fleets under test
// ------------------------------------------------------------------------------------------
fn class_of(e: &RepeError) -> String {
    match e {
        RepeError::Io(io) => format!("Io({:?})", io.kind()),
        RepeError::ServerError { .. } => "Server".into(),
        _ => "Decode".into(),
    }
}

fn class_of_result<T>(value: &Option<T>, error: &Option<RepeError>) -> String {
    match (value, error) {
        (_, Some(e)) => class_of(e),
        (Some(_), None) => "ok".into(),
        (None, None) => "None".into(),
    }
}

enum AnyFleet {
    B(Fleet),
    A(AsyncFleet),
}

struct Env {
    sniffer: Option<Arc<Sniffer>>,
    rt: tokio::runtime::Runtime,
}

impl AnyFleet {
    fn new(kind: &str, configs: Vec<NodeConfig>, max: usize, delay: Duration) -> AnyFleet {
        // the fleet-wide default differs from every node's own timeout: it must never be what a call waits for
        let opts = FleetOptions { default_timeout: DEFAULT_TIMEOUT, retry_policy: RetryPolicy { max_attempts: max, delay } };
        match kind {
            "b" => AnyFleet::B(Fleet::with_options(configs, opts).expect("fleet options")),
            _ => AnyFleet::A(AsyncFleet::with_options(configs, opts).expect("fleet options")),
        }
    }
    fn call(&self, env: &Env, variant: &str, method: &str) -> String {
        let params = serde_json::json!({"x": 1});
        match (self, variant) {
            (AnyFleet::B(f), "json") => {
                let r = f.call_json("n", method, Some(&params)).expect("node exists");
                class_of_result(&r.value, &r.error)
            }
            (AnyFleet::B(f), "jsonnp") => {
                let r = f.call_json("n", method, None).expect("node exists");
                class_of_result(&r.value, &r.error)
            }
            (AnyFleet::B(f), _) => {
                let r = f.call_message("n", method).expect("node exists");
                class_of_result(&r.value, &r.error)
            }
            (AnyFleet::A(f), "json") => {
                let r = env.rt.block_on(f.call_json("n", method, Some(&params))).expect("node exists");
                class_of_result(&r.value, &r.error)
            }
            (AnyFleet::A(f), "jsonnp") => {
                let r = env.rt.block_on(f.call_json("n", method, None)).expect("node exists");
                class_of_result(&r.value, &r.error)
            }
            (AnyFleet::A(f), _) => {
                let r = env.rt.block_on(f.call_message("n", method)).expect("node exists");
                class_of_result(&r.value, &r.error)
            }
        }
    }
    /// `connect_all`: was "n" reported connected (Some(true)), failed (Some(false)) or neither (None)
    fn connect_all(&self, env: &Env) -> Option<bool> {
        let s = match self {
            AnyFleet::B(f) => f.connect_all(),
            AnyFleet::A(f) => env.rt.block_on(f.connect_all()),
        };
        if s.connected.iter().any(|x| x == "n") { Some(true) } else if s.failed.iter().any(|x| x == "n") { Some(false) } else { None }
    }
    fn disconnect_all(&self, env: &Env) {
        match self {
            AnyFleet::B(f) => drop(f.disconnect_all()),
            AnyFleet::A(f) => drop(env.rt.block_on(f.disconnect_all())),
        }
    }
    fn reconnect(&self, env: &Env) -> Option<bool> {
        let s = match self {
            AnyFleet::B(f) => f.reconnect_disconnected(),
            AnyFleet::A(f) => env.rt.block_on(f.reconnect_disconnected()),
        };
        if s.reconnected.iter().any(|x| x == "n") { Some(true) } else if s.failed.iter().any(|x| x == "n") { Some(false) } else { None }
    }
    /// `health_check`: class of the verdict for "n" (`ok` = healthy)
    fn health(&self, env: &Env, method: &str) -> String {
        let mut m = match self {
            AnyFleet::B(f) => f.health_check(method),
            AnyFleet::A(f) => env.rt.block_on(f.health_check(method)),
        };
        match m.remove("n") {
            None => "None".into(),
            Some(h) => match (h.healthy, &h.error) {
                (true, None) => "ok".into(),
                (_, Some(e)) => class_of(e),
                (false, None) => "None".into(),
            },
        }
    }
    fn is_connected(&self, env: &Env, name: &str) -> bool {
        match self {
            AnyFleet::B(f) => f.is_connected(name).expect("node exists"),
            AnyFleet::A(f) => env.rt.block_on(f.is_connected(name)).expect("node exists"),
        }
    }
}

// ------------------------------------------------------------------------------------------
// one case
// ------------------------------------------------------------------------------------------
struct CallRec {
    contacts: Vec<Contact>,
    res: String,
    conn: bool,
    t0: Instant,
    t1: Instant,
    /// `is_connected` before the call, and the id the node's next connection would get: tells whether
    /// the first attempt ran on a cached client (dead: no contact; live: a request on an old connection)
    pre_conn: bool,
    conn_mark: u64,
}

#[derive(Default)]
struct CaseOut {
    /// appended to the op line: what the implementation was observed to choose where the model allows a set
    op_suffix: Option<String>,
    obs: Option<String>,
    skip: Option<String>,
    fails: Vec<(String, String)>,
    nontrivial: bool,
    counters: Vec<String>,
}

fn kind_name(kind: &str) -> &'static str {
    if kind == "b" { "blocking" } else { "async" }
}

enum Verdict {
    Fine,
    Skip(String),
    Fail(String, String),
}

/// The property's clauses evaluated on one call, from what the node saw and what the fleet returned.
fn check_call(kind: &str, max: usize, c: &CallRec, what: &str, sniffer_dependent: bool) -> Verdict {
    let health = what.contains("(health)");
    let k = kind_name(kind);
    let n = c.contacts.len();
    let show: Vec<String> = c
        .contacts
        .iter()
        .map(|x| {
            let conn = if x.via == Via::Connect { "connect".to_string() } else { format!("conn{}", x.conn) };
            format!("{}@{}+{}ms", x.beh.name(), conn, x.t.saturating_duration_since(c.t0).as_millis())
        })
        .collect();
    let ctx = format!(
        "{what}: node saw [{}], fleet returned {} after {}ms, max_attempts {}",
        show.join(","),
        c.res,
        c.t1.saturating_duration_since(c.t0).as_millis(),
        max
    );
    // ---- evidence that depends on the sniffer must be complete and agree with what the fleet says ----
    // a refusal stamped before the call began was emitted for an earlier call and counted late
    if c.contacts.iter().any(|x| x.via == Via::Connect && x.t < c.t0) {
        return Verdict::Skip("refusal_out_of_window".into());
    }
    let reused = matches!(c.contacts.first(), Some(x) if x.via == Via::Request && x.conn < c.conn_mark);
    // attempts accounted for: the contacts, plus one attempt on a dead cached client if the call
    // began with a cached client and did not use its connection
    let accounted = n + usize::from(c.pre_conn && !reused);
    if c.res == "Io(ConnectionRefused)" {
        // the fleet says its last attempt was refused: the node's log must end with that refusal
        if !matches!(c.contacts.last(), Some(x) if x.beh == Beh::Refused && x.via == Via::Connect) {
            return Verdict::Skip("refusal_unseen".into());
        }
    }
    if sniffer_dependent && c.res.starts_with("Io(") && accounted < max {
        // The call ended on a transport error although attempts seem to be left. Either the fleet
        // does not retry that kind (then the model, which has the extracted table, says so too — but
        // that cannot be told apart here), or it did use all its attempts and a refused connect was
        // not counted (the node then also stayed closed one attempt too long). Not judged.
        return Verdict::Skip("refusal_unseen".into());
    }
    // (1) bounded
    if n > max {
        return Verdict::Fail(format!("fleet.{k}.attempts.exceeds_max"), ctx);
    }
    // each attempt waits for the node's own timeout (80 ms), not for the fleet-wide default (20 s)
    if !health && c.t1.saturating_duration_since(c.t0) > (T_NODE + DELAY) * max as u32 + Duration::from_secs(5) {
        return Verdict::Fail(format!("fleet.{k}.timeout.not_the_nodes"), ctx);
    }
    // the node read a request only after the fleet call had returned: the client did not wait for the
    // node (it timed out on a starved node thread); what the node then did is not what the call saw
    if c.contacts.iter().any(|x| x.via == Via::Request && x.t > c.t1) {
        return Verdict::Skip("node_lagged".into());
    }
    // lower bounds of the instants the client sent each attempt: it moves on when it has seen the
    // node's action (after the node read the request) or when its timeout fired
    let mut refs = Vec::with_capacity(n);
    let mut r = c.t0;
    for x in &c.contacts {
        refs.push(r);
        r = match (x.beh, x.via) {
            (Beh::Silent, _) => r + T_NODE,
            (Beh::Refused, Via::Connect) => r,
            _ => x.t.max(r).min(r + T_NODE),
        };
    }
    // a request the node read T or more after the earliest instant the client can have sent it may
    // already have been given up by the client (timeout on a starved node thread): not judged
    for (x, r) in c.contacts.iter().zip(&refs) {
        if x.via == Via::Request && x.t.saturating_duration_since(*r) >= T_NODE {
            return Verdict::Skip("node_lagged".into());
        }
    }
    // (2) a retry follows only a transport failure; (3) the first reply ends the call
    for i in 0..n.saturating_sub(1) {
        let b = c.contacts[i].beh;
        if b.is_reply() || b == Beh::Malformed {
            // the client retried after the node answered; legitimate only if the answer came too late
            if c.contacts[i + 1].t.saturating_duration_since(refs[i]) < T_NODE {
                let sig = if b.is_reply() { "retry_after_reply" } else { "retry_after_nontransport" };
                return Verdict::Fail(format!("fleet.{k}.{sig}.{}", b.name()), ctx);
            }
            return Verdict::Skip("late_reply_retry".into());
        }
    }
    // (4) reports the reply or the last transport error
    let timed_out_late = c.res == "Io(TimedOut)" && n > 0 && c.t1.saturating_duration_since(refs[n - 1]) >= T_NODE;
    match c.contacts.last() {
        None => {
            if c.res == "ok" {
                return Verdict::Fail(format!("fleet.{k}.report.ok_without_contact"), ctx);
            }
        }
        Some(last) => {
            let (want, alts): (&str, &[&str]) = match (last.beh, last.via) {
                (Beh::Success, _) | (Beh::Idle, _) => ("ok", &[]),
                (Beh::AppErr, _) => ("Server", &[]),
                (Beh::Malformed, _) => ("Decode", &[]),
                (Beh::Silent, _) => ("Io(TimedOut)", &[]),
                (Beh::Refused, Via::Connect) => ("Io(ConnectionRefused)", &[]),
                (Beh::Atc, _) | (Beh::Refused, Via::Request) => {
                    ("Io(UnexpectedEof)", &["Io(ConnectionReset)", "Io(ConnectionAborted)", "Io(BrokenPipe)"])
                }
            };
            if c.res != want {
                if alts.contains(&c.res.as_str()) {
                    return Verdict::Skip(format!("class_not_engineered.{}", c.res));
                }
                if timed_out_late && last.via == Via::Request {
                    return Verdict::Skip("late_reply".into());
                }
                let sig = match last.beh {
                    Beh::Success | Beh::Idle | Beh::AppErr => "report.not_the_reply",
                    Beh::Malformed => "report.malformed_reply",
                    _ => "report.not_the_last_transport_error",
                };
                return Verdict::Fail(format!("fleet.{k}.{sig}"), ctx);
            }
        }
    }
    Verdict::Fine
}

fn show_call(c: &CallRec) -> String {
    format!("{}:{}:{}", c.contacts.len(), c.res, c.conn as u8)
}

fn one_call(env: &Env, fleet: &AnyFleet, node: &Node, variant: &str) -> Result<CallRec, String> {
    let n0 = node.log_len();
    let pre_conn = fleet.is_connected(env, "n");
    let conn_mark = node.sh.st.lock().unwrap().next_conn;
    let t0 = Instant::now();
    let res = fleet.call(env, variant, &node.method());
    let t1 = Instant::now();
    node.settle()?;
    if let Some(t) = node.trouble() {
        return Err(t);
    }
    Ok(CallRec { contacts: node.log_from(n0), res, conn: fleet.is_connected(env, "n"), t0, t1, pre_conn, conn_mark })
}

fn run_case(env: &Env, idx: &str, kind: &str, variant: &str, max: usize, seq: &[Beh]) -> CaseOut {
    let mut out = CaseOut::default();
    if seq.contains(&Beh::Refused) && env.sniffer.is_none() {
        out.skip = Some("no_sniffer".into());
        return out;
    }
    let drops0 = env.sniffer.as_ref().map(|s| s.total_drops());
    if let Some(s) = &env.sniffer {
        // the sniffer is alive and has caught up before the case begins
        if let Err(r) = s.barrier() {
            out.skip = Some(r);
            return out;
        }
    }
    let node = match Node::new(seq.to_vec(), env.sniffer.clone()) {
        Ok(n) => n,
        Err(e) => {
            out.skip = Some(format!("node_{:?}:{e}", e.kind()));
            return out;
        }
    };
    node.set_app_code_for(idx);
    let cfg = NodeConfig::new(node_host(), node.port()).unwrap().with_name("n").unwrap().with_timeout(T_NODE).unwrap();
    let fleet = AnyFleet::new(kind, vec![cfg], max, DELAY);
    let mut script_calls = vec![];
    let mut healthy_calls = vec![];
    let mut recovered: Option<usize> = None;
    let r: Result<(), String> = (|| {
        for _ in 0..(2 * seq.len() + 1) {
            if node.exhausted() {
                break;
            }
            script_calls.push(one_call(env, &fleet, &node, variant)?);
        }
        node.set_healthy();
        for i in 0..HEALTHY_CALLS {
            let c = one_call(env, &fleet, &node, variant)?;
            let ok = c.res == "ok";
            healthy_calls.push(c);
            if ok {
                recovered = Some(i + 1);
                break;
            }
        }
        Ok(())
    })();
    if let Err(reason) = r {
        out.skip = Some(reason);
        return out;
    }
    if let (Some(s), Some(d0)) = (&env.sniffer, drops0) {
        if s.total_drops() != d0 {
            out.skip = Some("sniffer_drops".into());
            return out;
        }
    }
    // direct oracles
    for (i, c) in script_calls.iter().enumerate() {
        match check_call(kind, max, c, &format!("script call {}", i + 1), seq.contains(&Beh::Refused)) {
            Verdict::Fine => {}
            Verdict::Skip(r) => {
                out.skip = Some(r);
                return out;
            }
            Verdict::Fail(sig, d) => out.fails.push((sig, d)),
        }
    }
    for (i, c) in healthy_calls.iter().enumerate() {
        match check_call(kind, max, c, &format!("healthy call {}", i + 1), seq.contains(&Beh::Refused)) {
            Verdict::Fine => {}
            Verdict::Skip(r) => {
                out.skip = Some(r);
                return out;
            }
            Verdict::Fail(sig, d) => out.fails.push((sig, d)),
        }
    }
    // recovery: the node is accepting and answering; one call (two if only one attempt is allowed) must succeed
    let allowed = if max >= 2 { 1 } else { 2 };
    if recovered.map_or(true, |k| k > allowed) {
        let first_bad = &healthy_calls[0];
        let cls = first_bad.res.replace("Io(", "").replace(')', "");
        let hist: Vec<String> = healthy_calls.iter().map(show_call).collect();
        out.fails.push((
            format!("fleet.{}.recover.wedged.{}", kind_name(kind), cls),
            format!(
                "after [{}] the node was healthy (listening, answering) but {} call(s) with max_attempts={} did not recover: {} (contacts:result:is_connected); script calls: {}",
                show_seq(seq),
                healthy_calls.len(),
                max,
                hist.join(" "),
                script_calls.iter().map(show_call).collect::<Vec<_>>().join(" ")
            ),
        ));
    }
    let mut words = vec![idx.to_string(), "s".into()];
    words.extend(script_calls.iter().map(show_call));
    words.push("|".into());
    words.push("h".into());
    words.extend(healthy_calls.iter().map(show_call));
    words.push("|".into());
    words.push("rec".into());
    words.push(recovered.map_or("never".into(), |k| k.to_string()));
    out.obs = Some(words.join(" "));
    // calls that never reached the node ran on a dead cached client: the model allows a set of error
    // kinds there and is told which one was observed
    let dead: Vec<String> = script_calls
        .iter()
        .chain(healthy_calls.iter())
        .filter(|c| c.contacts.is_empty() && c.res.starts_with("Io("))
        .map(|c| c.res[3..c.res.len() - 1].to_string())
        .collect();
    if !dead.is_empty() {
        out.op_suffix = Some(format!("dead={}", dead.join(",")));
    }
    let all = script_calls.iter().chain(healthy_calls.iter());
    for c in all {
        if c.contacts.len() >= 2 {
            out.counters.push("call.retried".into());
            out.nontrivial = true;
        }
        if c.contacts.is_empty() {
            out.counters.push("call.dead_cache_no_contact".into());
            out.nontrivial = true;
        }
        if c.res != "ok" {
            out.nontrivial = true;
        }
        out.counters.push(format!("result.{}", c.res));
        for x in &c.contacts {
            out.counters.push(format!("contact.{}", x.beh.name()));
        }
    }
    out.counters.push(format!("case.{}.max{}.len{}", kind_name(kind), max, seq.len()));
    out.counters.push(format!("variant.{variant}"));
    out
}


// ------------------------------------------------------------------------------------------
// connection management and health check, mixed with calls
// ------------------------------------------------------------------------------------------
fn run_life(env: &Env, idx: &str, kind: &str, max: usize, seq: &[Beh], ops: &[String]) -> CaseOut {
    let mut out = CaseOut::default();
    let k = kind_name(kind);
    if seq.contains(&Beh::Refused) && env.sniffer.is_none() {
        out.skip = Some("no_sniffer".into());
        return out;
    }
    let drops0 = env.sniffer.as_ref().map(|s| s.total_drops());
    if let Some(s) = &env.sniffer {
        if let Err(r) = s.barrier() {
            out.skip = Some(r);
            return out;
        }
    }
    let node = match Node::new(seq.to_vec(), env.sniffer.clone()) {
        Ok(n) => n,
        Err(e) => {
            out.skip = Some(format!("node_{:?}:{e}", e.kind()));
            return out;
        }
    };
    node.set_app_code_for(idx);
    let cfg = NodeConfig::new(node_host(), node.port()).unwrap().with_name("n").unwrap().with_timeout(T_NODE).unwrap();
    let fleet = AnyFleet::new(kind, vec![cfg], max, DELAY);
    let sd = seq.contains(&Beh::Refused);
    let mut words = vec![idx.to_string(), "o".to_string()];
    let mut dead: Vec<String> = vec![];
    let mut healthy_calls = vec![];
    let mut recovered: Option<usize> = None;
    let mut verdicts: Vec<Verdict> = vec![];
    let r: Result<(), String> = (|| {
        for (i, op) in ops.iter().enumerate() {
            let what = format!("operation {} ({op})", i + 1);
            match op.as_str() {
                "call" => {
                    let c = one_call(env, &fleet, &node, "json")?;
                    verdicts.push(check_call(kind, max, &c, &what, sd));
                    if c.contacts.is_empty() && c.res.starts_with("Io(") {
                        dead.push(c.res[3..c.res.len() - 1].to_string());
                    }
                    words.push(format!("call:{}", show_call(&c)));
                }
                "health" => {
                    let n0 = node.log_len();
                    let pre_conn = fleet.is_connected(env, "n");
                    let conn_mark = node.sh.st.lock().unwrap().next_conn;
                    let t0 = Instant::now();
                    let res = fleet.health(env, &node.method());
                    let t1 = Instant::now();
                    node.settle()?;
                    if let Some(t) = node.trouble() {
                        return Err(t);
                    }
                    let c = CallRec { contacts: node.log_from(n0), res, conn: fleet.is_connected(env, "n"), t0, t1, pre_conn, conn_mark };
                    // a health check is one attempt: the clauses of a call with max_attempts = 1 …
                    verdicts.push(check_call(kind, 1, &c, &what, sd));
                    // … and an unhealthy verdict must not leave a client (least of all a dead one) behind
                    if c.res != "ok" && c.conn {
                        verdicts.push(Verdict::Fail(
                            format!("fleet.{k}.health.unhealthy_keeps_client"),
                            format!("{what}: verdict {} but is_connected stays true", c.res),
                        ));
                    }
                    if c.contacts.is_empty() && c.res.starts_with("Io(") {
                        dead.push(c.res[3..c.res.len() - 1].to_string());
                    }
                    words.push(format!("health:{}", show_call(&c)));
                }
                "conn" | "reconn" => {
                    let was = fleet.is_connected(env, "n");
                    let n0 = node.log_len();
                    let r = if op == "conn" { fleet.connect_all(env) } else { fleet.reconnect(env) };
                    node.settle()?;
                    if let Some(t) = node.trouble() {
                        return Err(t);
                    }
                    let conn = fleet.is_connected(env, "n");
                    // the fleet says the connect failed: the node's log must show the counted refusal
                    // (and only a refusal can be in the log of a bare connect)
                    let seen: Vec<Contact> = node.log_from(n0);
                    let refusals = seen.iter().filter(|x| x.beh == Beh::Refused && x.via == Via::Connect).count();
                    if (r == Some(false)) != (refusals == 1) || seen.len() != refusals {
                        return Err("refusal_unseen".into());
                    }
                    // the summary and the slot must agree; an occupied slot is not an attempt for reconnect
                    let consistent = match (op.as_str(), r) {
                        ("conn", Some(b)) => b == conn,
                        ("conn", None) => false,
                        (_, None) => was && conn,
                        (_, Some(b)) => !was && b == conn,
                    };
                    if !consistent {
                        verdicts.push(Verdict::Fail(
                            format!("fleet.{k}.{}.summary_mismatch", if op == "conn" { "connect_all" } else { "reconnect" }),
                            format!("{what}: summary {:?}, is_connected before {was} after {conn}", r),
                        ));
                    }
                    let txt = match r {
                        Some(true) => "ok",
                        Some(false) => "failed",
                        None => "-",
                    };
                    words.push(format!("{op}:{txt}:{}", conn as u8));
                }
                "disc" => {
                    fleet.disconnect_all(env);
                    node.settle()?;
                    let conn = fleet.is_connected(env, "n");
                    if conn {
                        verdicts.push(Verdict::Fail(format!("fleet.{k}.disconnect_all.still_connected"), what.clone()));
                    }
                    words.push(format!("disc:{}", conn as u8));
                }
                _ => return Err("bad_life_op".into()),
            }
        }
        node.set_healthy();
        for i in 0..HEALTHY_CALLS {
            let c = one_call(env, &fleet, &node, "json")?;
            let ok = c.res == "ok";
            healthy_calls.push(c);
            if ok {
                recovered = Some(i + 1);
                break;
            }
        }
        Ok(())
    })();
    if let Err(reason) = r {
        out.skip = Some(reason);
        return out;
    }
    if let (Some(s), Some(d0)) = (&env.sniffer, drops0) {
        if s.total_drops() != d0 {
            out.skip = Some("sniffer_drops".into());
            return out;
        }
    }
    for (i, c) in healthy_calls.iter().enumerate() {
        verdicts.push(check_call(kind, max, c, &format!("healthy call {}", i + 1), sd));
        if c.contacts.is_empty() && c.res.starts_with("Io(") {
            dead.push(c.res[3..c.res.len() - 1].to_string());
        }
    }
    for v in verdicts {
        match v {
            Verdict::Fine => {}
            Verdict::Skip(r) => {
                out.skip = Some(r);
                return out;
            }
            Verdict::Fail(sig, d) => out.fails.push((sig, d)),
        }
    }
    let allowed = if max >= 2 { 1 } else { 2 };
    if recovered.map_or(true, |n| n > allowed) {
        let cls = healthy_calls[0].res.replace("Io(", "").replace(')', "");
        out.fails.push((
            format!("fleet.{k}.recover.wedged.{cls}"),
            format!(
                "after operations [{}] against [{}] the node was healthy but {} call(s) with max_attempts={max} did not recover: {}",
                ops.join(","),
                show_seq(seq),
                healthy_calls.len(),
                healthy_calls.iter().map(show_call).collect::<Vec<_>>().join(" ")
            ),
        ));
    }
    words.push("|".into());
    words.push("h".into());
    words.extend(healthy_calls.iter().map(show_call));
    words.push("|".into());
    words.push("rec".into());
    words.push(recovered.map_or("never".into(), |n| n.to_string()));
    out.obs = Some(words.join(" "));
    if !dead.is_empty() {
        out.op_suffix = Some(format!("dead={}", dead.join(",")));
    }
    out.nontrivial = true;
    for op in ops {
        out.counters.push(format!("life.{op}"));
    }
    out.counters.push(format!("life.{k}.ops{}.len{}", ops.len(), seq.len()));
    out
}

// ------------------------------------------------------------------------------------------
// broadcast cases
// ------------------------------------------------------------------------------------------
struct BcNode {
    name: String,
    tags: Vec<String>,
    /// empty = healthy; otherwise one of: all `refused`, all `silent`, or replies (`apperr`/`success`)
    script: Vec<Beh>,
    down: bool,
}

fn parse_bc_nodes(s: &str) -> Option<Vec<BcNode>> {
    let mut v = vec![];
    for part in s.split(';').filter(|x| !x.is_empty()) {
        let f: Vec<&str> = part.split('=').collect();
        if f.len() != 3 {
            return None;
        }
        let tags = f[1].split('+').filter(|x| !x.is_empty()).map(|x| x.to_string()).collect();
        let bs = parse_seq(f[2])?;
        // scripts whose every element yields the same class whatever the timing: the node never has
        // to answer within the short timeout that the silent nodes get
        let uniform = |b: Beh| bs.iter().all(|x| *x == b);
        if !(bs.is_empty() || uniform(Beh::Refused) || uniform(Beh::Silent) || bs.iter().all(|b| matches!(b, Beh::AppErr | Beh::Success))) {
            return None;
        }
        let down = !bs.is_empty() && uniform(Beh::Refused);
        v.push(BcNode { name: f[0].to_string(), tags, script: bs, down });
    }
    Some(v)
}

fn run_bc(env: &Env, idx: &str, kind: &str, max: usize, nodes: &[BcNode], req: &[String], map_reduce: bool) -> CaseOut {
    let mut out = CaseOut::default();
    if nodes.iter().any(|n| n.down) && env.sniffer.is_none() {
        out.skip = Some("no_sniffer".into());
        return out;
    }
    let drops0 = env.sniffer.as_ref().map(|s| s.total_drops());
    if let Some(s) = &env.sniffer {
        if let Err(r) = s.barrier() {
            out.skip = Some(r);
            return out;
        }
    }
    let mut live = vec![];
    for n in nodes {
        let script = n.script.clone();
        match Node::new(script, env.sniffer.clone()) {
            Ok(x) => live.push(x),
            Err(e) => {
                out.skip = Some(format!("node_{:?}:{e}", e.kind()));
                return out;
            }
        }
    }
    let configs: Vec<NodeConfig> = nodes
        .iter()
        .zip(&live)
        .map(|(n, x)| {
            // the per-node timeout: short for a node that never answers, generous for the others
            let t = if n.script.contains(&Beh::Silent) { T_NODE } else { T_BCAST };
            NodeConfig::new(node_host(), x.port()).unwrap().with_name(n.name.clone()).unwrap().with_tags(n.tags.clone()).with_timeout(t).unwrap()
        })
        .collect();
    let fleet = AnyFleet::new(kind, configs, max, Duration::from_millis(10));
    let params = serde_json::json!({"x": 1});
    let method = format!("/bc{}", live.first().map_or(0, |x| x.sh.id));
    for x in &live {
        x.set_token(&method);
    }
    let method = method.as_str();
    let cls = |r: repe::RemoteResult<serde_json::Value>| (r.node.clone(), class_of_result(&r.value, &r.error));
    let (mut results, mut filtered): (Vec<(String, String)>, Vec<String>) = match &fleet {
        AnyFleet::B(f) => (
            if map_reduce {
                // `map_reduce_json` = the same broadcast, reduced: the reducer must see one result per addressed node
                f.map_reduce_json(method, Some(&params), req, |v| v.into_iter().map(cls).collect())
            } else {
                f.broadcast_json(method, Some(&params), req).into_iter().map(|(k, r)| (k, class_of_result(&r.value, &r.error))).collect()
            },
            f.filter_nodes(req).into_iter().map(|n| n.name).collect(),
        ),
        AnyFleet::A(f) => env.rt.block_on(async {
            (
                if map_reduce {
                    f.map_reduce_json(method, Some(&params), req, |v| v.into_iter().map(cls).collect()).await
                } else {
                    f.broadcast_json(method, Some(&params), req).await.into_iter().map(|(k, r)| (k, class_of_result(&r.value, &r.error))).collect()
                },
                f.filter_nodes(req).await.into_iter().map(|n| n.name).collect(),
            )
        }),
    };
    results.sort();
    filtered.sort();
    let mut addressed = vec![];
    for (n, x) in nodes.iter().zip(&live) {
        if let Err(r) = x.settle() {
            out.skip = Some(r);
            return out;
        }
        if let Some(t) = x.trouble() {
            out.skip = Some(t);
            return out;
        }
        if x.log_len() > 0 {
            addressed.push(n.name.clone());
        } else if n.down && results.iter().any(|(k, v)| *k == n.name && v == "Io(ConnectionRefused)") {
            // the fleet was refused by this node but no refusal was counted: evidence incomplete
            out.skip = Some("refusal_unseen".into());
            return out;
        }
    }
    if let (Some(s), Some(d0)) = (&env.sniffer, drops0) {
        if s.total_drops() != d0 {
            out.skip = Some("sniffer_drops".into());
            return out;
        }
    }
    addressed.sort();
    // direct oracle: exactly the nodes carrying all requested tags, one result each
    let mut expect: Vec<String> = nodes.iter().filter(|n| req.iter().all(|t| n.tags.contains(t))).map(|n| n.name.clone()).collect();
    expect.sort();
    let k = kind_name(kind);
    let ctx = format!(
        "nodes {:?} requested {:?}: expected {:?}, contacted {:?}, results {:?}, filter_nodes {:?}",
        nodes.iter().map(|n| (n.name.as_str(), &n.tags)).collect::<Vec<_>>(),
        req,
        expect,
        addressed,
        results,
        filtered
    );
    if addressed != expect {
        out.fails.push((format!("fleet.{k}.broadcast.wrong_targets"), ctx.clone()));
    }
    let keys: Vec<String> = results.iter().map(|(k, _)| k.clone()).collect();
    if keys != expect {
        out.fails.push((format!("fleet.{k}.broadcast.results_mismatch"), ctx.clone()));
    }
    if filtered != expect {
        out.fails.push((format!("fleet.{k}.filter_nodes.mismatch"), ctx));
    }
    let dash = |v: Vec<String>| if v.is_empty() { "-".to_string() } else { v.join(",") };
    out.obs = Some(format!(
        "{idx} addressed {} results {}",
        dash(addressed.clone()),
        dash(results.iter().map(|(k, v)| format!("{k}={v}")).collect())
    ));
    out.nontrivial = !expect.is_empty() && expect.len() < nodes.len() || nodes.iter().any(|n| !n.script.is_empty());
    out.counters.push(format!("bc.{k}.nodes{}.targets{}", nodes.len(), expect.len()));
    out
}

// ------------------------------------------------------------------------------------------
// op lines
// ------------------------------------------------------------------------------------------
fn exec(env: &Env, line: &str) -> CaseOut {
    let w = words(line);
    let bad = || CaseOut { obs: Some(format!("{} bad-op", w.get(1).copied().unwrap_or("?"))), ..Default::default() };
    match w.as_slice() {
        ["case", idx, kind, variant, max, seq, ..] if w.len() <= 7 && ["b", "a"].contains(kind) && ["json", "jsonnp", "msg"].contains(variant) => {
            // a 7th word `dead=…` of a recorded op line is what an earlier run observed; it is observed again
            let (Ok(max), Some(seq)) = (max.parse::<usize>(), parse_seq(seq)) else { return bad() };
            if max == 0 {
                return bad();
            }
            run_case(env, idx, kind, variant, max, &seq)
        }
        [op @ ("bc" | "mr"), idx, kind, max, nodes, req] if ["b", "a"].contains(kind) => {
            let (Ok(max), Some(nodes)) = (max.parse::<usize>(), parse_bc_nodes(nodes)) else { return bad() };
            let req: Vec<String> = if *req == "-" { vec![] } else { req.split(',').map(|x| x.to_string()).collect() };
            run_bc(env, idx, kind, max, &nodes, &req, *op == "mr")
        }
        ["life", idx, kind, max, seq, ops, ..] if w.len() <= 7 && ["b", "a"].contains(kind) => {
            let (Ok(max), Some(seq)) = (max.parse::<usize>(), parse_seq(seq)) else { return bad() };
            let ops: Vec<String> = ops.split(',').filter(|x| !x.is_empty()).map(|x| x.to_string()).collect();
            if max == 0 || ops.is_empty() || !ops.iter().all(|o| ["conn", "disc", "reconn", "health", "call"].contains(&o.as_str())) {
                return bad();
            }
            run_life(env, idx, kind, max, &seq, &ops)
        }
        _ => bad(),
    }
}

fn all_seqs(len: usize) -> Vec<Vec<Beh>> {
    let mut out: Vec<Vec<Beh>> = vec![vec![]];
    for _ in 0..len {
        out = out.into_iter().flat_map(|s| ALL_BEH.iter().map(move |b| { let mut t = s.clone(); t.push(*b); t })).collect();
    }
    out
}

fn gen_cases(rng: &mut Rng, thorough: bool) -> Vec<String> {
    let mut ops = vec![];
    let mut n = 0usize;
    let variants = ["json", "jsonnp", "msg"];
    let mut push = |ops: &mut Vec<String>, kind: &str, max: usize, seq: &[Beh]| {
        n += 1;
        if thorough && max <= 2 {
            // every call variant
            for v in variants {
                let tag = match v { "json" => "j", "jsonnp" => "n", _ => "m" };
                ops.push(format!("case c{n}{tag} {kind} {v} {max} {}", show_seq(seq)));
            }
        } else {
            ops.push(format!("case c{n} {kind} {} {max} {}", variants[n % 3], show_seq(seq)));
        }
    };
    // exhaustive part: every sequence of length <= bound
    let bounds: Vec<(usize, usize)> = if thorough { vec![(1, 3), (2, 4), (3, 5)] } else { vec![(1, 3), (2, 4), (3, 3)] };
    for (max, bound) in &bounds {
        for len in 0..=*bound {
            for seq in all_seqs(len) {
                for kind in ["b", "a"] {
                    push(&mut ops, kind, *max, &seq);
                }
            }
        }
    }
    // sampled part (quick only): longer sequences for max 3
    if !thorough {
        for _ in 0..300 {
            let max = 3usize;
            let len = rng.range(4, max as u64 + 2) as usize;
            let seq: Vec<Beh> = (0..len).map(|_| *rng.pick(&ALL_BEH)).collect();
            let kind = if rng.chance(1, 2) { "b" } else { "a" };
            push(&mut ops, kind, max, &seq);
        }
    }
    // connection management and health check mixed with calls: every operation sequence up to length 3
    // over {connect_all, disconnect_all, reconnect_disconnected, health_check, call}; node scripts up to
    // length 2 without `silent` (health_check waits 5 s for a reply): quick 8 sampled scripts per
    // operation sequence, thorough all 43
    {
        let life_ops = ["conn", "disc", "reconn", "health", "call"];
        let mut op_seqs: Vec<Vec<&str>> = vec![];
        for len in 1..=3usize {
            let mut cur: Vec<Vec<&str>> = vec![vec![]];
            for _ in 0..len {
                cur = cur.into_iter().flat_map(|s| life_ops.iter().map(move |o| { let mut t = s.clone(); t.push(*o); t })).collect();
            }
            op_seqs.extend(cur);
        }
        let scripts: Vec<Vec<Beh>> = (0..=2).flat_map(all_seqs).filter(|s| !s.contains(&Beh::Silent)).collect();
        let mut l = 0usize;
        for os in &op_seqs {
            let chosen: Vec<&Vec<Beh>> = if thorough { scripts.iter().collect() } else { (0..8).map(|_| rng.pick(&scripts)).collect() };
            for sc in chosen {
                l += 1;
                let kind = if l % 2 == 0 { "b" } else { "a" };
                let max = 1 + l % 3;
                ops.push(format!("life l{l} {kind} {max} {} {}", show_seq(sc), os.join(",")));
            }
        }
    }
    // broadcasts: every assignment of tag subsets to up to N nodes, every requested subset
    let mut m = 0usize;
    let plans: Vec<(usize, Vec<&str>)> =
        if thorough { vec![(4, vec!["a", "b"]), (3, vec!["a", "b", "c"])] } else { vec![(3, vec!["a", "b"])] };
    for (maxn, universe) in plans {
        let subsets: Vec<Vec<&str>> = (0..(1usize << universe.len()))
            .map(|mask| universe.iter().enumerate().filter(|(i, _)| mask >> i & 1 == 1).map(|(_, t)| *t).collect())
            .collect();
        let mut reqs: Vec<String> = subsets.iter().map(|s| if s.is_empty() { "-".to_string() } else { s.join(",") }).collect();
        reqs.push(format!("{0},{0}", universe[0])); // a duplicated tag is one tag
        for nn in 1..=maxn {
            let total = subsets.len().pow(nn as u32);
            for code in 0..total {
                let mut c = code;
                let mut tagsets = vec![];
                for _ in 0..nn {
                    tagsets.push(subsets[c % subsets.len()].join("+"));
                    c /= subsets.len();
                }
                for req in &reqs {
                    m += 1;
                    let kind = if m % 2 == 0 { "b" } else { "a" };
                    let max = 1 + m % 2;
                    // every 7th broadcast has a refusing node, every 5th a node that is silent on every
                    // attempt (it is addressed and must still get its one result entry), every 11th a
                    // node that answers with an application error
                    let special: Option<(usize, String)> = if m % 7 == 0 {
                        Some((m % nn, vec!["refused"; max].join(",")))
                    } else if m % 5 == 0 {
                        Some((m % nn, vec!["silent"; max].join(",")))
                    } else if m % 11 == 0 {
                        Some((m % nn, "apperr".to_string()))
                    } else {
                        None
                    };
                    let nodes: Vec<String> = tagsets
                        .iter()
                        .enumerate()
                        .map(|(i, t)| {
                            let bs = match &special {
                                Some((j, b)) if *j == i => b.clone(),
                                _ => "-".to_string(),
                            };
                            format!("n{i}={t}={bs}")
                        })
                        .collect();
                    let op = if m % 3 == 0 { "mr" } else { "bc" };
                    ops.push(format!("{op} b{m} {kind} {max} {} {req}", nodes.join(";")));
                }
            }
        }
    }
    ops
}

fn main() {
    let args = Args::parse();
    quiet_panics();
    let mut out = Out::new(&args.out);
    let mut rng = Rng::new(args.seed);
    let env = Arc::new(Env {
        sniffer: Sniffer::start(),
        rt: tokio::runtime::Builder::new_multi_thread().worker_threads(4).enable_all().build().unwrap(),
    });
    out.extra.insert("sniffer".into(), serde_json::json!(env.sniffer.is_some()));
    out.extra.insert("node_timeout_ms".into(), serde_json::json!(T_NODE.as_millis() as u64));
    out.extra.insert("retry_delay_ms".into(), serde_json::json!(DELAY.as_millis() as u64));
    out.rule = "case = fresh Fleet/AsyncFleet + one scripted node: calls until the script is consumed (at most 2*len+1), then a healthy phase of up to 3 calls; all behaviour sequences over the 7-letter alphabet up to length max+2 (quick: max 1 up to length 3, max 2 up to length 4, max 3 up to length 3 + 300 sampled sequences of length 4-5; thorough: max 1..3 up to length max+2, exhaustive), both fleets, call variants json/jsonnp/msg in rotation (thorough: all three for max 1,2); life = every sequence (length 1-3) of connect_all / disconnect_all / reconnect_disconnected / health_check / call against node scripts of length <= 2 without silent (quick: 8 sampled scripts each; thorough: all 43), then the healthy phase; bc / mr (map_reduce_json) = every assignment of tag subsets to up to 3 (thorough 4) nodes x every requested subset (+ one duplicated tag), every 7th with a refusing node, every 5th with a node that is silent on every attempt, every 11th with a node answering an application error. Distinct by op line; non-trivial = a call retried, hit a dead cached client, or returned an error / a broadcast that selects a proper non-empty subset or has a refusing node".into();
    let mut ops: Vec<String> = match args.replay_ops() {
        Some(ops) => ops,
        None => gen_cases(&mut rng, args.thorough()),
    };
    if args.replay.is_none() {
        // spread the slow cases; order of execution does not matter, order of output is by index
        rng.shuffle(&mut ops);
    }
    let workers = if args.thorough() { 32 } else { 24 };
    let next = Arc::new(AtomicUsize::new(0));
    let ops = Arc::new(ops);
    let results: Arc<Mutex<Vec<Option<CaseOut>>>> = Arc::new(Mutex::new((0..ops.len()).map(|_| None).collect()));
    let skipped_tries = Arc::new(Mutex::new(Vec::<String>::new()));
    let mut handles = vec![];
    for _ in 0..workers.min(ops.len().max(1)) {
        let (env, next, ops, results, skipped_tries) = (env.clone(), next.clone(), ops.clone(), results.clone(), skipped_tries.clone());
        handles.push(std::thread::spawn(move || loop {
            let i = next.fetch_add(1, Ordering::SeqCst);
            if i >= ops.len() {
                break;
            }
            // a case whose physical realisation deviated from its script is tried again, then skipped
            let run = |line: &str| -> CaseOut {
                match catch(|| exec(&env, line)) {
                    Ok(r) => r,
                    Err(msg) => CaseOut { skip: Some(format!("harness_panic:{msg}")), ..Default::default() },
                }
            };
            if CONFIRMED.load(Ordering::SeqCst) >= ENOUGH_CONFIRMED {
                results.lock().unwrap()[i] = Some(CaseOut { skip: Some("not_run_after_failures".into()), ..Default::default() });
                continue;
            }
            let mut r = run(&ops[i]);
            for _ in 0..2 {
                if let Some(reason) = &r.skip {
                    if reason == "no_sniffer" || EXPIRIES.load(Ordering::SeqCst) > MANY_EXPIRIES {
                        break;
                    }
                    skipped_tries.lock().unwrap().push(reason.clone());
                    r = run(&ops[i]);
                } else {
                    break;
                }
            }
            // an oracle failure is reported only if the same case fails the same oracles in two more
            // executions: a defect of the fleet is deterministic, an accident of scheduling is not
            if r.skip.is_none() && !r.fails.is_empty() {
                let sigs = |x: &CaseOut| { let mut v: Vec<String> = x.fails.iter().map(|f| f.0.clone()).collect(); v.sort(); v.dedup(); v };
                let first = sigs(&r);
                for _ in 0..2 {
                    let again = run(&ops[i]);
                    if again.skip.is_some() || sigs(&again) != first || again.obs != r.obs {
                        if std::env::var("FLEET_TEST_VERBOSE").is_ok() {
                            eprintln!("unconfirmed: {} :: {:?}", ops[i], r.fails);
                        }
                        skipped_tries.lock().unwrap().push("unconfirmed_failure".into());
                        r = CaseOut { skip: Some("unconfirmed_failure".into()), ..Default::default() };
                        break;
                    }
                }
                if r.skip.is_none() {
                    CONFIRMED.fetch_add(1, Ordering::SeqCst);
                }
            }
            results.lock().unwrap()[i] = Some(r);
        }));
    }
    for h in handles {
        let _ = h.join(); // a worker that died leaves its case without a result: counted below
    }
    for reason in skipped_tries.lock().unwrap().iter() {
        out.count(&format!("retried_case.{}", reason.split(':').next().unwrap_or("?")));
    }
    let results = std::mem::take(&mut *results.lock().unwrap());
    // report the shortest failing case of each signature first
    let mut fails: Vec<(String, usize, String, String)> = vec![];
    for (line, r) in ops.iter().zip(results.iter()) {
        if let Some(r) = r {
            if r.skip.is_none() {
                for (sig, detail) in &r.fails {
                    fails.push((sig.clone(), line.len(), line.clone(), detail.clone()));
                }
            }
        }
    }
    fails.sort();
    for (sig, _, line, detail) in &fails {
        out.oracle_fail(sig, detail, &[line.clone()]);
    }
    for (line, r) in ops.iter().zip(results) {
        let r = r.unwrap_or_else(|| CaseOut { skip: Some("harness_panic:worker".into()), ..Default::default() });
        if let Some(reason) = &r.skip {
            out.count(&format!("skipped.{}", reason.split(':').next().unwrap_or("?")));
            continue;
        }
        for c in &r.counters {
            out.count(c);
        }
        let base: String = line.split(' ').filter(|w| !w.starts_with("dead=")).collect::<Vec<_>>().join(" ");
        let full = match &r.op_suffix {
            Some(sfx) => format!("{base} {sfx}"),
            None => base,
        };
        out.case(&full, r.obs.as_deref().unwrap_or("?"), r.nontrivial);
    }
    // share of cases not judged, by kind of reason (evidence only; never a verdict)
    let sum = |f: &dyn Fn(&str) -> bool| -> u64 { out.counters.iter().filter(|(k, _)| k.starts_with("skipped.") && f(&k[8..])).map(|(_, v)| *v).sum() };
    let behavioural = sum(&|k| ["idle_handshake", "settle", "stranger"].contains(&k) || k.starts_with("class_not_engineered"));
    let scheduling = sum(&|k| ["node_lagged", "late_reply", "late_reply_retry", "desync"].contains(&k));
    let evidence = sum(&|k| ["refusal_unseen", "refusal_out_of_window", "sniffer_drops", "unconfirmed_failure", "no_sniffer", "harness_panic"].contains(&k) || k.starts_with("barrier") || (k.starts_with("node_") && k != "node_lagged"));
    out.extra.insert("cases_generated".into(), serde_json::json!(ops.len()));
    out.extra.insert("skipped_socket_behaviour".into(), serde_json::json!(behavioural));
    out.extra.insert("skipped_scheduling".into(), serde_json::json!(scheduling));
    out.extra.insert("skipped_incomplete_evidence".into(), serde_json::json!(evidence));
    out.extra.insert("private_loopback_address".into(), serde_json::json!(private_ip()));
    if let Some(s) = &env.sniffer {
        out.extra.insert("sniffer_drops".into(), serde_json::json!(s.total_drops()));
    }
    out.extra.insert("port_collisions".into(), serde_json::json!(PORT_COLLISIONS.load(Ordering::SeqCst)));
    out.finish();
    // threads of nodes still winding down are detached; leave at once
    std::process::exit(0);
}
