//! Family `emit` (C01, client side): what the real blocking Client, AsyncClient and WebSocketClient put on
//! the wire for calls and notifies, captured raw by a recording peer, compared with the builder frame the
//! model predicts (`build` op of repe_model_wire) and with the independent layout codec.
use futures_util::{SinkExt, StreamExt};
use repe::{AsyncClient, Client};
use repe_verif_harness::frames::{RawFrame, RawHeader};
use repe_verif_harness::*;
use serde_json::{json, Value};
use std::io::{Read, Write};
use std::sync::mpsc;
use std::time::Duration;

#[derive(Clone, Debug)]
enum Op {
    /// call_with_formats / notify_with_formats
    Formats { notify: bool, path: String, qf: u16, body: Option<Vec<u8>>, bf: u16 },
    /// call_json / notify_json
    Json { notify: bool, path: String, value: Value },
    /// call_message (empty body)
    Message { path: String },
    /// batch_json with n entries
    Batch { paths: Vec<String> },
    /// the remaining public entry points that put a request on the wire, by name (twins with a timeout, typed JSON /
    /// BEVE helpers, registry helpers); `noreply` = the peer will not answer (the call times out, the client is used on)
    Api { api: &'static str, path: String, value: Value },
    /// AsyncClient::forward_message(_with_timeout): an arbitrary caller-built message, sent as it is
    Forward { frame: RawFrame, with_timeout: bool },
}

const APIS: &[&str] = &[
    "call_json_with_timeout", "call_typed_json", "call_typed_json_with_timeout", "call_typed_beve", "call_typed_beve_with_timeout",
    "call_message_with_timeout", "call_with_formats_and_timeout", "notify_typed_json", "notify_typed_beve",
    "registry_read", "registry_read_typed", "registry_read_with_timeout", "registry_read_typed_with_timeout",
    "registry_write_json", "registry_call_json", "batch_json_with_timeout", "noreply",
];

static HEARTBEAT: std::sync::atomic::AtomicU64 = std::sync::atomic::AtomicU64::new(0);
static CURRENT_OP: std::sync::Mutex<String> = std::sync::Mutex::new(String::new());

/// typed-slice entry points (blocking and async client only)
const SLICE_APIS: &[&str] = &["call_typed_slice", "call_typed_slice_with_timeout", "call_typed_slice_aligned", "call_typed_slice_aligned_with_timeout"];

/// Entry points of the three clients that put no request frame on the wire (or are driven by another family).
const NO_REQUEST: &[&str] = &["connect", "connect_with_limits", "set_write_timeout", "limits", "subscribe_notifies", "unsubscribe_notifies"];
/// Entry points driven by `Op` variants other than `Api`.
const DRIVEN_BY_OPS: &[&str] = &["call_with_formats", "notify_with_formats", "call_json", "notify_json", "call_message", "batch_json", "forward_message", "forward_message_with_timeout"];

/// `pub fn` / `pub async fn` names in the non-test part of a client source file of the repository under test.
fn source_entry_points(file: &str) -> Vec<String> {
    let repo = std::env::var("VERIF_REPO").unwrap_or_else(|_| "/repo".into());
    let text = std::fs::read_to_string(std::path::Path::new(&repo).join("src").join(file)).unwrap_or_default();
    let text = text.split("#[cfg(test)]").next().unwrap_or("").to_string();
    let mut names = Vec::new();
    for line in text.lines() {
        let t = line.trim_start();
        for pre in ["pub async fn ", "pub fn "] {
            if let Some(rest) = t.strip_prefix(pre) {
                let name: String = rest.chars().take_while(|c| c.is_alphanumeric() || *c == '_').collect();
                if !name.is_empty() && !names.contains(&name) { names.push(name); }
            }
        }
    }
    names
}

/// Every public entry point of the three clients must be driven, or be known to send nothing: a twin the harness does not
/// know is listed in the evidence (`not_driven`) and counted, so that it cannot go unnoticed.
fn entry_point_audit(out: &mut Out) -> Vec<String> {
    let mut missing = Vec::new();
    for (kind, file) in [("blocking", "client.rs"), ("async", "async_client.rs"), ("ws", "websocket_client.rs")] {
        for name in source_entry_points(file) {
            let driven = APIS.contains(&name.as_str()) || DRIVEN_BY_OPS.contains(&name.as_str()) || (kind != "ws" && SLICE_APIS.contains(&name.as_str()));
            if !driven && !NO_REQUEST.contains(&name.as_str()) {
                out.count(&format!("emit.NOT_DRIVEN.{}.{}", kind, name));
                missing.push(format!("{}::{}", kind, name));
            }
        }
    }
    out.extra.insert("not_driven".into(), json!(missing));
    missing
}

fn gen_path(r: &mut Rng) -> String {
    let pool = ["/a", "/echo", "", "/", "/a/b/c", "/x~0y~1z", "/é/ü", "/a b", "/0", "/very/long/path/with/many/segments/0/1/2/3/4/5/6/7/8/9/10/11/12/13/14/15/16/17"];
    let mut p = r.pick(&pool).to_string();
    if r.chance(1, 4) {
        p.push_str(&"q".repeat(r.below(70) as usize));
    }
    if r.chance(1, 40) {
        p.push_str(&"/seg".repeat(17_000));
    }
    p
}

fn gen_value(r: &mut Rng) -> Value {
    match r.below(6) {
        0 => Value::Null,
        1 => json!(r.next() as i64),
        2 => json!(""),
        3 => json!("naïve — ünïcödé ✓"),
        4 => json!({"k": r.below(1000), "nested": {"l": [1, 2.5, null, true], "s": "x".repeat(r.below(300) as usize)}}),
        _ => json!([]),
    }
}

fn gen_ops(r: &mut Rng, n: usize, kind: &str) -> Vec<Op> {
    (0..n)
        .map(|_| match r.below(if kind == "async" { 14 } else { 13 }) {
            8 if kind != "ws" => {
                let n = *r.pick(&[0usize, 1, 2, 3, 7, 64, 513]);
                Op::Api { api: *r.pick(SLICE_APIS), path: gen_path(r), value: json!((0..n).map(|i| (i as f64) * 0.5 - r.below(9) as f64).collect::<Vec<f64>>()) }
            }
            8 | 9 | 10 | 11 | 12 => {
                let api = *r.pick(APIS);
                Op::Api { api, path: if api == "noreply" { "/__noreply".to_string() } else { gen_path(r) }, value: gen_value(r) }
            }
            13 => {
                // any consistent message: reserved bits, unknown format codes, error code, any version byte
                let q = gen_path(r).into_bytes();
                let b = { let l = *r.pick(&[0usize, 1, 48, 300, 5000]); r.bytes(l) };
                let mut f = RawFrame::request((1u64 << 40) + r.below(1 << 20), r.chance(1, 3), r.boundary(16) as u16, &q, r.boundary(16) as u16, &b);
                f.h.reserved = r.boundary(32) as u32;
                f.h.ec = r.boundary(32) as u32;
                Op::Forward { frame: f, with_timeout: r.chance(1, 2) }
            }
            0 | 1 | 2 => Op::Formats {
                notify: r.chance(1, 3),
                path: gen_path(r),
                qf: *r.pick(&[1u16, 1, 1, 0, 2, 65535]),
                body: if r.chance(1, 5) { None } else { let l = *r.pick(&[0usize, 1, 2, 47, 48, 49, 255, 4096, 70000]); let n = if l > 300 && r.chance(3, 4) { r.below(300) as usize } else { l }; Some(r.bytes(n)) },
                bf: *r.pick(&[0u16, 1, 2, 3, 4, 999, 65535]),
            },
            3 | 4 => Op::Json { notify: r.chance(1, 3), path: gen_path(r), value: json!({"k": r.below(1000), "s": "x".repeat(r.below(40) as usize), "l": [1, 2, r.below(9)]}) },
            5 => Op::Message { path: gen_path(r) },
            // class q: also many calls in flight at once (MAX_BATCH_WORKERS is 64)
            6 => Op::Batch { paths: (0..*r.pick(&[1u64, 2, 3, 4, 5, 12, 17, 40, 64, 65])).map(|i| format!("/b/{}", i)).collect() },
            _ => Op::Json { notify: false, path: gen_path(r), value: Value::Null },
        })
        .collect()
}

/// Reply that lets a call return: same id, JSON `null`.
fn reply_for(h: &RawHeader) -> Vec<u8> {
    let mut f = RawFrame::request(h.id, false, h.query_format, b"", 2, b"null");
    f.h.ec = 0;
    f.to_vec()
}

/// Recording TCP peer: returns its address and a channel of captured raw frames.
fn tcp_peer() -> (std::net::SocketAddr, mpsc::Receiver<Vec<u8>>) {
    let l = std::net::TcpListener::bind("127.0.0.1:0").unwrap();
    let addr = l.local_addr().unwrap();
    let (tx, rx) = mpsc::channel();
    std::thread::spawn(move || {
        for s in l.incoming() {
            let Ok(mut s) = s else { break };
            let tx = tx.clone();
            std::thread::spawn(move || {
                let mut buf = Vec::new();
                let mut tmp = [0u8; 65536];
                loop {
                    while let Some((f, n)) = RawFrame::parse_prefix(&buf) {
                        let raw: Vec<u8> = buf.drain(..n).collect();
                        let _ = tx.send(raw);
                        if f.h.notify != 1 && f.query != b"/__noreply" {
                            let _ = s.write_all(&reply_for(&f.h));
                        }
                        if f.query == b"/__slow" {
                            // class l: the peer stops reading for a while; what the client writes next meets full buffers
                            std::thread::sleep(Duration::from_millis(80));
                        }
                    }
                    match s.read(&mut tmp) {
                        Ok(0) | Err(_) => break,
                        Ok(n) => buf.extend_from_slice(&tmp[..n]),
                    }
                }
            });
        }
    });
    (addr, rx)
}

fn ws_peer(rt: &tokio::runtime::Runtime) -> (std::net::SocketAddr, mpsc::Receiver<Vec<u8>>) {
    use tokio_tungstenite::tungstenite::Message as WsMsg;
    let (tx, rx) = mpsc::channel();
    let addr = rt.block_on(async {
        let l = tokio::net::TcpListener::bind("127.0.0.1:0").await.unwrap();
        let a = l.local_addr().unwrap();
        tokio::spawn(async move {
            loop {
                let Ok((s, _)) = l.accept().await else { break };
                let tx = tx.clone();
                tokio::spawn(async move {
                    let Ok(mut ws) = tokio_tungstenite::accept_async(s).await else { return };
                    while let Some(Ok(m)) = ws.next().await {
                        if let WsMsg::Binary(b) = m {
                            let h = RawHeader::parse(&b);
                            let _ = tx.send(b.clone());
                            if b[48.min(b.len())..].starts_with(b"/__slow") {
                                if let Some(h) = &h { let _ = ws.send(WsMsg::Binary(reply_for(h))).await; }
                                tokio::time::sleep(Duration::from_millis(80)).await;
                                continue;
                            }
                            if let Some(h) = h {
                                if h.notify != 1 && !b[48.min(b.len())..].starts_with(b"/__noreply") {
                                    let _ = ws.send(WsMsg::Binary(reply_for(&h))).await;
                                }
                            }
                        }
                    }
                });
            }
        });
        a
    });
    (addr, rx)
}

/// What the property says the frame must be (given the id the client chose).
struct Expect {
    notify: bool,
    qf: u16,
    bf: u16,
    query: Vec<u8>,
    body: Vec<u8>,
    /// forward_message: the caller's message as it is (every header field)
    exact: Option<RawFrame>,
}

fn expectations(op: &Op) -> Vec<Expect> {
    match op {
        Op::Formats { notify, path, qf, body, bf } => vec![Expect { notify: *notify, qf: *qf, bf: *bf, query: path.as_bytes().to_vec(), body: body.clone().unwrap_or_default(), exact: None }],
        Op::Json { notify, path, value } => vec![Expect { notify: *notify, qf: 1, bf: 2, query: path.as_bytes().to_vec(), body: serde_json::to_vec(value).unwrap(), exact: None }],
        // call_message sends an empty body; the builder leaves the body format at its raw-binary default
        Op::Message { path } => vec![Expect { notify: false, qf: 1, bf: 0, query: path.as_bytes().to_vec(), body: vec![], exact: None }],
        Op::Batch { paths } => paths.iter().enumerate().map(|(i, p)| Expect { notify: false, qf: 1, bf: 2, query: p.as_bytes().to_vec(), body: serde_json::to_vec(&json!({"i": i})).unwrap(), exact: None }).collect(),
        Op::Forward { frame, .. } => vec![Expect { notify: frame.h.notify == 1, qf: frame.h.query_format, bf: frame.h.body_format, query: frame.query.clone(), body: frame.body.clone(), exact: Some(frame.clone()) }],
        Op::Api { api, path, value } => {
            let q = path.as_bytes().to_vec();
            let e = |notify: bool, bf: u16, body: Vec<u8>| Expect { notify, qf: 1, bf, query: q.clone(), body, exact: None };
            let floats = || -> Vec<f64> { value.as_array().map(|a| a.iter().filter_map(|x| x.as_f64()).collect()).unwrap_or_default() };
            match *api {
                // the documented form of each twin: plain ⇒ `body_typed_slice`, aligned ⇒ `body_aligned_typed_slice` (padding sized
                // for the payload's offset 48 + |query|); the BEVE payload itself is C08's, the frame around it is C01's
                "call_typed_slice" | "call_typed_slice_with_timeout" => vec![e(false, 1, repe::Message::builder().query_str(path).body_typed_slice(&floats()).build().body)],
                "call_typed_slice_aligned" | "call_typed_slice_aligned_with_timeout" => vec![e(false, 1, repe::Message::builder().query_str(path).body_aligned_typed_slice(&floats()).build().body)],
                "call_typed_beve" | "call_typed_beve_with_timeout" => vec![e(false, 1, beve::to_vec(value).unwrap())],
                "notify_typed_beve" => vec![e(true, 1, beve::to_vec(value).unwrap())],
                "notify_typed_json" => vec![e(true, 2, serde_json::to_vec(value).unwrap())],
                "call_message_with_timeout" | "registry_read" | "registry_read_typed" | "registry_read_with_timeout" | "registry_read_typed_with_timeout" => vec![e(false, 0, vec![])],
                "call_with_formats_and_timeout" => vec![Expect { notify: false, qf: 65534, bf: 4095, query: q.clone(), body: serde_json::to_vec(value).unwrap(), exact: None }],
                "batch_json_with_timeout" => (0..3).map(|i| Expect { notify: false, qf: 1, bf: 2, query: format!("{}/{}", path, i).into_bytes(), body: serde_json::to_vec(&json!({"i": i})).unwrap(), exact: None }).collect(),
                _ => vec![e(false, 2, serde_json::to_vec(value).unwrap())],
            }
        }
    }
}

/// One entry point by name on any of the three clients (`$aw` is `.await` for the async ones).
macro_rules! run_api {
    ($c:expr, $api:expr, $path:expr, $value:expr, [$($aw:tt)*]) => {{
        let c = $c;
        let t = Duration::from_secs(8);
        let (path, value): (&String, &Value) = ($path, $value);
        let r: Result<(), repe::RepeError> = match $api {
            "call_json_with_timeout" => c.call_json_with_timeout(path, value, t)$($aw)*.map(|_| ()),
            "noreply" => c.call_json_with_timeout(path, value, Duration::from_millis(80))$($aw)*.map(|_| ()),
            "call_typed_json" => { let r: Result<Value, _> = c.call_typed_json(path, value)$($aw)*; r.map(|_| ()) }
            "call_typed_json_with_timeout" => { let r: Result<Value, _> = c.call_typed_json_with_timeout(path, value, t)$($aw)*; r.map(|_| ()) }
            "call_typed_beve" => { let r: Result<Value, _> = c.call_typed_beve(path, value)$($aw)*; r.map(|_| ()) }
            "call_typed_beve_with_timeout" => { let r: Result<Value, _> = c.call_typed_beve_with_timeout(path, value, t)$($aw)*; r.map(|_| ()) }
            "call_message_with_timeout" => c.call_message_with_timeout(path, t)$($aw)*.map(|_| ()),
            "call_with_formats_and_timeout" => { let b = serde_json::to_vec(value).unwrap(); c.call_with_formats_and_timeout(path, 65534, Some(&b[..]), 4095, t)$($aw)*.map(|_| ()) }
            "notify_typed_json" => c.notify_typed_json(path, value)$($aw)*,
            "notify_typed_beve" => c.notify_typed_beve(path, value)$($aw)*,
            "registry_read" => c.registry_read(path)$($aw)*.map(|_| ()),
            "registry_read_typed" => { let r: Result<Value, _> = c.registry_read_typed(path)$($aw)*; r.map(|_| ()) }
            "registry_read_with_timeout" => c.registry_read_with_timeout(path, t)$($aw)*.map(|_| ()),
            "registry_read_typed_with_timeout" => { let r: Result<Value, _> = c.registry_read_typed_with_timeout(path, t)$($aw)*; r.map(|_| ()) }
            "registry_write_json" => c.registry_write_json(path, value)$($aw)*.map(|_| ()),
            "registry_call_json" => c.registry_call_json(path, value)$($aw)*.map(|_| ()),
            "batch_json_with_timeout" => {
                let reqs: Vec<(String, Value)> = (0..3).map(|i| (format!("{}/{}", path, i), json!({"i": i}))).collect();
                let rs = c.batch_json_with_timeout(reqs, t)$($aw)*;
                if rs.iter().all(|r| r.is_ok()) { Ok(()) } else { Err(repe::RepeError::UnknownEnumValue(0)) }
            }
            other => panic!("unknown api {}", other),
        };
        r.map_err(|e| err_class(&e))
    }};
}

/// Second audit pass: runs of N identical requests (g), frames whose total size sits at the 8 KiB BufWriter capacity and its
/// multiples (h), a peer that stops reading right before a multi-MiB frame (l).
fn add_audit2_ops(r: &mut Rng, ops: &mut Vec<Op>, thorough: bool) {
    let runs: &[usize] = if thorough { &[1, 2, 7, 8, 9, 16, 17, 64, 65, 256, 1000] } else { &[2, 8, 9, 17] };
    for &n in runs {
        let op = Op::Json { notify: r.chance(1, 2), path: "/run".to_string(), value: json!({"n": n}) };
        let at = r.below(ops.len() as u64 + 1) as usize;
        for _ in 0..n { ops.insert(at, op.clone()); }
    }
    let totals: &[usize] = if thorough { &[8191, 8192, 8193, 8240, 16383, 16384, 16385, 65535, 65536, 65537] } else { &[8191, 8192, 8193, 16384] };
    for &t in totals {
        let path = "/sized".to_string();
        let at = r.below(ops.len() as u64 + 1) as usize;
        ops.insert(at, Op::Formats { notify: r.chance(1, 3), path: path.clone(), qf: 1, body: Some(r.bytes(t - 48 - path.len())), bf: 0 });
    }
    for _ in 0..(if thorough { 3 } else { 1 }) {
        let at = r.below(ops.len() as u64 + 1) as usize;
        let big = r.bytes(if thorough { 4 << 20 } else { 2 << 20 });
        ops.insert(at, Op::Formats { notify: false, path: "/big".to_string(), qf: 1, body: Some(big), bf: 0 });
        ops.insert(at, Op::Json { notify: false, path: "/__slow".to_string(), value: Value::Null });
    }
}

fn main() {
    let args = Args::parse();
    quiet_panics();
    let mut out = Out::new(&args.out);
    out.rule = "calls and notifies (custom format codes, JSON helpers, empty-body call_message, batches, every `_with_timeout` twin, typed JSON/BEVE helpers, registry helpers, forward_message of arbitrary consistent messages, calls the peer never answers followed by more calls on the same client) with paths incl. empty, escapes, non-ASCII, long; bodies 0..70 KB; issued through the real blocking Client, AsyncClient and WebSocketClient to a recording peer; the captured raw frame is compared with the builder frame for the id the client chose. Distinct by op line; non-trivial = every captured frame".into();
    out.config("mode checks");
    // class l: odd seeds run the async clients (and the recording WebSocket peer) on one worker + one blocking thread
    let lean_runtime = args.seed % 2 == 1;
    out.extra.insert("lean_runtime".into(), json!(lean_runtime));
    let rt = if lean_runtime {
        tokio::runtime::Builder::new_multi_thread().worker_threads(1).max_blocking_threads(1).enable_all().build().unwrap()
    } else {
        tokio::runtime::Builder::new_multi_thread().worker_threads(3).enable_all().build().unwrap()
    };
    if std::env::args().any(|a| a == "--check-entry-points") {
        let missing = entry_point_audit(&mut out);
        println!("client entry points not driven by the emit family: {:?}", missing);
        std::process::exit(if missing.is_empty() { 0 } else { 1 });
    }
    let missing = entry_point_audit(&mut out);
    if !missing.is_empty() {
        eprintln!("emit: public client entry points NOT DRIVEN (add them to APIS / SLICE_APIS / NO_REQUEST): {:?}", missing);
    }
    // (o) a call into a client that never returns must not hang the check: no op of this family waits longer than 10 s itself
    {
        let dir = args.out.clone();
        std::thread::spawn(move || {
            let mut last = (0u64, std::time::Instant::now());
            loop {
                std::thread::sleep(Duration::from_millis(500));
                let hb = HEARTBEAT.load(std::sync::atomic::Ordering::Relaxed);
                if hb != last.0 { last = (hb, std::time::Instant::now()); continue; }
                if hb > 0 && last.1.elapsed() > Duration::from_secs(45) {
                    let op = CURRENT_OP.lock().map(|g| g.clone()).unwrap_or_default();
                    let v = json!({"sig": "emit.call_never_returned", "detail": format!("a client entry point did not return within 45 s: {}", op), "ops": [format!("# {}", op)]});
                    if let Ok(mut f) = std::fs::OpenOptions::new().append(true).create(true).open(dir.join("oracle.txt")) { let _ = writeln!(f, "{}", v); }
                    let _ = std::fs::write(dir.join("stats.json"), json!({"evaluations": hb, "distinct_nontrivial": 0, "distinct": 0, "oracle_failures": 1,
                        "rule": "stopped by the harness watchdog: a call never returned", "distribution": {}, "samples": [], "extra": {}}).to_string());
                    std::process::exit(3);
                }
            }
        });
    }
    let mut rng = Rng::new(args.seed);
    let n_ops = if args.thorough() { 1500 } else { 160 };
    let mut idx = 0usize;
    let wait = Duration::from_secs(10);
    for client_kind in ["blocking", "async", "ws"] {
        let mut ops = gen_ops(&mut rng, n_ops, client_kind);
        add_audit2_ops(&mut rng, &mut ops, args.thorough());
        let (addr, rx) = if client_kind == "ws" { ws_peer(&rt) } else { tcp_peer() };
        // issue every op; collect captured frames afterwards in order of arrival per op
        let blocking = if client_kind == "blocking" { Some(Client::connect(addr).expect("connect")) } else { None };
        let asyncc = if client_kind == "async" { Some(rt.block_on(AsyncClient::connect(addr)).expect("connect")) } else { None };
        let wsc = if client_kind == "ws" { Some(rt.block_on(repe::websocket_client::WebSocketClient::connect(&format!("ws://{}/", addr))).expect("ws connect")) } else { None };
        for (op_no, op) in ops.iter().enumerate() {
            if out.oracle_failures > 12 {
                break;
            }
            // class k: the blocking client's write-timeout knob, set for the middle half of the run
            if let Some(c) = blocking.as_ref() {
                if op_no == ops.len() / 4 { let _ = c.set_write_timeout(Some(Duration::from_secs(5))); out.count("emit.blocking.write_timeout_set"); }
                if op_no == 3 * ops.len() / 4 { let _ = c.set_write_timeout(None); }
            }
            HEARTBEAT.fetch_add(1, std::sync::atomic::Ordering::Relaxed);
            if let Ok(mut g) = CURRENT_OP.lock() { *g = format!("{} {:?}", client_kind, op).chars().take(300).collect(); }
            let exp = expectations(op);
            out.count(&format!("emit.entry.{}.{}", client_kind, match op {
                Op::Formats { notify: true, .. } => "notify_with_formats", Op::Formats { .. } => "call_with_formats",
                Op::Json { notify: true, .. } => "notify_json", Op::Json { .. } => "call_json", Op::Message { .. } => "call_message",
                Op::Batch { .. } => "batch_json", Op::Api { api, .. } => api, Op::Forward { with_timeout: true, .. } => "forward_message_with_timeout",
                Op::Forward { .. } => "forward_message" }));
            let res: Result<(), String> = (|| {
                match (op, client_kind) {
                    (Op::Formats { notify, path, qf, body, bf }, "blocking") => {
                        let c = blocking.as_ref().unwrap();
                        if *notify { c.notify_with_formats(path, *qf, body.as_deref(), *bf).map_err(|e| err_class(&e)) } else { c.call_with_formats(path, *qf, body.as_deref(), *bf).map(|_| ()).map_err(|e| err_class(&e)) }
                    }
                    (Op::Formats { notify, path, qf, body, bf }, "async") => {
                        let c = asyncc.as_ref().unwrap();
                        rt.block_on(async { if *notify { c.notify_with_formats(path, *qf, body.as_deref(), *bf).await.map_err(|e| err_class(&e)) } else { c.call_with_formats(path, *qf, body.as_deref(), *bf).await.map(|_| ()).map_err(|e| err_class(&e)) } })
                    }
                    (Op::Formats { notify, path, qf, body, bf }, _) => {
                        let c = wsc.as_ref().unwrap();
                        rt.block_on(async { if *notify { c.notify_with_formats(path, *qf, body.as_deref(), *bf).await.map_err(|e| err_class(&e)) } else { c.call_with_formats(path, *qf, body.as_deref(), *bf).await.map(|_| ()).map_err(|e| err_class(&e)) } })
                    }
                    (Op::Json { notify, path, value }, "blocking") => {
                        let c = blocking.as_ref().unwrap();
                        if *notify { c.notify_json(path, value).map_err(|e| err_class(&e)) } else { c.call_json(path, value).map(|_| ()).map_err(|e| err_class(&e)) }
                    }
                    (Op::Json { notify, path, value }, "async") => {
                        let c = asyncc.as_ref().unwrap();
                        rt.block_on(async { if *notify { c.notify_json(path, value).await.map_err(|e| err_class(&e)) } else { c.call_json(path, value).await.map(|_| ()).map_err(|e| err_class(&e)) } })
                    }
                    (Op::Json { notify, path, value }, _) => {
                        let c = wsc.as_ref().unwrap();
                        rt.block_on(async { if *notify { c.notify_json(path, value).await.map_err(|e| err_class(&e)) } else { c.call_json(path, value).await.map(|_| ()).map_err(|e| err_class(&e)) } })
                    }
                    (Op::Message { path }, "blocking") => blocking.as_ref().unwrap().call_message(path).map(|_| ()).map_err(|e| err_class(&e)),
                    (Op::Message { path }, "async") => rt.block_on(asyncc.as_ref().unwrap().call_message(path)).map(|_| ()).map_err(|e| err_class(&e)),
                    (Op::Message { path }, _) => rt.block_on(wsc.as_ref().unwrap().call_message(path)).map(|_| ()).map_err(|e| err_class(&e)),
                    (Op::Api { api, path, value }, kind) if SLICE_APIS.contains(api) => {
                        let xs: Vec<f64> = value.as_array().map(|a| a.iter().filter_map(|x| x.as_f64()).collect()).unwrap_or_default();
                        let t = Duration::from_secs(8);
                        let r: Result<Vec<f64>, repe::RepeError> = if kind == "blocking" {
                            let c = blocking.as_ref().unwrap();
                            match *api {
                                "call_typed_slice" => c.call_typed_slice(path, &xs),
                                "call_typed_slice_with_timeout" => c.call_typed_slice_with_timeout(path, &xs, t),
                                "call_typed_slice_aligned" => c.call_typed_slice_aligned(path, &xs),
                                _ => c.call_typed_slice_aligned_with_timeout(path, &xs, t),
                            }
                        } else {
                            let c = asyncc.as_ref().expect("slice entry points are generated for the TCP clients only");
                            rt.block_on(async {
                                match *api {
                                    "call_typed_slice" => c.call_typed_slice(path, &xs).await,
                                    "call_typed_slice_with_timeout" => c.call_typed_slice_with_timeout(path, &xs, t).await,
                                    "call_typed_slice_aligned" => c.call_typed_slice_aligned(path, &xs).await,
                                    _ => c.call_typed_slice_aligned_with_timeout(path, &xs, t).await,
                                }
                            })
                        };
                        r.map(|_| ()).map_err(|e| err_class(&e))
                    }
                    (Op::Api { api, path, value }, "blocking") => run_api!(blocking.as_ref().unwrap(), *api, path, value, []),
                    (Op::Api { api, path, value }, "async") => rt.block_on(async { run_api!(asyncc.as_ref().unwrap(), *api, path, value, [.await]) }),
                    (Op::Api { api, path, value }, _) => rt.block_on(async { run_api!(wsc.as_ref().unwrap(), *api, path, value, [.await]) }),
                    (Op::Forward { frame, with_timeout }, _) => {
                        let c = asyncc.as_ref().expect("forward ops are generated for the async client only");
                        let m = repe::Message { header: frame.h.to_repe(), query: frame.query.clone(), body: frame.body.clone() };
                        rt.block_on(async {
                            if *with_timeout { c.forward_message_with_timeout(&m, Duration::from_secs(8)).await } else { c.forward_message(&m).await }
                        }).map(|_| ()).map_err(|e| err_class(&e))
                    }
                    (Op::Batch { paths }, kind) => {
                        let reqs: Vec<(String, Value)> = paths.iter().enumerate().map(|(i, p)| (p.clone(), json!({"i": i}))).collect();
                        let rs = match kind {
                            "blocking" => blocking.as_ref().unwrap().batch_json(reqs),
                            "async" => rt.block_on(asyncc.as_ref().unwrap().batch_json(reqs)),
                            _ => rt.block_on(wsc.as_ref().unwrap().batch_json(reqs)),
                        };
                        if rs.iter().all(|r| r.is_ok()) { Ok(()) } else { Err("batch-error".into()) }
                    }
                }
            })();
            // collect exactly as many frames as the op sends
            let mut frames = Vec::new();
            for _ in 0..exp.len() {
                match rx.recv_timeout(wait) {
                    Ok(f) => frames.push(f),
                    Err(_) => break,
                }
            }
            // batches may arrive in any order: match by query
            for e in &exp {
                idx += 1;
                let pos = frames.iter().position(|f| RawFrame::parse_prefix(f).map(|(p, _)| p.query == e.query && (p.body == e.body)).unwrap_or(false)).or(if frames.is_empty() { None } else { Some(0) });
                let id_tag = format!("{}.{}", client_kind, idx);
                match pos {
                    None => {
                        let opl = format!("build {} 0 {} 0 {} {} {} {}", id_tag, e.notify as u8, e.qf, e.bf, hex(&e.query), hex(&e.body));
                        out.oracle_fail(&format!("emit.{}.nothing_sent", client_kind), &format!("no frame reached the peer (call result {:?})", res), &[opl.clone()]);
                        out.case(&opl, &format!("{} nothing", id_tag), false);
                    }
                    Some(p) => {
                        let raw = frames.remove(p);
                        let id = RawHeader::parse(&raw).map(|h| h.id).unwrap_or(0);
                        let opl = match &e.exact {
                            // an arbitrary caller-built message: the model's `msg` op predicts its frame from all eleven fields
                            Some(x) => format!("msg {} {} {} {} 0", id_tag, x.h.fields(), hex(&x.query), hex(&x.body)),
                            None => format!("build {} {} {} 0 {} {} {} {}", id_tag, id, e.notify as u8, e.qf, e.bf, hex(&e.query), hex(&e.body)),
                        };
                        let want = if let Some(x) = &e.exact { x.to_vec() } else { RawFrame { h: RawHeader { length: 48 + e.query.len() as u64 + e.body.len() as u64, spec: 0x1507, version: 1, notify: e.notify as u8, reserved: 0, id, query_length: e.query.len() as u64, body_length: e.body.len() as u64, query_format: e.qf, body_format: e.bf, ec: 0 }, query: e.query.clone(), body: e.body.clone() }.to_vec() };
                        if raw != want {
                            out.oracle_fail(&format!("emit.{}.frame_differs", client_kind), "the frame on the wire is not the canonical frame of the requested message", &[opl.clone()]);
                        }
                        out.count(&format!("emit.{}.{}", client_kind, if e.notify { "notify" } else { "call" }));
                        if e.exact.is_some() {
                            out.case(&opl, &format!("{} {} = = = = {}", id_tag, hex(&raw), hex(&raw)), true);
                        } else {
                            out.case(&opl, &format!("{} {}", id_tag, hex(&raw)), true);
                        }
                    }
                }
            }
            if let Err(e) = &res {
                out.count(&format!("emit.{}.call_error.{}", client_kind, e));
            }
        }
    }
    out.finish();
    std::process::exit(0);
}
