//! Family `offreader` (C16): event scripts against a real `WebSocketServer` with a per-connection
//! off-reader cap.  Blocking routes (all four `_blocking` registrars, with and without router
//! middleware) park on per-request gates and keep an atomic gauge; the harness plays `arrive` / `exit`
//! events over one raw WebSocket connection per script and advances only on observable effects
//! (handler-entered / handler-exited signals, the saturation report, a received response).
use futures_util::{SinkExt, StreamExt};
use repe::constants::ErrorCode;
use repe::server::{Middleware, Next};
use repe::websocket_server::{ConnectionError, WebSocketServer};
use repe::{CallContext, Message, RepeError, Router};
use repe_verif_harness::frames::RawFrame;
use repe_verif_harness::*;
use serde::{Deserialize, Serialize};
use serde_json::{json, Value};
use std::collections::{BTreeMap, BTreeSet, HashMap};
use std::net::SocketAddr;
use std::sync::atomic::{AtomicI64, AtomicU64, Ordering};
use std::sync::{Arc, Mutex};
use std::time::{Duration, Instant};
use tokio::net::{TcpListener, TcpStream};
use tokio::sync::mpsc::{unbounded_channel, UnboundedReceiver, UnboundedSender};
use tokio_tungstenite::tungstenite::Message as WsMsg;
use std::future::Future;
use tokio_tungstenite::WebSocketStream;

const WATCHDOG: Duration = Duration::from_secs(30);
/// how long a slot may take to become free again after its handler was seen to exit
const SLOT_GRACE: Duration = Duration::from_secs(12);
const RESOURCE_EXHAUSTED: u32 = 8; // REPE v1, from the specification
const INTERNAL_ERROR: u32 = 9;

#[derive(Clone, Copy, Debug, PartialEq)]
enum Cmd {
    Ret,
    Err(u32),
    /// panic, with the kind of payload the unwinding carries (see `panic_with`)
    Panic(u8),
}

const PANIC_KINDS: u8 = 7;

/// Panic the way real handlers do: the payload is a `&'static str` only for a literal `panic!`.
fn panic_with(kind: u8, key: u64) -> ! {
    use std::hint::black_box;
    match kind {
        0 => panic!("gate says panic"),                                   // &'static str
        1 => panic!("gate says panic for request {}", black_box(key)),     // String
        2 => {
            let v: Option<u8> = black_box(None);
            let _ = v.unwrap();                                            // String (core message)
            unreachable!()
        }
        3 => {
            let r: Result<(), &str> = black_box(Err("e"));
            r.expect("x");                                                 // String
            unreachable!()
        }
        4 => {
            let v: Vec<u8> = black_box(vec![1, 2, 3]);
            let i = black_box(key as usize % 4 + 3);
            let _ = black_box(v[i]);                                       // String (index out of bounds)
            unreachable!()
        }
        5 => std::panic::panic_any(17u32),                                 // neither &str nor String
        _ => {
            assert_eq!(black_box(1), black_box(2));                        // String
            unreachable!()
        }
    }
}

#[derive(Debug)]
enum SrvEvent {
    Entered(u64),
    Exited(u64),
    Saturation,
    Panic,
    /// a frame that is not an observation (control frame, a handler's own push)
    Nothing,
}

struct Shared {
    gauge: AtomicI64,
    max_gauge: AtomicI64,
    gates: Mutex<HashMap<u64, std::sync::mpsc::Sender<Cmd>>>,
    events: Mutex<Option<UnboundedSender<SrvEvent>>>,
    mw_calls: AtomicU64,
    /// armed by a `hook` step: what the `on_error` hook does when the next Saturation is reported
    /// (it runs on the reader, between "no slot free" and the rest of the refusal)
    hook_plan: Mutex<Option<Vec<(u64, Cmd)>>>,
    serve_mode: AtomicU64,
    /// notifications the ctx handlers pushed to their own peer on entry (re-entering the API from a handler)
    self_pushes: AtomicU64,
}

impl Shared {
    fn emit(&self, e: SrvEvent) {
        if let Some(tx) = self.events.lock().unwrap().as_ref() {
            let _ = tx.send(e);
        }
    }
}

struct Guard(Arc<Shared>, u64);
impl Drop for Guard {
    fn drop(&mut self) {
        self.0.gauge.fetch_sub(1, Ordering::SeqCst);
        self.0.emit(SrvEvent::Exited(self.1));
    }
}

fn code_of(c: u32) -> ErrorCode {
    ErrorCode::try_from(c).unwrap_or(ErrorCode::InvalidBody)
}

/// Body of every blocking handler: enter, park on the gate, end as told.
fn hold(sh: &Arc<Shared>, key: u64) -> Result<Value, (ErrorCode, String)> {
    let (tx, rx) = std::sync::mpsc::channel::<Cmd>();
    sh.gates.lock().unwrap().insert(key, tx);
    let g = sh.gauge.fetch_add(1, Ordering::SeqCst) + 1;
    sh.max_gauge.fetch_max(g, Ordering::SeqCst);
    let _guard = Guard(sh.clone(), key);
    sh.emit(SrvEvent::Entered(key));
    match rx.recv_timeout(Duration::from_secs(120)) {
        Ok(Cmd::Ret) => Ok(json!({ "done": key })),
        Ok(Cmd::Err(c)) => Err((code_of(c), "gate says fail".into())),
        Ok(Cmd::Panic(kind)) => panic_with(kind, key),
        Err(_) => Err((ErrorCode::Timeout, "gate never opened".into())),
    }
}

#[derive(Serialize, Deserialize)]
struct KIn {
    k: u64,
}

struct PassMw(Arc<Shared>);
impl Middleware for PassMw {
    fn handle(&self, req: &Message, next: Next<'_>) -> Result<Message, RepeError> {
        self.0.mw_calls.fetch_add(1, Ordering::SeqCst);
        next.run(req)
    }
}

const BLOCKING_ROUTES: [&str; 5] = ["/hold", "/hold_ctx", "/hold_typed", "/hold_tctx", "/hold_erased"];

/// Further blocking routes that differ only in their NAME: 2 bytes, 63 / 64 / 65 bytes of ASCII, and
/// non-ASCII names ("/" + k x "é", two bytes per character at odd offsets) in which byte 16 / 32 / 64 /
/// 128 / 256 / 1024 falls inside a character; one name over 1 KiB.  Registered in turn through the four
/// `_blocking` registrars and the erased off-reader handler.
fn named_routes() -> Vec<String> {
    let e = |k: usize| format!("/{}", "é".repeat(k));
    vec!["/h".to_string(), format!("/{}", "a".repeat(62)), format!("/{}", "a".repeat(63)), format!("/{}", "a".repeat(64)),
         e(10), e(20), e(40), e(70), e(140), e(600), format!("/é/{}/ß", "日本".repeat(11))]
}

/// The route a blocking request with this id goes to (all routes, scrambled by the id).
fn route_for(id: u64) -> String {
    let named = named_routes();
    let k = (fnv(&(id ^ 0x5bd1e995).to_le_bytes()) % (BLOCKING_ROUTES.len() + named.len()) as u64) as usize;
    if k < BLOCKING_ROUTES.len() { BLOCKING_ROUTES[k].to_string() } else { named[k - BLOCKING_ROUTES.len()].clone() }
}

/// A hand-written `HandlerErased` that asks for off-reader execution itself (no `_blocking` registrar).
struct ErasedHold(Arc<Shared>);
impl repe::server::HandlerErased for ErasedHold {
    fn handle(&self, req: &Message) -> Result<Message, RepeError> {
        let v: Value = serde_json::from_slice(&req.body).map_err(RepeError::from)?;
        match hold(&self.0, v["k"].as_u64().unwrap_or(0)) {
            Ok(v) => Ok(Message::builder().id(req.header.id).query_format_code(req.header.query_format).body_json(&v)?.build()),
            Err((code, message)) => Err(RepeError::ServerError { code, message }),
        }
    }
    fn execution(&self) -> repe::Execution {
        repe::Execution::OffReader
    }
}

fn make_router(sh: &Arc<Shared>, mw: bool) -> Router {
    let (a, b, c, d) = (sh.clone(), sh.clone(), sh.clone(), sh.clone());
    let r = Router::new()
        .with_json_blocking("/hold", move |v: Value| hold(&a, v["k"].as_u64().unwrap_or(0)))
        .with_json_ctx_blocking("/hold_ctx", move |ctx: &CallContext, v: Value| {
            // the handler calls back into its own connection before it parks
            if let Some(p) = ctx.peer() {
                if p.send_notify("/evt", repe::NotifyBody::Json(b"1".to_vec())).is_ok() {
                    b.self_pushes.fetch_add(1, Ordering::SeqCst);
                }
            }
            hold(&b, v["k"].as_u64().unwrap_or(0))
        })
        .with_typed_blocking::<KIn, Value, _>("/hold_typed", move |i: KIn| -> Result<Value, (ErrorCode, String)> { hold(&c, i.k) })
        .with_typed_ctx_blocking::<KIn, Value, _>("/hold_tctx", move |_ctx: &CallContext, i: KIn| -> Result<Value, (ErrorCode, String)> { hold(&d, i.k) })
        .with_erased_handler("/hold_erased", Arc::new(ErasedHold(sh.clone())))
        .with_json("/ping", |_v| Ok(json!("pong")))
        .with_json("/big", |v: Value| Ok(json!("x".repeat(v["n"].as_u64().unwrap_or(0) as usize))))
        .with_json("/fail", |v: Value| Err((code_of(v["c"].as_u64().unwrap_or(4) as u32), "asked to fail".into())));
    let mut r = r;
    for (i, name) in named_routes().into_iter().enumerate() {
        let h = sh.clone();
        r = match i % 5 {
            0 => r.with_json_blocking(&name, move |v: Value| hold(&h, v["k"].as_u64().unwrap_or(0))),
            1 => r.with_json_ctx_blocking(&name, move |_ctx: &CallContext, v: Value| hold(&h, v["k"].as_u64().unwrap_or(0))),
            2 => r.with_typed_blocking::<KIn, Value, _>(&name, move |i: KIn| -> Result<Value, (ErrorCode, String)> { hold(&h, i.k) }),
            3 => r.with_typed_ctx_blocking::<KIn, Value, _>(&name, move |_ctx: &CallContext, i: KIn| -> Result<Value, (ErrorCode, String)> { hold(&h, i.k) }),
            _ => r.with_erased_handler(&name, Arc::new(ErasedHold(h))),
        };
    }
    if mw {
        r.with_middleware(PassMw(sh.clone()))
    } else {
        r
    }
}

struct Srv {
    addr: SocketAddr,
    sh: Arc<Shared>,
}

fn build_server(cap: Option<usize>, mw: bool, ocap: Option<usize>, dflt: bool) -> (WebSocketServer, Arc<Shared>) {
    let sh = Arc::new(Shared { gauge: AtomicI64::new(0), max_gauge: AtomicI64::new(0), gates: Mutex::new(HashMap::new()), events: Mutex::new(None), mw_calls: AtomicU64::new(0), hook_plan: Mutex::new(None), serve_mode: AtomicU64::new(0), self_pushes: AtomicU64::new(0) });
    let sh2 = sh.clone();
    let mut server = WebSocketServer::new(make_router(&sh, mw));
    if !dflt {
        // `dflt`: leave the cap as `WebSocketServer::new` set it
        server = server.with_offreader_limit(cap.unwrap_or(0));
    }
    let mut server = server.on_error(move |e| match e {
        ConnectionError::Saturation { .. } => {
            let plan = sh2.hook_plan.lock().unwrap().take();
            if let Some(plan) = plan {
                // release parked handlers from inside the refusal and wait until they have left
                let target = sh2.gauge.load(Ordering::SeqCst) - plan.len() as i64;
                for (id, cmd) in plan {
                    let gate = sh2.gates.lock().unwrap().remove(&id);
                    if let Some(g) = gate {
                        let _ = g.send(cmd);
                    }
                }
                let t0 = Instant::now();
                while sh2.gauge.load(Ordering::SeqCst) > target && t0.elapsed() < Duration::from_secs(10) {
                    std::thread::sleep(Duration::from_millis(1));
                }
                // the handlers have returned; give their blocking closures time to run to the end
                std::thread::sleep(Duration::from_millis(40));
            }
            sh2.emit(SrvEvent::Saturation)
        }
        ConnectionError::HandlerPanic { .. } => sh2.emit(SrvEvent::Panic),
        _ => {}
    });
    if let Some(o) = ocap {
        server = server.with_outbound_capacity(o);
    }
    (server, sh)
}

/// `ocap = None`: default outbound queue, served on the harness's multi-thread runtime.
/// `ocap = Some(n)`: outbound queue of `n`, served on a current-thread runtime of its own, so the
/// connection's reader and writer tasks interleave only at their await points (pressure scenario).
async fn start_server(cap: Option<usize>, mw: bool, ocap: Option<usize>, dflt: bool) -> Srv {
    if ocap.is_none() {
        let (server, sh) = build_server(cap, mw, None, dflt);
        let l = TcpListener::bind("127.0.0.1:0").await.unwrap();
        let addr = l.local_addr().unwrap();
        // every public way of serving reaches the same per-connection code: pick one per server
        let mode = (cap.unwrap_or(0) + 2 * mw as usize + 5 * dflt as usize) % 5;
        sh.serve_mode.store(mode as u64, Ordering::SeqCst);
        tokio::spawn(async move {
            match mode {
                0 => {
                    let _ = server.serve_listener(l, "/repe").await;
                }
                1 => {
                    let _ = server.serve_listener_with_shutdown(l, "repe/", std::future::pending::<()>()).await;
                }
                2 => {
                    let _ = server.serve_listener_with_graceful_drain(l, "/repe", std::future::pending::<()>(), Duration::from_secs(5)).await;
                }
                _ => {
                    // an embedder-owned accept loop
                    let shared = server.into_shared();
                    let token = repe::websocket_server::ShutdownToken::new();
                    loop {
                        let Ok((stream, _)) = l.accept().await else { break };
                        let (shared, token) = (shared.clone(), token.clone());
                        tokio::spawn(async move {
                            if mode == 3 {
                                if let Ok(ws) = shared.accept(stream, "/repe").await {
                                    let _ = shared.serve_connection(ws).await;
                                }
                            } else if let Ok((ws, hs)) = shared.accept_with_handshake(stream, "/repe").await {
                                let _ = hs;
                                let _ = shared.serve_connection_with_cancel(ws, &token).await;
                            }
                        });
                    }
                }
            }
        });
        return Srv { addr, sh };
    }
    let (tx, rx) = tokio::sync::oneshot::channel();
    std::thread::spawn(move || {
        let pool = ocap.filter(|o| *o >= POOL_BASE).map(|o| o - POOL_BASE);
        let ocap = ocap.filter(|o| *o < POOL_BASE);
        let rt = tokio::runtime::Builder::new_current_thread().enable_all().max_blocking_threads(pool.unwrap_or(64)).build().unwrap();
        rt.block_on(async move {
            let (server, sh) = build_server(cap, mw, ocap, dflt);
            let l = TcpListener::bind("127.0.0.1:0").await.unwrap();
            let _ = tx.send((l.local_addr().unwrap(), sh));
            let _ = server.serve_listener(l, "/repe").await;
        });
    });
    let (addr, sh) = rx.await.expect("pressure server started");
    Srv { addr, sh }
}

// ------------------------------------------------------------------------------------------------
// a TCP stream whose writes reach the peer in small pieces (and, optionally, with stalls)
// ------------------------------------------------------------------------------------------------
/// `mode 0`: pass through. `1`: every write is cut into 1-byte pieces. `2`: 2–3 pieces per write at
/// PRNG-chosen cut points. `3`: pieces of up to 1460 bytes. `+4`: stalls (1–3 ms, now and then 120 ms)
/// between pieces; with `1+4` the first 16 and last 8 bytes of a buffer go byte by byte, the rest in 1–3 pieces. Each piece is its own `write` on a no-delay socket.
struct ChopStream {
    inner: TcpStream,
    mode: u8,
    rng: Rng,
    sleep: Option<std::pin::Pin<Box<tokio::time::Sleep>>>,
    /// bytes of the current write that may still go out before the next cut
    budget: usize,
    /// position inside the buffer tungstenite is flushing, and what was left of it after the last write
    pos: usize,
    last_remaining: usize,
    /// `+8`: stalls longer than any plausible internal timer, each once, in the middle of a frame
    long_stalls: Vec<u64>,
}

static THOROUGH: std::sync::atomic::AtomicBool = std::sync::atomic::AtomicBool::new(false);

impl ChopStream {
    fn new(inner: TcpStream, mode: u8, seed: u64) -> ChopStream {
        let _ = inner.set_nodelay(true);
        ChopStream { inner, mode, rng: Rng::new(seed), sleep: None, budget: 0, pos: 0, last_remaining: 0, long_stalls: if THOROUGH.load(std::sync::atomic::Ordering::Relaxed) { vec![11_000, 5_500, 2_500] } else { vec![1_100, 600, 300] } }
    }
}

impl tokio::io::AsyncRead for ChopStream {
    fn poll_read(mut self: std::pin::Pin<&mut Self>, cx: &mut std::task::Context<'_>, buf: &mut tokio::io::ReadBuf<'_>) -> std::task::Poll<std::io::Result<()>> {
        std::pin::Pin::new(&mut self.inner).poll_read(cx, buf)
    }
}

impl tokio::io::AsyncWrite for ChopStream {
    fn poll_write(mut self: std::pin::Pin<&mut Self>, cx: &mut std::task::Context<'_>, buf: &[u8]) -> std::task::Poll<std::io::Result<usize>> {
        use std::task::Poll;
        let this = &mut *self;
        if this.mode & 11 == 0 || buf.is_empty() {
            return std::pin::Pin::new(&mut this.inner).poll_write(cx, buf);
        }
        if let Some(s) = this.sleep.as_mut() {
            if s.as_mut().poll(cx).is_pending() {
                return Poll::Pending;
            }
            this.sleep = None;
        }
        if buf.len() > this.last_remaining {
            this.pos = 0; // a new buffer is being flushed
        }
        if this.budget == 0 {
            this.budget = match if this.mode & 3 == 0 { 2 } else { this.mode & 3 } {
                // with stalls: byte by byte through the first and the last 64 bytes, the middle in bulk
                1 if this.mode & 4 != 0 && this.pos >= 16 && buf.len() > 8 => ((buf.len() - 8) / (1 + this.rng.below(3) as usize)).max(1) + this.rng.below(5) as usize,
                // byte by byte — except through the middle of a large buffer (quick tier: time)
                1 if buf.len() > 4096 && this.pos >= 64 => buf.len() - 64,
                1 => 1,
                2 => (buf.len() / (2 + this.rng.below(2) as usize)).max(1) + this.rng.below(3) as usize,
                _ => 1460,
            };
        }
        let n = this.budget.min(buf.len());
        match std::pin::Pin::new(&mut this.inner).poll_write(cx, &buf[..n]) {
            Poll::Ready(Ok(w)) => {
                this.budget -= w.min(this.budget);
                this.pos += w;
                this.last_remaining = buf.len() - w;
                if this.mode & 8 != 0 && !this.long_stalls.is_empty() && this.last_remaining > 0 && this.rng.chance(1, 12) {
                    // the rest of this frame arrives after a long pause
                    let ms = this.long_stalls.pop().unwrap();
                    this.sleep = Some(Box::pin(tokio::time::sleep(Duration::from_millis(ms))));
                } else if this.mode & 4 != 0 && this.rng.chance(1, 4) {
                    let ms = if this.rng.chance(1, 60) { 120 } else { this.rng.range(1, 3) };
                    this.sleep = Some(Box::pin(tokio::time::sleep(Duration::from_millis(ms))));
                }
                Poll::Ready(Ok(w))
            }
            other => other,
        }
    }
    fn poll_flush(mut self: std::pin::Pin<&mut Self>, cx: &mut std::task::Context<'_>) -> std::task::Poll<std::io::Result<()>> {
        std::pin::Pin::new(&mut self.inner).poll_flush(cx)
    }
    fn poll_shutdown(mut self: std::pin::Pin<&mut Self>, cx: &mut std::task::Context<'_>) -> std::task::Poll<std::io::Result<()>> {
        std::pin::Pin::new(&mut self.inner).poll_shutdown(cx)
    }
}

async fn chop_connect(addr: SocketAddr, cfg: Option<tokio_tungstenite::tungstenite::protocol::WebSocketConfig>, mode: u8, seed: u64) -> Result<WebSocketStream<ChopStream>, String> {
    let tcp = TcpStream::connect(addr).await.map_err(|e| format!("connect: {e}"))?;
    let url = format!("ws://{}/repe", addr);
    // the HTTP upgrade goes out whole: tungstenite's server handshake rejects a request head that arrives in
    // more than 64 tiny reads as an attack (its own rule, not repe's); the REPE frames after it are chopped
    let (mut ws, _) = tokio_tungstenite::client_async_with_config(url, ChopStream::new(tcp, 0, seed), cfg).await.map_err(|e| format!("handshake: {e}"))?;
    ws.get_mut().mode = mode;
    Ok(ws)
}

// ------------------------------------------------------------------------------------------------
// ops
// ------------------------------------------------------------------------------------------------
#[derive(Clone, Debug)]
enum Op {
    Cap { cap: Option<usize>, mw: bool, ocap: Option<usize>, dflt: bool },
    /// the client drops the connection (handlers stay parked) and opens a new one to the same server
    Reconnect,
    /// `begin`: the arrival that follows is refused and the exits that follow it happen *inside* that
    /// refusal (the server's `on_error` hook releases the handlers and waits for them)
    Hook { begin: bool },
    /// `begin`: the blocking arrival that follows is under the cap but no pool thread is free for it (it can
    /// only start once a parked handler has left); the inline arrivals after it must be answered all the
    /// same; then the exits; the starved handler starts
    Starve { begin: bool },
    /// rounds of: fill the cap, then release everything while a burst of further requests is on its way;
    /// ends with nothing running (no per-request prediction: only the direct oracles apply)
    Race { rounds: usize, extra: usize },
    /// the arrivals between `begin` and `end` are written to the socket in one piece and only then read
    Burst { begin: bool },
    Arrive { id: u64, blocking: bool, notify: bool, ec: u32 },
    Exit { id: u64, cmd: Cmd },
}

fn op_line(idx: &str, op: &Op) -> String {
    match op {
        Op::Cap { mw, dflt: true, .. } => format!("cap {} d {}", idx, *mw as u8),
        Op::Cap { cap, mw, ocap: None, .. } => format!("cap {} {} {}", idx, cap.map(|c| c.to_string()).unwrap_or("-".into()), *mw as u8),
        Op::Cap { cap, mw, ocap: Some(o), .. } if *o >= POOL_BASE => format!("cap {} {} {} p{}", idx, cap.map(|c| c.to_string()).unwrap_or("-".into()), *mw as u8, o - POOL_BASE),
        Op::Cap { cap, mw, ocap: Some(o), .. } => format!("cap {} {} {} {}", idx, cap.map(|c| c.to_string()).unwrap_or("-".into()), *mw as u8, o),
        Op::Reconnect => format!("reconnect {}", idx),
        Op::Hook { begin } => format!("hook {} {}", idx, if *begin { "begin" } else { "end" }),
        Op::Race { rounds, extra } => format!("race {} {} {}", idx, rounds, extra),
        Op::Starve { begin } => format!("starve {} {}", idx, if *begin { "begin" } else { "end" }),
        Op::Burst { begin } => format!("burst {} {}", idx, if *begin { "begin" } else { "end" }),
        Op::Arrive { id, blocking, notify, ec } => format!("arrive {} {} {} {} {}", idx, id, if *blocking { "blocking" } else { "inline" }, *notify as u8, ec),
        Op::Exit { id, cmd } => format!("exit {} {} {}", idx, id, match cmd { Cmd::Ret => "ret".to_string(), Cmd::Err(c) => format!("err {}", c), Cmd::Panic(0) => "panic".to_string(), Cmd::Panic(k) => format!("panic {}", k) }),
    }
}

fn parse_op(line: &str) -> Option<(String, Op)> {
    let w = words(line);
    match w.as_slice() {
        ["cap", idx, "d", mw] => Some((idx.to_string(), Op::Cap { cap: Some(repe::websocket_server::DEFAULT_OFFREADER_LIMIT), mw: *mw == "1", ocap: None, dflt: true })),
        ["cap", idx, c, mw] => Some((idx.to_string(), Op::Cap { cap: if *c == "-" { None } else { Some(c.parse().ok()?) }, mw: *mw == "1", ocap: None, dflt: false })),
        ["cap", idx, c, mw, o] => Some((idx.to_string(), Op::Cap { cap: if *c == "-" { None } else { Some(c.parse().ok()?) }, mw: *mw == "1", ocap: Some(match o.strip_prefix('p') { Some(k) => POOL_BASE + k.parse::<usize>().ok()?, None => o.parse().ok()? }), dflt: false })),
        ["reconnect", idx] => Some((idx.to_string(), Op::Reconnect)),
        ["hook", idx, "begin"] => Some((idx.to_string(), Op::Hook { begin: true })),
        ["hook", idx, "end"] => Some((idx.to_string(), Op::Hook { begin: false })),
        ["starve", idx, "begin"] => Some((idx.to_string(), Op::Starve { begin: true })),
        ["starve", idx, "end"] => Some((idx.to_string(), Op::Starve { begin: false })),
        ["race", idx, r, e] => Some((idx.to_string(), Op::Race { rounds: r.parse().ok()?, extra: e.parse().ok()? })),
        ["burst", idx, "begin"] => Some((idx.to_string(), Op::Burst { begin: true })),
        ["burst", idx, "end"] => Some((idx.to_string(), Op::Burst { begin: false })),
        ["arrive", idx, id, route, n, ec] => Some((idx.to_string(), Op::Arrive { id: id.parse().ok()?, blocking: *route == "blocking", notify: *n == "1", ec: ec.parse().ok()? })),
        ["exit", idx, id, "ret"] => Some((idx.to_string(), Op::Exit { id: id.parse().ok()?, cmd: Cmd::Ret })),
        ["exit", idx, id, "panic"] => Some((idx.to_string(), Op::Exit { id: id.parse().ok()?, cmd: Cmd::Panic(0) })),
        ["exit", idx, id, "panic", k] => Some((idx.to_string(), Op::Exit { id: id.parse().ok()?, cmd: Cmd::Panic(k.parse().ok()?) })),
        ["exit", idx, id, "err", c] => Some((idx.to_string(), Op::Exit { id: id.parse().ok()?, cmd: Cmd::Err(c.parse().ok()?) })),
        _ => None,
    }
}

// ------------------------------------------------------------------------------------------------
// one connection
// ------------------------------------------------------------------------------------------------
struct Conn {
    ws: WebSocketStream<ChopStream>,
    events: UnboundedReceiver<SrvEvent>,
    sh: Arc<Shared>,
    cap: Option<usize>,
    /// frames received that no op was waiting for
    stray: Vec<RawFrame>,
    /// ids of requests whose handler is parked (as the harness saw it) -> notify flag
    parked: BTreeMap<u64, bool>,
    /// handlers parked on connections this script has dropped (they keep running server-side)
    orphans: BTreeSet<u64>,
    answered: BTreeMap<u64, u32>,
    notifies: BTreeSet<u64>,
    evt_frames: u64,
}

enum Seen {
    Frame(RawFrame),
    Event(SrvEvent),
    Timeout,
    Closed(String),
}

impl Conn {
    async fn next(&mut self, deadline: Instant) -> Seen {
        let left = deadline.saturating_duration_since(Instant::now());
        if left.is_zero() {
            return Seen::Timeout;
        }
        tokio::select! {
            e = self.events.recv() => match e { Some(e) => Seen::Event(e), None => Seen::Closed("event channel closed".into()) },
            m = self.ws.next() => match m {
                None => Seen::Closed("connection closed".into()),
                Some(Err(e)) => Seen::Closed(format!("connection error: {e}")),
                Some(Ok(WsMsg::Binary(b))) => match RawFrame::parse_prefix(&b) {
                    // what a ctx handler pushed to its own peer on entry: not an observation of this family
                    Some((f, n)) if n == b.len() && f.h.notify != 0 && f.query == b"/evt" => {
                        self.evt_frames += 1;
                        Seen::Event(SrvEvent::Nothing)
                    }
                    Some((f, n)) if n == b.len() => Seen::Frame(f),
                    _ => Seen::Closed("malformed binary message".into()),
                },
                Some(Ok(WsMsg::Close(_))) => Seen::Closed("connection closed".into()),
                // control frames are not observations
                Some(Ok(_)) => Seen::Event(SrvEvent::Nothing),
            },
            _ = tokio::time::sleep(left) => Seen::Timeout,
        }
    }
    async fn send(&mut self, f: &RawFrame) -> Result<(), String> {
        tokio::time::timeout(WATCHDOG, self.ws.send(WsMsg::Binary(f.to_vec()))).await.map_err(|_| "send timed out".to_string())?.map_err(|e| format!("send: {e}"))
    }
    fn gauge(&self) -> i64 {
        self.sh.gauge.load(Ordering::SeqCst)
    }
    /// Forget server-side signals that belong to earlier ops (e.g. the saturation report that
    /// accompanied a refusal already observed as a response).
    fn drain_events(&mut self) {
        while self.events.try_recv().is_ok() {}
    }
}

struct OpResult {
    obs: String,
    fails: Vec<(String, String)>,
    broken: bool,
}

const BIG: usize = 48 * 1024;

/// Public entry points of the anchored files (`websocket_server.rs`, `server.rs`) that this family drives.
const DRIVEN: &[&str] = &[
    "new", "with_offreader_limit", "with_outbound_capacity", "on_error", "serve_listener", "serve_listener_with_shutdown",
    "serve_listener_with_graceful_drain", "into_shared", "accept", "accept_with_handshake", "serve_connection", "serve_connection_with_cancel",
    "with_json", "with_json_blocking", "with_json_ctx_blocking", "with_typed_blocking", "with_typed_ctx_blocking", "with_erased_handler",
    "with_middleware", "run",
];
/// Entry points of `websocket_server.rs` that cannot change how off-reader handlers are admitted, or are another property's.
const NOT_DRIVEN_BECAUSE: &[(&str, &str)] = &[
    ("derive_accept_key", "handshake helper"), ("error_code", "getter"), ("from_http_request", "HandshakeContext"), ("path", "HandshakeContext"),
    ("query", "HandshakeContext"), ("header", "HandshakeContext"), ("headers", "HandshakeContext"), ("cancel", "ShutdownToken (C15)"),
    ("is_cancelled", "ShutdownToken (C15)"), ("cancelled", "ShutdownToken (C15)"), ("listen", "binds a listener"), ("with_limits", "C17"),
    ("with_peer_registry", "C18"), ("on_peer_connect", "C15"), ("on_peer_connect_with_handshake", "C15"), ("on_peer_disconnect", "C15"),
    ("serve", "binds, then the listener twin"), ("serve_with_shutdown", "binds, then the listener twin"), ("serve_with_graceful_drain", "binds, then the listener twin"),
    ("accept_with_limits", "handshake only"), ("accept_with_handshake_and_limits", "handshake only"), ("limits", "C17"),
    ("adopt_upgraded", "wraps an upgraded stream"), ("adopt_upgraded_partially_read", "wraps an upgraded stream"),
    ("serve_connection_with_handshake", "serve_connection + hooks (C15)"), ("serve_connection_with_cancel_and_handshake", "serve_connection + hooks (C15)"),
    ("proxy_connection", "C17"), ("proxy_connection_with_limits", "C17"), ("is_websocket_upgrade", "peeks at a TCP stream"),
];

/// Every public entry point of `websocket_server.rs` is driven or listed with a reason, and every `with_*_blocking`
/// registrar of `server.rs` is driven; anything else goes into the evidence (`not_driven`) and onto stderr.
fn entry_point_audit(out: &mut Out) {
    let repo = std::env::var("VERIF_REPO").unwrap_or_else(|_| "/repo".into());
    let names = |file: &str, only_blocking: bool| -> Vec<String> {
        let text = std::fs::read_to_string(std::path::Path::new(&repo).join("src").join(file)).unwrap_or_default();
        let text = text.split("#[cfg(test)]").next().unwrap_or("").to_string();
        let mut v: Vec<String> = Vec::new();
        for line in text.lines() {
            let t = line.trim_start();
            for pre in ["pub async fn ", "pub fn "] {
                if let Some(rest) = t.strip_prefix(pre) {
                    let n: String = rest.chars().take_while(|c| c.is_alphanumeric() || *c == '_').collect();
                    if !n.is_empty() && !v.contains(&n) && (!only_blocking || n.contains("blocking") || n.contains("execution")) {
                        v.push(n);
                    }
                }
            }
        }
        v
    };
    let mut missing = Vec::new();
    for (file, only_blocking) in [("websocket_server.rs", false), ("server.rs", true)] {
        for n in names(file, only_blocking) {
            if !DRIVEN.contains(&n.as_str()) && !NOT_DRIVEN_BECAUSE.iter().any(|(k, _)| *k == n) {
                out.count(&format!("offreader.NOT_DRIVEN.{}::{}", file, n));
                eprintln!("fam_offreader: public entry point {}::{} is neither driven nor listed as not driven", file, n);
                missing.push(format!("{}::{}", file, n));
            }
        }
    }
    out.extra.insert("not_driven".into(), json!(missing));
}
/// `ocap` values from here on mean: default outbound queue, a server runtime whose blocking pool has
/// only `ocap - POOL_BASE` threads (written `p<k>` on the cap line)
const POOL_BASE: usize = 10_000;

fn request_frame_in(id: u64, blocking: bool, notify: bool, ec: u32, burst: bool) -> RawFrame {
    if burst && !blocking && ec == 0 {
        return RawFrame::request(id, notify, 1, b"/big", 2, serde_json::to_vec(&json!({ "n": BIG })).unwrap().as_slice());
    }
    request_frame(id, blocking, notify, ec)
}

fn request_frame(id: u64, blocking: bool, notify: bool, ec: u32) -> RawFrame {
    if blocking {
        let route = route_for(id);
        // body shape by id: plain, padded (1 KiB / 40 KiB of ignored field, also non-ASCII), Utf8-framed JSON
        let h = fnv(&id.to_le_bytes());
        let body = match h % 6 {
            0 => json!({ "k": id, "pad": "p".repeat(1024) }),
            1 => json!({ "k": id, "pad": "é✓".repeat(8000) }),
            2 => json!({ "pad": [1, 2, 3], "k": id }),
            _ => json!({ "k": id }),
        };
        let bfmt = if h % 7 == 3 { 3 } else { 2 };
        let mut f = RawFrame::request(id, notify, 1, route.as_bytes(), bfmt, serde_json::to_vec(&body).unwrap().as_slice());
        // a notify byte other than 1 is not a notify
        if !notify && h % 5 == 1 {
            f.h.notify = if h % 2 == 0 { 2 } else { 255 };
        }
        if h % 9 == 4 {
            f.h.reserved = 0xDEAD_BEEF;
        }
        f
    } else if ec == 0 {
        RawFrame::request(id, notify, 1, b"/ping", 2, b"null")
    } else {
        RawFrame::request(id, notify, 1, b"/fail", 2, serde_json::to_vec(&json!({ "c": ec })).unwrap().as_slice())
    }
}

async fn do_arrive(c: &mut Conn, idx: &str, id: u64, blocking: bool, notify: bool, ec: u32, retries: &mut u64) -> OpResult {
    let mut fails = Vec::new();
    let started = Instant::now();
    if notify {
        c.notifies.insert(id);
    }
    loop {
        c.drain_events();
        let gauge_before = c.gauge();
        if let Err(e) = c.send(&request_frame(id, blocking, notify, ec)).await {
            fails.push(("offreader.connection".to_string(), format!("{idx}: {e}")));
            return OpResult { obs: format!("{idx} closed ; running {}", c.gauge()), fails, broken: true };
        }
        let deadline = Instant::now() + WATCHDOG;
        let what: String;
        let mut saturated_reply = false;
        let mut sat_seen = false;
        loop {
            match c.next(deadline).await {
                Seen::Event(SrvEvent::Entered(k)) if k == id => {
                    c.parked.insert(id, notify);
                    what = format!("admitted {id}");
                    break;
                }
                Seen::Event(SrvEvent::Saturation) if blocking && notify => {
                    what = "dropped".to_string();
                    saturated_reply = true;
                    break;
                }
                Seen::Event(SrvEvent::Saturation) => sat_seen = true,
                Seen::Event(_) => {}
                Seen::Frame(f) if f.h.notify == 0 && (f.h.id == id || !notify) => {
                    // only one request can be unanswered here (parked handlers do not answer), so a frame
                    // with a clear notify flag is the answer to this request whatever id it carries
                    if f.h.id != id {
                        fails.push(("offreader.response.id".to_string(), format!("{idx}: request {id} was answered with id {} (ec {})", f.h.id, f.h.ec)));
                    }
                    if notify {
                        fails.push(("offreader.notify_answered".to_string(), format!("{idx}: notify request {id} got a response (ec {})", f.h.ec)));
                    }
                    saturated_reply = blocking && f.h.ec == RESOURCE_EXHAUSTED;
                    if !saturated_reply {
                        c.answered.insert(id, f.h.ec);
                    }
                    what = format!("resp {} {}", f.h.id, f.h.ec);
                    break;
                }
                Seen::Frame(f) => c.stray.push(f),
                Seen::Timeout => {
                    // the refusal was reported to the hooks but the caller never got its ResourceExhausted answer
                    let sig = if !blocking { if c.parked.is_empty() { "offreader.inline.no_response" } else { "offreader.reader_blocked" } } else if sat_seen && !notify { "offreader.refusal.no_response" } else { "offreader.arrive.no_effect" };
                    fails.push((sig.to_string(), format!("{idx}: request {id} ({}) had no observable effect within {:?} while {} handler(s) were parked (cap {:?})", if blocking { "blocking" } else { "inline" }, WATCHDOG, c.parked.len(), c.cap)));
                    return OpResult { obs: format!("{idx} timeout ; running {}", c.gauge()), fails, broken: true };
                }
                Seen::Closed(e) => {
                    fails.push(("offreader.connection".to_string(), format!("{idx}: {e}")));
                    return OpResult { obs: format!("{idx} closed ; running {}", c.gauge()), fails, broken: true };
                }
            }
        }
        if saturated_reply {
            // A refusal is only legitimate while `cap` handlers are running.  Between a handler's exit
            // (observed) and the release of its permit there is a short window; give the slot SLOT_GRACE.
            let room = c.cap.map(|cap| (gauge_before.max(c.gauge()) as usize) < cap + c.orphans.len()).unwrap_or(true);
            if room {
                if started.elapsed() < SLOT_GRACE {
                    *retries += 1;
                    tokio::time::sleep(Duration::from_millis(3)).await;
                    continue;
                }
                fails.push(("offreader.slot_leaked".to_string(), format!("{idx}: request {id} is still refused {:?} after only {} handler(s) remained running (cap {:?}): a slot was not freed", SLOT_GRACE, c.gauge(), c.cap)));
                return OpResult { obs: format!("{idx} {what} ; running {}", c.gauge()), fails, broken: true };
            }
        }
        return OpResult { obs: format!("{idx} {what} ; running {}", c.gauge()), fails, broken: false };
    }
}

/// Pressure scenario: all arrivals of the burst go out in one write; nothing is read until the whole
/// burst is on the wire (plus a pause).  The last arrival must be an inline request: the reader handles
/// frames in order, so its answer marks the point where every earlier frame has been handled.
async fn do_burst(c: &mut Conn, items: &[(String, u64, bool, bool, u32)], exits: &[(String, u64, Cmd)]) -> (Vec<OpResult>, bool) {
    let fail_all = |c: &Conn, items: &[(String, u64, bool, bool, u32)], sig: &str, detail: String, word: &str| -> (Vec<OpResult>, bool) {
        let mut v: Vec<OpResult> = items.iter().map(|(idx, ..)| OpResult { obs: format!("{idx} {word} ; running {}", c.gauge()), fails: vec![], broken: false }).collect();
        if let Some(l) = v.last_mut() {
            l.fails.push((sig.to_string(), detail));
            l.broken = true;
        }
        (v, true)
    };
    c.drain_events();
    let parked_before = c.parked.len() as i64;
    for (_, id, blocking, notify, ec) in items {
        if *notify {
            c.notifies.insert(*id);
        }
        let f = request_frame_in(*id, *blocking, *notify, *ec, true);
        if let Err(e) = tokio::time::timeout(WATCHDOG, c.ws.feed(WsMsg::Binary(f.to_vec()))).await.map_err(|_| "feed timed out".to_string()).and_then(|r| r.map_err(|e| e.to_string())) {
            return fail_all(c, items, "offreader.connection", format!("burst: {e}"), "closed");
        }
    }
    if let Err(e) = tokio::time::timeout(WATCHDOG, c.ws.flush()).await.map_err(|_| "flush timed out".to_string()).and_then(|r| r.map_err(|e| e.to_string())) {
        return fail_all(c, items, "offreader.connection", format!("burst: {e}"), "closed");
    }
    // read nothing for a while: answers pile up behind the one-slot outbound queue
    let n_blocking = items.iter().filter(|i| i.2).count();
    let barrier = items.last().map(|i| i.1).unwrap_or(0);
    let ids: BTreeSet<u64> = items.iter().map(|i| i.1).collect();
    let mut entered: BTreeSet<u64> = BTreeSet::new();
    let mut answers: BTreeMap<u64, Vec<u32>> = BTreeMap::new();
    let mut sat = 0usize;
    let deadline = Instant::now() + WATCHDOG;
    let mut exited: BTreeSet<u64> = BTreeSet::new();
    let exit_notify: BTreeMap<u64, bool> = exits.iter().map(|(_, id, _)| (*id, c.parked.get(id).copied().unwrap_or(false))).collect();
    if !exits.is_empty() {
        // Handlers end while nobody reads the socket and the outbound queue is backed up.  To keep the
        // order of events fixed, they are released only once every blocking request of the burst has been
        // decided — which the harness learns from the server-side signals, without reading the socket.
        while entered.len() + sat < n_blocking {
            match tokio::time::timeout_at(tokio::time::Instant::from_std(deadline), c.events.recv()).await {
                Ok(Some(SrvEvent::Entered(k))) if ids.contains(&k) => {
                    entered.insert(k);
                }
                Ok(Some(SrvEvent::Saturation)) => sat += 1,
                Ok(Some(_)) => {}
                _ => break, // the usual collection below reports what is missing
            }
        }
        for (_, id, cmd) in exits {
            let gate = c.sh.gates.lock().unwrap().remove(id);
            if let Some(g) = gate {
                let _ = g.send(*cmd);
            }
        }
    }
    // read nothing for a while: answers pile up behind the outbound queue
    tokio::time::sleep(Duration::from_millis(150)).await;
    let describe = |entered: &BTreeSet<u64>, answers: &BTreeMap<u64, Vec<u32>>, sat: usize| -> String {
        let unresolved: Vec<u64> = items.iter().filter(|i| !entered.contains(&i.1) && !answers.contains_key(&i.1) && !(i.2 && i.3)).map(|i| i.1).collect();
        format!("{} of {} requests of the burst neither started nor were answered: {:?} ({} started, {} answered, {} saturation reports)", unresolved.len(), items.len(), unresolved, entered.len(), answers.len(), sat)
    };
    let exits_done = |exited: &BTreeSet<u64>, answers: &BTreeMap<u64, Vec<u32>>| exits.iter().all(|(_, id, _)| exited.contains(id) && (exit_notify[id] || answers.contains_key(id)));
    let exit_ids: BTreeSet<u64> = exits.iter().map(|e| e.1).collect();
    while !(answers.contains_key(&barrier) && entered.len() + sat >= n_blocking && exits_done(&exited, &answers)) {
        match c.next(deadline).await {
            Seen::Event(SrvEvent::Entered(k)) if ids.contains(&k) => {
                entered.insert(k);
            }
            Seen::Event(SrvEvent::Exited(k)) if exit_ids.contains(&k) => {
                exited.insert(k);
            }
            Seen::Frame(f) if f.h.notify == 0 && exit_ids.contains(&f.h.id) && !exit_notify[&f.h.id] => answers.entry(f.h.id).or_default().push(f.h.ec),
            Seen::Event(SrvEvent::Saturation) => sat += 1,
            Seen::Event(_) => {}
            Seen::Frame(f) if f.h.notify == 0 && ids.contains(&f.h.id) => answers.entry(f.h.id).or_default().push(f.h.ec),
            Seen::Frame(f) => c.stray.push(f),
            Seen::Timeout => {
                let d = describe(&entered, &answers, sat);
                return fail_all(c, items, "offreader.burst.unresolved", format!("burst written in one piece at cap {:?} with {} handler(s) parked before it: {} within {:?}", c.cap, parked_before, d, WATCHDOG), "timeout");
            }
            Seen::Closed(e) => {
                let d = describe(&entered, &answers, sat);
                return fail_all(c, items, "offreader.connection", format!("burst written in one piece at cap {:?}: {e}; {}", c.cap, d), "closed");
            }
        }
    }
    let mut out = Vec::new();
    let mut running = parked_before;
    let mut refused = 0usize;
    for (idx, id, blocking, notify, _ec) in items {
        let mut fails = Vec::new();
        let what = if entered.contains(id) {
            running += 1;
            c.parked.insert(*id, *notify);
            if let Some(a) = answers.get(id) {
                fails.push(("offreader.response.dup".to_string(), format!("{idx}: request {id} started its handler and was also answered ({:?})", a)));
            }
            format!("admitted {id}")
        } else if let Some(a) = answers.get(id) {
            if a.len() != 1 {
                fails.push(("offreader.response.dup".to_string(), format!("{idx}: request {id} answered {} times", a.len())));
            }
            if *notify {
                fails.push(("offreader.notify_answered".to_string(), format!("{idx}: notify request {id} got a response (ec {})", a[0])));
            }
            if *blocking {
                refused += 1;
                if a[0] != RESOURCE_EXHAUSTED {
                    fails.push(("offreader.saturation.reply".to_string(), format!("{idx}: refused request {id} was answered with ec {} (want {})", a[0], RESOURCE_EXHAUSTED)));
                }
            } else {
                c.answered.insert(*id, a[0]);
            }
            format!("resp {} {}", id, a[0])
        } else if *blocking && *notify {
            refused += 1;
            "dropped".to_string()
        } else {
            fails.push(("offreader.burst.unanswered".to_string(), format!("{idx}: request {id} of the burst was neither started nor answered although the request after it was")));
            "none".to_string()
        };
        out.push(OpResult { obs: format!("{idx} {what} ; running {running}"), fails, broken: false });
    }
    // the handlers that ended while the burst's answers were still queued
    for (idx, id, cmd) in exits {
        let mut fails = Vec::new();
        c.parked.remove(id);
        running -= 1;
        let what = match answers.get(id) {
            Some(a) => {
                let want = match cmd { Cmd::Ret => 0, Cmd::Err(c) => *c, Cmd::Panic(_) => INTERNAL_ERROR };
                if a.len() != 1 || a[0] != want {
                    fails.push((if matches!(cmd, Cmd::Panic(_)) { "offreader.panic.code" } else { "offreader.exit.code" }.to_string(), format!("{idx}: handler {id} ended by {:?} behind a backed-up outbound queue; its caller got {:?} (want one answer with ec {})", cmd, a, want)));
                }
                c.answered.insert(*id, a[0]);
                format!("resp {} {}", id, a[0])
            }
            None => "none".to_string(),
        };
        out.push(OpResult { obs: format!("{idx} {what} ; running {running}"), fails, broken: false });
    }
    if let Some(l) = out.last_mut() {
        if sat != refused {
            l.fails.push(("offreader.burst.saturation_reports".to_string(), format!("{} saturation reports for {} refused requests", sat, refused)));
        }
        if c.gauge() != running {
            l.fails.push(("offreader.burst.gauge".to_string(), format!("{} handlers running after the burst, {} were seen to start", c.gauge(), running)));
        }
    }
    (out, false)
}

/// A refusal during which handlers exit: `arrive` must be refused; the server's Saturation hook releases
/// `exits` and waits for them before the reader goes on.  Observations are reported in the order the
/// events happened: the failed acquisition first, the exits after it.
async fn do_hooked(c: &mut Conn, arrive: &(String, u64, bool), exits: &[(String, u64, Cmd)], retries: &mut u64) -> Vec<OpResult> {
    let (aidx, aid, anotify) = arrive;
    let mut out = Vec::new();
    c.drain_events();
    let parked_before = c.parked.len() as i64;
    *c.sh.hook_plan.lock().unwrap() = Some(exits.iter().map(|(_, id, cmd)| (*id, *cmd)).collect());
    if *anotify {
        c.notifies.insert(*aid);
    }
    let notify_of: BTreeMap<u64, bool> = exits.iter().map(|(_, id, _)| (*id, c.parked.get(id).copied().unwrap_or(false))).collect();
    if let Err(e) = c.send(&request_frame(*aid, true, *anotify, 0)).await {
        out.push(OpResult { obs: format!("{aidx} closed ; running {}", c.gauge()), fails: vec![("offreader.connection".into(), format!("{aidx}: {e}"))], broken: true });
        return out;
    }
    let deadline = Instant::now() + WATCHDOG;
    let mut answer: Option<u32> = None;
    let mut admitted = false;
    let mut sat = false;
    let mut exited: BTreeSet<u64> = BTreeSet::new();
    let mut resps: BTreeMap<u64, u32> = BTreeMap::new();
    let done = |answer: &Option<u32>, sat: bool, exited: &BTreeSet<u64>, resps: &BTreeMap<u64, u32>| {
        (if *anotify { sat } else { answer.is_some() }) && exits.iter().all(|(_, id, _)| exited.contains(id) && (notify_of[id] || resps.contains_key(id)))
    };
    let mut fails: Vec<(String, String)> = Vec::new();
    let mut broken = false;
    while !admitted && !done(&answer, sat, &exited, &resps) {
        match c.next(deadline).await {
            Seen::Event(SrvEvent::Entered(k)) if k == *aid => admitted = true,
            Seen::Event(SrvEvent::Exited(k)) => {
                exited.insert(k);
            }
            Seen::Event(SrvEvent::Saturation) => sat = true,
            Seen::Event(_) => {}
            Seen::Frame(f) if f.h.notify == 0 && f.h.id == *aid => answer = Some(f.h.ec),
            Seen::Frame(f) if f.h.notify == 0 && notify_of.get(&f.h.id) == Some(&false) => {
                resps.insert(f.h.id, f.h.ec);
            }
            Seen::Frame(f) => c.stray.push(f),
            Seen::Timeout => {
                fails.push(("offreader.hooked.no_effect".into(), format!("{aidx}: a request at the cap whose refusal releases {} handler(s): answered={:?} report={} exited={:?} answers={:?} within {:?}", exits.len(), answer, sat, exited, resps, WATCHDOG)));
                broken = true;
                break;
            }
            Seen::Closed(e) => {
                fails.push(("offreader.connection".into(), format!("{aidx}: {e}")));
                broken = true;
                break;
            }
        }
    }
    *c.sh.hook_plan.lock().unwrap() = None;
    if admitted {
        // not at the cap after all (the model will disagree): play the exits one by one
        c.parked.insert(*aid, *anotify);
        out.push(OpResult { obs: format!("{aidx} admitted {aid} ; running {}", c.gauge()), fails, broken });
        for (idx, id, cmd) in exits {
            out.push(do_exit(c, idx, *id, *cmd).await);
        }
        let _ = retries;
        return out;
    }
    let what = match (anotify, answer) {
        (true, _) => "dropped".to_string(),
        (false, Some(ec)) => format!("resp {} {}", aid, ec),
        (false, None) => "timeout".to_string(),
    };
    out.push(OpResult { obs: format!("{aidx} {what} ; running {parked_before}"), fails, broken });
    let mut running = parked_before;
    for (idx, id, cmd) in exits {
        let mut fails = Vec::new();
        c.parked.remove(id);
        let what = if !exited.contains(id) {
            "timeout".to_string()
        } else {
            running -= 1;
            match resps.get(id) {
                Some(ec) => {
                    let want = match cmd { Cmd::Ret => 0, Cmd::Err(c) => *c, Cmd::Panic(_) => INTERNAL_ERROR };
                    if *ec != want {
                        fails.push(("offreader.exit.code".to_string(), format!("{idx}: handler {id} ended by {:?} inside a refusal; its caller got ec {} (want {})", cmd, ec, want)));
                    }
                    c.answered.insert(*id, *ec);
                    format!("resp {} {}", id, ec)
                }
                None => "none".to_string(),
            }
        };
        out.push(OpResult { obs: format!("{idx} {what} ; running {running}"), fails, broken: false });
    }
    out
}

/// The blocking pool is exhausted: `starved` (under the cap) is accepted but cannot start; the inline
/// requests after it must still be answered (the reader is free); after the exits the starved handler runs.
async fn do_starved(c: &mut Conn, starved: &(String, u64, bool), inlines: &[(String, u64, u32)], exits: &[(String, u64, Cmd)]) -> Vec<OpResult> {
    let (sidx, sid, snotify) = starved;
    let mut out = Vec::new();
    c.drain_events();
    let parked_before = c.parked.len() as i64;
    if *snotify {
        c.notifies.insert(*sid);
    }
    if let Err(e) = c.send(&request_frame(*sid, true, *snotify, 0)).await {
        out.push(OpResult { obs: format!("{sidx} closed ; running {}", c.gauge()), fails: vec![("offreader.connection".into(), format!("{sidx}: {e}"))], broken: true });
        return out;
    }
    let mut entered = false;
    let mut refused: Option<u32> = None;
    let mut results: Vec<OpResult> = Vec::new();
    // the reader must go on reading: every inline request is answered although `starved` has not started
    for (idx, id, ec) in inlines {
        let _ = c.send(&request_frame(*id, false, false, *ec)).await;
        let deadline = Instant::now() + WATCHDOG;
        let mut got: Option<u32> = None;
        let mut fails = Vec::new();
        let mut broken = false;
        while got.is_none() {
            match c.next(deadline).await {
                Seen::Event(SrvEvent::Entered(k)) if k == *sid => entered = true,
                Seen::Event(_) => {}
                Seen::Frame(f) if f.h.notify == 0 && f.h.id == *id => got = Some(f.h.ec),
                Seen::Frame(f) if f.h.notify == 0 && f.h.id == *sid => refused = Some(f.h.ec),
                Seen::Frame(f) => c.stray.push(f),
                Seen::Timeout => {
                    fails.push(("offreader.reader_blocked".to_string(), format!("{idx}: inline request {id} was not answered within {:?} while request {sid} (under the cap, {} handler(s) parked) was waiting for a free blocking-pool thread", WATCHDOG, parked_before)));
                    broken = true;
                    break;
                }
                Seen::Closed(e) => {
                    fails.push(("offreader.connection".to_string(), format!("{idx}: {e}")));
                    broken = true;
                    break;
                }
            }
        }
        let what = match got { Some(ec) => format!("resp {} {}", id, ec), None => "timeout".to_string() };
        results.push(OpResult { obs: format!("{idx} {what} ; running {}", parked_before + 1), fails, broken });
        if broken {
            break;
        }
    }
    let broken = results.iter().any(|r| r.broken);
    let first = match refused {
        Some(ec) => format!("resp {} {}", sid, ec),
        None => format!("admitted {sid}"),
    };
    out.push(OpResult { obs: format!("{sidx} {first} ; running {}", parked_before + if refused.is_none() { 1 } else { 0 }), fails: vec![], broken: false });
    out.extend(results);
    if broken {
        return out;
    }
    if refused.is_none() {
        c.parked.insert(*sid, *snotify);
    }
    // the exits free pool threads; the starved handler then starts
    for (idx, id, cmd) in exits {
        let mut r = do_exit(c, idx, *id, *cmd).await;
        // `running` as the model counts it: the accepted request counts from its admission on
        let w: Vec<&str> = r.obs.split(" ; running ").collect();
        let counted = c.parked.len() as i64;
        r.obs = format!("{} ; running {}", w[0], counted);
        out.push(r);
    }
    if refused.is_none() && !entered {
        // its `Entered` signal may have been consumed while the exits were observed: the gate it registers
        // on entry tells as well
        let deadline = Instant::now() + WATCHDOG;
        while !c.sh.gates.lock().unwrap().contains_key(sid) {
            if Instant::now() > deadline {
                if let Some(l) = out.last_mut() {
                    l.fails.push(("offreader.arrive.no_effect".to_string(), format!("{sidx}: request {sid} was accepted under the cap but its handler never started although pool threads were freed")));
                    l.broken = true;
                }
                break;
            }
            tokio::time::sleep(Duration::from_millis(2)).await;
        }
    }
    out
}

/// Statistical variant: `rounds` times fill the cap, then write `extra` further requests in one piece and
/// release every parked handler at the same moment.  Whatever the interleaving, each request of the burst
/// must either start a handler or be refused, never more than `cap` may run, and in the end every slot
/// must be usable again (checked here with the usual grace, and by the script's next steps).
async fn do_race(c: &mut Conn, idx: &str, rounds: usize, extra: usize, next_id: &mut u64, retries: &mut u64) -> (Vec<(String, String)>, bool) {
    let mut fails: Vec<(String, String)> = Vec::new();
    let cap = c.cap.unwrap_or(4);
    for round in 0..rounds {
        // fill the cap (handlers left over from the previous round's burst count)
        while c.parked.len() < cap {
            *next_id += 1;
            let id = *next_id;
            let r = do_arrive(c, idx, id, true, false, 0, retries).await;
            fails.extend(r.fails.into_iter().map(|(s, d)| (s, format!("race round {round}: {d}"))));
            if r.broken || !c.parked.contains_key(&id) {
                if !r.broken {
                    fails.push(("offreader.slot_leaked".into(), format!("{idx}: race round {round}: request {id} was not admitted although only {} of {} slots are taken", c.parked.len(), cap)));
                }
                return (fails, true);
            }
        }
        c.drain_events();
        let ids: Vec<u64> = (0..extra).map(|_| { *next_id += 1; *next_id }).collect();
        for id in &ids {
            if tokio::time::timeout(WATCHDOG, c.ws.feed(WsMsg::Binary(request_frame(*id, true, false, 0).to_vec()))).await.map(|r| r.is_err()).unwrap_or(true) {
                fails.push(("offreader.connection".into(), format!("{idx}: race round {round}: write failed")));
                return (fails, true);
            }
        }
        // release everything that is parked while the burst is on its way
        let gates: Vec<(u64, std::sync::mpsc::Sender<Cmd>)> = c.sh.gates.lock().unwrap().drain().collect();
        let mut leaving: BTreeSet<u64> = gates.iter().map(|g| g.0).collect();
        let flush = c.ws.flush();
        let release = async {
            if round % 2 == 1 {
                tokio::task::yield_now().await;
            }
            for (_, g) in &gates {
                let _ = g.send(Cmd::Ret);
            }
        };
        let (fr, _) = tokio::join!(tokio::time::timeout(WATCHDOG, flush), release);
        if fr.map(|r| r.is_err()).unwrap_or(true) {
            fails.push(("offreader.connection".into(), format!("{idx}: race round {round}: flush failed")));
            return (fails, true);
        }
        let mut want_answers: BTreeSet<u64> = leaving.iter().filter(|id| c.parked.get(id) == Some(&false)).cloned().collect();
        for id in &leaving {
            c.parked.remove(id);
        }
        let mut unresolved: BTreeSet<u64> = ids.iter().cloned().collect();
        let deadline = Instant::now() + WATCHDOG;
        while !(unresolved.is_empty() && leaving.is_empty() && want_answers.is_empty()) {
            match c.next(deadline).await {
                Seen::Event(SrvEvent::Entered(k)) if unresolved.remove(&k) => {
                    c.parked.insert(k, false);
                }
                Seen::Event(SrvEvent::Exited(k)) => {
                    leaving.remove(&k);
                }
                Seen::Event(_) => {}
                Seen::Frame(f) if f.h.notify == 0 && unresolved.contains(&f.h.id) => {
                    unresolved.remove(&f.h.id);
                    if f.h.ec != RESOURCE_EXHAUSTED {
                        fails.push(("offreader.saturation.reply".into(), format!("{idx}: race round {round}: request {} answered with ec {}", f.h.id, f.h.ec)));
                    }
                }
                Seen::Frame(f) if f.h.notify == 0 && want_answers.remove(&f.h.id) => {
                    if f.h.ec != 0 {
                        fails.push(("offreader.exit.code".into(), format!("{idx}: race round {round}: released handler {} answered ec {}", f.h.id, f.h.ec)));
                    }
                }
                Seen::Frame(f) => c.stray.push(f),
                Seen::Timeout => {
                    fails.push(("offreader.race.unresolved".into(), format!("{idx}: race round {round} (cap {cap}, burst of {extra}): requests {:?} neither started nor were refused, handlers {:?} did not leave, answers missing for {:?} within {:?}", unresolved, leaving, want_answers, WATCHDOG)));
                    return (fails, true);
                }
                Seen::Closed(e) => {
                    fails.push(("offreader.connection".into(), format!("{idx}: race round {round}: {e}")));
                    return (fails, true);
                }
            }
        }
    }
    // leave nothing running
    let left: Vec<u64> = c.parked.keys().cloned().collect();
    for id in left {
        let r = do_exit(c, idx, id, Cmd::Ret).await;
        fails.extend(r.fails);
        if r.broken {
            return (fails, true);
        }
    }
    (fails, false)
}

async fn do_exit(c: &mut Conn, idx: &str, id: u64, cmd: Cmd) -> OpResult {
    let mut fails = Vec::new();
    let gate = c.sh.gates.lock().unwrap().remove(&id);
    let Some(gate) = gate else {
        return OpResult { obs: format!("{idx} unknown ; running {}", c.gauge()), fails, broken: false };
    };
    // a handler of a dropped connection has nobody to answer: only its exit is observable
    let notify = if c.orphans.remove(&id) { true } else { c.parked.remove(&id).unwrap_or(false) };
    c.drain_events();
    let _ = gate.send(cmd);
    let deadline = Instant::now() + WATCHDOG;
    let (mut exited, mut resp): (bool, Option<RawFrame>) = (false, None);
    while !(exited && (notify || resp.is_some())) {
        match c.next(deadline).await {
            Seen::Event(SrvEvent::Exited(k)) if k == id => exited = true,
            Seen::Event(_) => {}
            Seen::Frame(f) if f.h.notify == 0 && !notify && resp.is_none() => {
                if f.h.id != id {
                    let sig = if matches!(cmd, Cmd::Panic(_)) { "offreader.panic.id" } else { "offreader.exit.id" };
                    fails.push((sig.to_string(), format!("{idx}: handler {id} ended by {:?}; the response carries id {} (ec {})", cmd, f.h.id, f.h.ec)));
                }
                resp = Some(f)
            }
            Seen::Frame(f) => c.stray.push(f),
            Seen::Timeout => {
                let sig = if matches!(cmd, Cmd::Panic(_)) { "offreader.panic.no_response" } else { "offreader.exit.no_response" };
                fails.push((sig.to_string(), format!("{idx}: handler {id} was told to {:?}; exited={} response={} within {:?}", cmd, exited, resp.is_some(), WATCHDOG)));
                return OpResult { obs: format!("{idx} timeout ; running {}", c.gauge()), fails, broken: true };
            }
            Seen::Closed(e) => {
                fails.push(("offreader.connection".to_string(), format!("{idx}: after handler {id} was told to {:?}: {e}", cmd)));
                return OpResult { obs: format!("{idx} closed ; running {}", c.gauge()), fails, broken: true };
            }
        }
    }
    let what = match &resp {
        Some(f) => {
            let want = match cmd { Cmd::Ret => 0, Cmd::Err(c) => c, Cmd::Panic(_) => INTERNAL_ERROR };
            if f.h.ec != want {
                let sig = if matches!(cmd, Cmd::Panic(_)) { "offreader.panic.code" } else { "offreader.exit.code" };
                fails.push((sig.to_string(), format!("{idx}: handler {id} ended by {:?}; its caller got ec {} (want {})", cmd, f.h.ec, want)));
            }
            if c.answered.insert(id, f.h.ec).is_some() {
                fails.push(("offreader.response.dup".to_string(), format!("{idx}: request {id} answered twice")));
            }
            format!("resp {} {}", f.h.id, f.h.ec)
        }
        None => "none".to_string(),
    };
    OpResult { obs: format!("{idx} {what} ; running {}", c.gauge()), fails, broken: false }
}

// ------------------------------------------------------------------------------------------------
// generator
// ------------------------------------------------------------------------------------------------
fn pick_cmd(r: &mut Rng) -> Cmd {
    match r.below(6) {
        0 | 1 | 2 => Cmd::Ret,
        3 => Cmd::Err(*r.pick(&[0u32, 1, 2, 3, 4, 5, 6, 7, 8, 9, 4096])),
        _ => Cmd::Panic(r.below(PANIC_KINDS as u64) as u8),
    }
}

/// A script generator that mirrors only the counting (who is running) to choose sensible exits.
struct Gen {
    ops: Vec<Op>,
    running: Vec<u64>,
    /// handlers of connections the client has dropped
    orphans: Vec<u64>,
    cap: Option<usize>,
    next_id: u64,
    /// boundary ids already used in this script (each at most once: ids stay unique per script)
    used_ids: Vec<u64>,
}

/// Request ids at the ends and seams of the range: the requests REFUSED at the cap cycle through them.
const BOUNDARY_IDS: [u64; 6] = [0, u64::MAX, 1 << 32, 1 << 63, (1 << 32) - 1, 1];

impl Gen {
    fn new(cap: Option<usize>, mw: bool, base: u64) -> Gen {
        Gen { ops: vec![Op::Cap { cap, mw, ocap: None, dflt: false }], running: Vec::new(), orphans: Vec::new(), cap, next_id: base, used_ids: Vec::new() }
    }
    fn arrive(&mut self, blocking: bool, notify: bool, ec: u32) -> u64 {
        // a blocking request that will find the cap reached carries the next unused boundary id
        let full = self.cap.map(|c| self.running.len() >= c).unwrap_or(false);
        if blocking && full {
            if let Some(b) = BOUNDARY_IDS.iter().find(|b| !self.used_ids.contains(b)).copied() {
                return self.arrive_id(b, blocking, notify, ec);
            }
        }
        self.next_id += 1;
        let id = self.next_id;
        self.arrive_id(id, blocking, notify, ec)
    }
    fn arrive_id(&mut self, id: u64, blocking: bool, notify: bool, ec: u32) -> u64 {
        self.used_ids.push(id);
        self.ops.push(Op::Arrive { id, blocking, notify, ec });
        if blocking && self.cap.map(|c| self.running.len() < c).unwrap_or(true) {
            self.running.push(id);
        }
        id
    }
    fn reconnect(&mut self) {
        self.orphans.append(&mut self.running);
        self.ops.push(Op::Reconnect);
    }
    fn exit(&mut self, id: u64, cmd: Cmd) {
        self.running.retain(|x| *x != id);
        self.orphans.retain(|x| *x != id);
        self.ops.push(Op::Exit { id, cmd });
    }
    fn exit_all(&mut self, r: &mut Rng) {
        let mut ids = self.running.clone();
        ids.extend(self.orphans.iter().cloned());
        r.shuffle(&mut ids);
        for id in ids {
            let cmd = pick_cmd(r);
            self.exit(id, cmd);
        }
    }
    /// after everything was released: cap-many further requests must be admitted, one more refused
    fn epilogue(&mut self, r: &mut Rng) {
        let n = self.cap.unwrap_or(5);
        for _ in 0..n {
            self.arrive(true, r.chance(1, 6), 0);
        }
        if self.cap.is_some() {
            self.arrive(true, false, 0);
        }
        self.arrive(false, false, 0);
        self.exit_all(r);
        self.arrive(false, false, 0);
    }
}

fn random_script(r: &mut Rng, cap: Option<usize>, mw: bool, base: u64, thorough: bool) -> Vec<Op> {
    let mut g = Gen::new(cap, mw, base);
    let c = cap.unwrap_or(12);
    let arrivals = (4 * c).min(if thorough { 64 } else { 40 }).max(6);
    let mut made = 0;
    // phase 1: climb to saturation quickly, then churn
    while made < arrivals {
        let full = cap.map(|c| g.running.len() >= c).unwrap_or(false);
        let p = r.below(100);
        if p < 18 {
            let ec = if r.chance(1, 4) { *r.pick(&[4u32, 7]) } else { 0 };
            g.arrive(false, false, ec);
        } else if p < (if full { 55 } else { 82 }) || g.running.is_empty() {
            g.arrive(true, r.chance(1, 5), 0);
            made += 1;
        } else {
            let id = *r.pick(&g.running);
            let cmd = pick_cmd(r);
            g.exit(id, cmd);
        }
    }
    g.exit_all(r);
    g.epilogue(r);
    g.ops
}

fn permutations(n: usize) -> Vec<Vec<usize>> {
    if n == 0 {
        return vec![vec![]];
    }
    let mut out = Vec::new();
    for p in permutations(n - 1) {
        for i in 0..=p.len() {
            let mut q = p.clone();
            q.insert(i, n - 1);
            out.push(q);
        }
    }
    out
}

/// Fill the cap, hit saturation with a request, a notify and an inline call, then release in the given
/// order with the given exit kinds; after every release one new request takes the freed slot.
fn order_script(cap: usize, mw: bool, base: u64, order: &[usize], kinds: &[Cmd], r: &mut Rng) -> Vec<Op> {
    let mut g = Gen::new(Some(cap), mw, base);
    let ids: Vec<u64> = (0..cap).map(|i| g.arrive(true, i == 1 && kinds.len() > 1 && r.chance(1, 3), 0)).collect();
    g.arrive(true, false, 0);
    g.arrive(true, true, 0);
    g.arrive(false, false, 0);
    for (j, i) in order.iter().enumerate() {
        g.exit(ids[*i], kinds[j]);
        g.arrive(false, false, 0);
        if j + 1 < order.len() {
            let n = g.arrive(true, false, 0);
            g.arrive(true, false, 0); // full again: refused
            g.exit(n, Cmd::Ret);
        }
    }
    g.exit_all(r);
    g.epilogue(r);
    g.ops
}

/// Pressure script: outbound queue of one slot, server on a current-thread runtime.  `pre` handlers are
/// parked one by one, then a burst written in one piece: the rest of the cap, `extra` more blocking
/// requests that must be refused (some of them notifies), inline requests with sizeable answers in
/// between, an inline request last.  Then the usual releases and the epilogue.
fn pressure_script(r: &mut Rng, cap: usize, mw: bool, base: u64, pre: usize, extra: usize, ocap: usize) -> Vec<Op> {
    let mut g = Gen::new(Some(cap), mw, base);
    g.ops[0] = Op::Cap { cap: Some(cap), mw, ocap: Some(ocap), dflt: false };
    for _ in 0..pre.min(cap) {
        g.arrive(true, false, 0);
    }
    g.ops.push(Op::Burst { begin: true });
    for _ in pre.min(cap)..cap {
        g.arrive(true, r.chance(1, 8), 0);
    }
    for e in 0..extra {
        if r.chance(1, 3) {
            g.arrive(false, false, if r.chance(1, 5) { 4 } else { 0 });
        }
        g.arrive(true, e > 0 && r.chance(1, 6), 0);
    }
    g.arrive(false, false, 0);
    g.ops.push(Op::Burst { begin: false });
    g.arrive(false, false, 0);
    // a second burst entirely at the cap
    if r.chance(1, 2) {
        g.ops.push(Op::Burst { begin: true });
        for _ in 0..r.range(2, 6) {
            g.arrive(true, false, 0);
        }
        g.arrive(false, false, 0);
        g.ops.push(Op::Burst { begin: false });
    }
    g.exit_all(r);
    g.epilogue(r);
    g.ops
}

fn gen_scripts(r: &mut Rng, thorough: bool) -> Vec<Vec<Op>> {
    let mut scripts = Vec::new();
    let mut base = 0u64;
    let mut nb = || {
        base += 10_000;
        base
    };
    let kinds_all = [Cmd::Ret, Cmd::Err(7), Cmd::Panic(0)];
    let mut pk = 0u8;
    let mut vary = |k: Cmd| -> Cmd {
        if let Cmd::Panic(_) = k {
            pk = (pk + 1) % PANIC_KINDS;
            Cmd::Panic(pk)
        } else {
            k
        }
    };
    // all release orders for small caps (thorough: with all exit-kind assignments)
    for cap in 1..=3usize {
        for order in permutations(cap) {
            if thorough {
                let total = 3usize.pow(cap as u32);
                for code in 0..total {
                    let kinds: Vec<Cmd> = (0..cap).map(|i| vary(kinds_all[(code / 3usize.pow(i as u32)) % 3])).collect();
                    scripts.push(order_script(cap, (code + order[0]) % 2 == 1, nb(), &order, &kinds, r));
                }
            } else {
                let kinds: Vec<Cmd> = (0..cap).map(|_| vary(*r.pick(&kinds_all))).collect();
                scripts.push(order_script(cap, r.chance(1, 2), nb(), &order, &kinds, r));
                let kinds: Vec<Cmd> = (0..cap).map(|_| vary(Cmd::Panic(0))).collect();
                scripts.push(order_script(cap, r.chance(1, 2), nb(), &order, &kinds, r));
            }
        }
    }
    // request ids at the ends of the range, and on both kinds of route
    {
        let mut g = Gen::new(Some(2), r.chance(1, 2), nb());
        g.arrive_id(0, true, false, 0);
        g.arrive_id(u64::MAX, true, false, 0);
        g.arrive_id(u64::MAX - 1, true, false, 0); // refused, with that id
        g.arrive_id(1, false, false, 0);
        g.exit(0, Cmd::Panic(1));
        g.arrive_id(u64::MAX - 2, true, true, 0);
        g.exit(u64::MAX, Cmd::Err(4096));
        g.exit_all(r);
        g.epilogue(r);
        scripts.push(g.ops);
    }
    // caps beyond the default of 16
    for cap in if thorough { vec![17usize, 40, 100] } else { vec![17usize, 40] } {
        let mut g = Gen::new(Some(cap), cap % 2 == 0, nb());
        for _ in 0..cap {
            g.arrive(true, r.chance(1, 10), 0);
        }
        g.arrive(true, false, 0);
        g.arrive(true, true, 0);
        g.arrive(false, false, 0);
        let victim = g.running[r.below(cap as u64) as usize];
        g.exit(victim, Cmd::Panic(5));
        g.arrive(true, false, 0);
        g.arrive(true, false, 0);
        g.exit_all(r);
        g.arrive(false, false, 0);
        scripts.push(g.ops);
    }
    // the cap `WebSocketServer::new` sets when the embedder says nothing
    {
        let dcap = repe::websocket_server::DEFAULT_OFFREADER_LIMIT;
        let with_mw = r.chance(1, 2);
        let mut ops = random_script(r, Some(dcap), with_mw, nb(), thorough);
        ops[0] = Op::Cap { cap: Some(dcap), mw: matches!(ops[0], Op::Cap { mw: true, .. }), ocap: None, dflt: true };
        scripts.push(ops);
    }
    // a connection goes away while its handlers are parked; a new connection has its own slots
    for round in 0..(if thorough { 6 } else { 2 }) {
        for cap in [1usize, 2, 3, 5] {
            let mut g = Gen::new(Some(cap), (round + cap) % 2 == 0, nb());
            for _ in 0..cap {
                g.arrive(true, r.chance(1, 6), 0);
            }
            g.arrive(true, false, 0);
            g.reconnect();
            for _ in 0..cap {
                g.arrive(true, false, 0);
            }
            g.arrive(true, false, 0);
            g.arrive(false, false, 0);
            // some of the left-over handlers end now, the rest later
            let orph = g.orphans.clone();
            for id in orph.iter().take((cap + 1) / 2) {
                let cmd = pick_cmd(r);
                g.exit(*id, cmd);
            }
            g.arrive(true, false, 0); // still full: the freed slots belonged to the old connection
            if round % 2 == 1 {
                g.reconnect();
                g.arrive(true, false, 0);
            }
            g.exit_all(r);
            g.epilogue(r);
            scripts.push(g.ops);
        }
    }
    // handlers exit *inside* a refusal (the Saturation hook releases them and waits), then every slot must
    // be usable; and races between a burst at the cap and the release of everything
    for round in 0..(if thorough { 6 } else { 2 }) {
        for cap in [1usize, 2, 3, 4] {
            let mut g = Gen::new(Some(cap), (round + cap) % 2 == 1, nb());
            for _ in 0..cap {
                g.arrive(true, r.chance(1, 8), 0);
            }
            g.ops.push(Op::Hook { begin: true });
            g.arrive(true, round % 2 == 1 && r.chance(1, 2), 0);
            let ids = g.running.clone();
            let n = if round % 2 == 0 { ids.len() } else { r.range(1, ids.len() as u64) as usize };
            for id in ids.iter().take(n) {
                let cmd = pick_cmd(r);
                g.exit(*id, cmd);
            }
            g.ops.push(Op::Hook { begin: false });
            // the freed slots must all be usable
            for _ in 0..n {
                g.arrive(true, false, 0);
            }
            g.arrive(true, false, 0);
            g.arrive(false, false, 0);
            g.exit_all(r);
            g.ops.push(Op::Race { rounds: if thorough { 40 } else { 12 }, extra: cap + 2 });
            g.epilogue(r);
            scripts.push(g.ops);
        }
    }
    // the runtime's blocking pool is smaller than the cap: an accepted request may have to wait for a
    // thread, the reader may not wait with it
    for (pool, cap) in if thorough { vec![(1usize, 2usize), (2, 4), (3, 8), (1, 16)] } else { vec![(1usize, 2usize), (2, 4)] } {
        let mut g = Gen::new(Some(cap), pool % 2 == 0, nb());
        g.ops[0] = Op::Cap { cap: Some(cap), mw: pool % 2 == 0, ocap: Some(POOL_BASE + pool), dflt: false };
        for _ in 0..pool {
            g.arrive(true, false, 0);
        }
        g.ops.push(Op::Starve { begin: true });
        g.arrive(true, false, 0);
        g.arrive(false, false, 0);
        g.arrive(false, false, 4);
        let first = g.running[0];
        g.exit(first, Cmd::Ret);
        g.ops.push(Op::Starve { begin: false });
        g.arrive(false, false, 0);
        g.exit_all(r);
        g.arrive(false, false, 0);
        scripts.push(g.ops);
    }
    // N of the same thing in a row: refusals (every third a notify), inline calls, panics
    for n in if thorough { vec![2usize, 7, 8, 9, 16, 17, 64, 65, 256, 1000] } else { vec![2usize, 8, 9, 17, 65] } {
        let mut g = Gen::new(Some(1), n % 2 == 0, nb());
        g.arrive(true, false, 0);
        for i in 0..n {
            g.arrive(true, i % 3 == 2, 0);
        }
        g.arrive(false, false, 0);
        g.exit_all(r);
        for i in 0..n.min(17) {
            let id = g.arrive(true, false, 0);
            g.exit(id, Cmd::Panic((i % PANIC_KINDS as usize) as u8));
        }
        for _ in 0..n.min(65) {
            g.arrive(false, false, if n % 2 == 1 { 4 } else { 0 });
        }
        g.epilogue(r);
        scripts.push(g.ops);
    }
    // more refusals in one piece than the default outbound queue holds (DEFAULT_OUTBOUND_CAPACITY = 256)
    for n in if thorough { vec![255usize, 256, 257, 600] } else { vec![257usize] } {
        let mut g = Gen::new(Some(1), false, nb());
        g.arrive(true, false, 0);
        g.ops.push(Op::Burst { begin: true });
        for i in 0..n {
            g.arrive(true, i % 50 == 49, 0);
        }
        g.arrive(false, false, 0);
        g.ops.push(Op::Burst { begin: false });
        g.exit_all(r);
        g.epilogue(r);
        scripts.push(g.ops);
    }
    // handlers end (return / error / panic) while the outbound queue is backed up and the peer is not
    // reading; then the peer drops the connection with answers still queued
    for (cap, ocap) in if thorough { vec![(1usize, 1usize), (2, 1), (3, 2), (4, 8)] } else { vec![(2usize, 1usize), (3, 2)] } {
        let mut g = Gen::new(Some(cap), cap % 2 == 1, nb());
        g.ops[0] = Op::Cap { cap: Some(cap), mw: cap % 2 == 1, ocap: Some(ocap), dflt: false };
        for _ in 0..cap {
            g.arrive(true, false, 0);
        }
        g.ops.push(Op::Burst { begin: true });
        for i in 0..24 {
            g.arrive(i % 3 != 0, false, 0); // big inline answers and refusals
        }
        g.arrive(false, false, 0);
        let ids = g.running.clone();
        for (i, id) in ids.iter().enumerate() {
            g.exit(*id, [Cmd::Panic(1), Cmd::Ret, Cmd::Err(7), Cmd::Panic(5)][i % 4]);
        }
        g.ops.push(Op::Burst { begin: false });
        for _ in 0..cap {
            g.arrive(true, false, 0);
        }
        g.arrive(true, false, 0);
        g.reconnect();
        g.arrive(true, false, 0);
        g.exit_all(r);
        g.epilogue(r);
        scripts.push(g.ops);
    }
    // pairs of knobs at their extremes: no cap / the default cap with a one-slot queue, with and without middleware
    for (cap, ocap, mw) in [(None, 1usize, true), (Some(16usize), 1, false), (Some(1), 8, true)] {
        let mut ops = random_script(r, cap, mw, nb(), thorough);
        ops[0] = Op::Cap { cap, mw, ocap: Some(ocap), dflt: false };
        scripts.push(ops);
    }
    // pressure: bursts written in one piece against a one-slot outbound queue
    for round in 0..(if thorough { 8 } else { 2 }) {
        for cap in 1..=3usize {
            let pre = match round % 3 { 0 => cap, 1 => 0, _ => r.below(cap as u64 + 1) as usize };
            let extra = if round % 2 == 0 { 8 } else { 3 * cap + r.below(4) as usize };
            scripts.push(pressure_script(r, cap, round % 2 == 1, nb(), pre, extra, if round == 0 { 1 } else { [1usize, 2, 8][(round + cap) % 3] }));
        }
    }
    if thorough {
        for cap in [4usize, 8, 16] {
            let pre = r.below(cap as u64 + 1) as usize;
            scripts.push(pressure_script(r, cap, false, nb(), pre, 12, 1));
        }
    }
    // random scripts: every cap 1..16 and unlimited, with and without middleware
    let rounds = if thorough { 6 } else { 1 };
    for round in 0..rounds {
        for cap in (1..=16usize).map(Some).chain([None]) {
            for mw in [false, true] {
                if !thorough && cap.map(|c| c > 4 && (c + mw as usize + round) % 2 == 0).unwrap_or(false) {
                    continue; // quick: large caps alternate between wrapped and unwrapped
                }
                scripts.push(random_script(r, cap, mw, nb(), thorough));
            }
        }
    }
    scripts
}

// ------------------------------------------------------------------------------------------------
// running one script
// ------------------------------------------------------------------------------------------------
type SrvKey = (Option<usize>, bool, Option<usize>, bool);

async fn run_script(out: &mut Out, servers: &mut HashMap<SrvKey, Srv>, sno: usize, ops: &[(String, Op)], retries: &mut u64) -> bool {
    let Some((cap_idx, Op::Cap { cap, mw, ocap, dflt })) = ops.first().cloned() else {
        out.oracle_fail("offreader.setup", "script does not start with a cap line", &[]);
        return false;
    };
    let key: SrvKey = (cap, mw, ocap, dflt);
    if !servers.contains_key(&key) {
        servers.insert(key, start_server(cap, mw, ocap, dflt).await);
    }
    let srv = servers.get(&key).unwrap();
    let (tx, rx) = unbounded_channel();
    *srv.sh.events.lock().unwrap() = Some(tx);
    srv.sh.max_gauge.store(0, Ordering::SeqCst);
    let addr = srv.addr;
    // how this script's frames reach the server: in one piece, or chopped (by script number: replay-exact
    // for a whole run; a replayed single script is sent unchopped unless it is the same number)
    let chop: u8 = match sno % 9 { 2 => 1, 4 => 2, 5 => 3, 7 => 5, 8 => 6, 1 if sno % (if THOROUGH.load(Ordering::Relaxed) { 81 } else { 27 }) == 1 => 10, _ => 0 };
    out.count(&format!("offreader.client_writes.chop_mode_{}", chop));
    let ws = match tokio::time::timeout(WATCHDOG, chop_connect(srv.addr, None, chop, sno as u64)).await {
        Ok(Ok(ws)) => ws,
        other => {
            out.oracle_fail("offreader.setup", &format!("could not connect to the server (chop mode {}): {:?}", chop, other.map(|r| r.err())), &[]);
            return false;
        }
    };
    let mut c = Conn { ws, events: rx, sh: srv.sh.clone(), cap, stray: Vec::new(), parked: BTreeMap::new(), orphans: BTreeSet::new(), answered: BTreeMap::new(), notifies: BTreeSet::new(), evt_frames: 0 };
    let lines: Vec<String> = ops.iter().map(|(i, o)| op_line(i, o)).collect();
    out.config(&lines[0]);
    let _ = cap_idx;
    out.count(&format!("offreader.cap.{}", cap.map(|c| c.to_string()).unwrap_or("unlimited".into())));
    out.count(if mw { "offreader.router.with_middleware" } else { "offreader.router.plain" });
    if ocap.is_some() {
        out.count("offreader.pressure_scripts(outbound_capacity_1,current_thread_server)");
    }
    let mw_before = srv.sh.mw_calls.load(Ordering::SeqCst);
    let mut dispatched = 0u64;
    let mut ok = true;
    let mut orphan_base = 0usize;
    let mut k = 1;
    while k < ops.len() && ok {
        out.begin(&lines[k]);
        // (index of the op line, result) pairs produced by this step
        let mut results: Vec<(usize, OpResult)> = Vec::new();
        let mut in_burst = false;
        let mut end_line: Option<usize> = None;
        match &ops[k].1 {
            Op::Cap { .. } => {
                k += 1;
                continue;
            }
            Op::Burst { begin: true } => {
                out.config(&lines[k]);
                let mut items = Vec::new();
                let mut bexits: Vec<(String, u64, Cmd)> = Vec::new();
                let mut idxs = Vec::new();
                let mut e = k + 1;
                while e < ops.len() {
                    match &ops[e].1 {
                        Op::Arrive { id, blocking, notify, ec } if bexits.is_empty() => {
                            items.push((ops[e].0.clone(), *id, *blocking, *notify, *ec));
                            idxs.push(e);
                        }
                        Op::Exit { id, cmd } if !items.is_empty() => {
                            bexits.push((ops[e].0.clone(), *id, *cmd));
                            idxs.push(e);
                        }
                        _ => break,
                    }
                    e += 1;
                }
                in_burst = true;
                out.count("offreader.bursts");
                out.add("offreader.burst_requests", items.len() as u64);
                out.add("offreader.exits_behind_backed_up_queue", bexits.len() as u64);
                let (rs, _broken) = do_burst(&mut c, &items, &bexits).await;
                for (i, r) in idxs.into_iter().zip(rs) {
                    results.push((i, r));
                }
                k = e;
                if k < ops.len() && matches!(ops[k].1, Op::Burst { begin: false }) {
                    end_line = Some(k);
                    k += 1;
                }
            }
            Op::Burst { begin: false } => {
                k += 1;
                continue;
            }
            Op::Hook { begin: true } => {
                out.config(&lines[k]);
                out.count("offreader.refusals_with_exits_inside(on_error_hook)");
                let mut e = k + 1;
                let mut arrive = None;
                let mut exits = Vec::new();
                let mut idxs = Vec::new();
                while e < ops.len() {
                    match &ops[e].1 {
                        Op::Arrive { id, notify, blocking: true, .. } if arrive.is_none() => {
                            arrive = Some((ops[e].0.clone(), *id, *notify));
                            idxs.push(e);
                        }
                        Op::Exit { id, cmd } if arrive.is_some() => {
                            exits.push((ops[e].0.clone(), *id, *cmd));
                            idxs.push(e);
                        }
                        _ => break,
                    }
                    e += 1;
                }
                if let Some(a) = arrive {
                    in_burst = true;
                    let rs = do_hooked(&mut c, &a, &exits, retries).await;
                    for (i, r) in idxs.into_iter().zip(rs) {
                        results.push((i, r));
                    }
                }
                k = e;
                if k < ops.len() && matches!(ops[k].1, Op::Hook { begin: false }) {
                    end_line = Some(k);
                    k += 1;
                }
            }
            Op::Hook { begin: false } | Op::Starve { begin: false } => {
                k += 1;
                continue;
            }
            Op::Starve { begin: true } => {
                out.config(&lines[k]);
                out.count("offreader.starved_admissions(blocking_pool_exhausted)");
                let mut e = k + 1;
                let (mut starved, mut inl, mut exits, mut idxs) = (None, Vec::new(), Vec::new(), Vec::new());
                while e < ops.len() {
                    match &ops[e].1 {
                        Op::Arrive { id, notify, blocking: true, .. } if starved.is_none() => {
                            starved = Some((ops[e].0.clone(), *id, *notify));
                            idxs.push(e);
                        }
                        Op::Arrive { id, blocking: false, ec, .. } if starved.is_some() && exits.is_empty() => {
                            inl.push((ops[e].0.clone(), *id, *ec));
                            idxs.push(e);
                        }
                        Op::Exit { id, cmd } if starved.is_some() => {
                            exits.push((ops[e].0.clone(), *id, *cmd));
                            idxs.push(e);
                        }
                        _ => break,
                    }
                    e += 1;
                }
                if let Some(st) = starved {
                    in_burst = true;
                    let rs = do_starved(&mut c, &st, &inl, &exits).await;
                    for (i, r) in idxs.into_iter().zip(rs) {
                        results.push((i, r));
                    }
                }
                k = e;
                if k < ops.len() && matches!(ops[k].1, Op::Starve { begin: false }) {
                    end_line = Some(k);
                    k += 1;
                }
            }
            Op::Race { rounds, extra } => {
                out.config(&lines[k]);
                out.count("offreader.races");
                out.add("offreader.race_rounds", *rounds as u64);
                k += 1;
                let mut nid = 900_000_000 + (sno as u64) * 100_000;
                let before = c.sh.mw_calls.load(Ordering::SeqCst);
                let (fails, broken) = do_race(&mut c, &ops[k - 1].0, *rounds, *extra, &mut nid, retries).await;
                // the race's own requests are not op lines: keep the middleware count comparable
                dispatched += c.sh.mw_calls.load(Ordering::SeqCst) - before;
                if let Some(cc) = cap {
                    let mx = c.sh.max_gauge.load(Ordering::SeqCst);
                    if mx > (cc + orphan_base) as i64 {
                        out.oracle_fail("offreader.cap_exceeded", &format!("{}: {} handlers were running at once during a race on a connection with cap {}", ops[k - 1].0, mx, cc), &lines[..k].to_vec());
                    }
                }
                for (sig, detail) in &fails {
                    out.oracle_fail(sig, detail, &lines[..k].to_vec());
                }
                if broken {
                    ok = false;
                }
                continue;
            }
            Op::Reconnect => {
                out.config(&lines[k]);
                out.count("offreader.reconnects_with_parked_handlers");
                k += 1;
                // drop the connection without a close handshake; its handlers stay parked
                let parked: Vec<u64> = c.parked.keys().cloned().collect();
                c.orphans.extend(parked);
                c.parked.clear();
                match tokio::time::timeout(WATCHDOG, chop_connect(addr, None, chop, sno as u64 + 1000)).await {
                    Ok(Ok(ws)) => {
                        let old = std::mem::replace(&mut c.ws, ws);
                        drop(old);
                    }
                    _ => {
                        out.oracle_fail("offreader.connection", "could not open a second connection to the server", &lines[..k].to_vec());
                        ok = false;
                    }
                }
                orphan_base = c.orphans.len();
                c.sh.max_gauge.store(c.gauge(), Ordering::SeqCst);
                continue;
            }
            Op::Arrive { id, blocking, notify, ec } => {
                results.push((k, do_arrive(&mut c, &ops[k].0, *id, *blocking, *notify, *ec, retries).await));
                k += 1;
            }
            Op::Exit { id, cmd } => {
                results.push((k, do_exit(&mut c, &ops[k].0, *id, *cmd).await));
                k += 1;
            }
        }
        for (i, r) in results {
            let (idx, op) = (&ops[i].0, &ops[i].1);
            let w: Vec<&str> = r.obs.split(' ').collect();
            let kind = w.get(1).copied().unwrap_or("?");
            match op {
                Op::Arrive { blocking, notify, .. } => {
                    out.count(&format!("offreader.arrive.{}{}.{}", if *blocking { "blocking" } else { "inline" }, if *notify { "_notify" } else { "" }, kind));
                    if in_burst {
                        out.count(&format!("offreader.burst.{}", kind));
                    }
                    if kind == "admitted" || !*blocking {
                        dispatched += 1;
                    }
                    if !*blocking && !c.parked.is_empty() && cap.map(|cc| c.parked.len() >= cc).unwrap_or(false) {
                        out.count("offreader.inline_while_saturated");
                    }
                }
                Op::Exit { cmd, .. } => {
                    out.count(&format!("offreader.exit.{}", match cmd { Cmd::Ret => "ret", Cmd::Err(_) => "err", Cmd::Panic(_) => "panic" }));
                    if let Cmd::Panic(k) = cmd {
                        out.count(&format!("offreader.panic_payload.{}", ["static_str", "formatted_string", "none_unwrap", "err_expect", "index_out_of_bounds", "panic_any_u32", "assert_eq"].get(*k as usize).unwrap_or(&"other")));
                    }
                }
                _ => {}
            }
            let nontrivial = matches!(op, Op::Exit { .. }) || kind == "dropped" || (kind == "resp" && w.get(3) == Some(&"8")) || !c.parked.is_empty();
            out.case(&lines[i], &r.obs, nontrivial);
            // direct oracles on the state after the op
            let mut fails = r.fails;
            if let Some(cc) = cap {
                let mx = c.sh.max_gauge.load(Ordering::SeqCst);
                if mx > (cc + orphan_base) as i64 {
                    fails.push(("offreader.cap_exceeded".to_string(), format!("{idx}: {} handlers were running at once on a connection with cap {} ({} of them left over from dropped connections)", mx, cc, orphan_base)));
                }
            }
            if let Op::Arrive { id, blocking: true, notify: false, .. } = op {
                if kind == "resp" {
                    let (rid, rec) = (w.get(2).and_then(|x| x.parse::<u64>().ok()), w.get(3).and_then(|x| x.parse::<u32>().ok()));
                    if rid != Some(*id) || rec != Some(RESOURCE_EXHAUSTED) {
                        fails.push(("offreader.saturation.reply".to_string(), format!("{idx}: refused request {id} was answered with id {:?} ec {:?} (want its id and {})", rid, rec, RESOURCE_EXHAUSTED)));
                    }
                }
            }
            // replay = the script up to the end of this step (a burst is replayed whole)
            let upto = if in_burst { k.min(lines.len()) } else { i + 1 };
            for (sig, detail) in &fails {
                out.oracle_fail(sig, detail, &lines[..upto].to_vec());
            }
            if r.broken {
                ok = false;
            }
        }
        if let Some(e) = end_line {
            out.config(&lines[e]);
        }
    }
    // end of script: nothing may still be running if the script released everything; no stray frames
    if ok {
        for f in &c.stray {
            let sig = if c.notifies.contains(&f.h.id) { "offreader.notify_answered" } else { "offreader.unexpected_frame" };
            out.oracle_fail(sig, &format!("script {sno}: unexpected frame id {} ec {} notify {}", f.h.id, f.h.ec, f.h.notify), &lines);
        }
        if mw {
            let calls = c.sh.mw_calls.load(Ordering::SeqCst) - mw_before;
            if calls != dispatched {
                out.oracle_fail("offreader.middleware_calls", &format!("script {sno}: middleware ran {} times for {} dispatched requests", calls, dispatched), &lines);
            }
        }
    }
    // let every parked handler go so that no thread stays behind
    let gates: Vec<_> = c.sh.gates.lock().unwrap().drain().collect();
    for (_, g) in gates {
        let _ = g.send(Cmd::Ret);
    }
    *c.sh.events.lock().unwrap() = None;
    let _ = tokio::time::timeout(Duration::from_millis(500), c.ws.close(None)).await;
    drop(c);
    // wait until the server's handlers of this connection have all left (gauge back to 0)
    let srv = servers.get(&key).unwrap();
    let t0 = Instant::now();
    while srv.sh.gauge.load(Ordering::SeqCst) != 0 && t0.elapsed() < Duration::from_secs(10) {
        tokio::time::sleep(Duration::from_millis(2)).await;
    }
    if srv.sh.gauge.load(Ordering::SeqCst) != 0 {
        servers.remove(&key);
    }
    ok
}

fn main() {
    let args = Args::parse();
    THOROUGH.store(args.thorough(), Ordering::Relaxed);
    quiet_panics();
    let mut out = Out::new(&args.out);
    out.rule = "event scripts on one raw WebSocket connection per script against a real WebSocketServer: caps 1..16 and unlimited, routers with and without middleware, the four `_blocking` registrars and a hand-written erased handler with execution() = OffReader (by request id), arrivals up to 4x cap of blocking requests (1 in 5 a notify) interleaved with inline requests (some failing) and exits of random running handlers (return / error code / panic with 7 payload kinds: literal &str, formatted String, None.unwrap(), Err.expect(), index out of bounds, panic_any(u32), assert_eq!), every release order for caps 1..3 (thorough: with every assignment of exit kinds), pressure scripts (outbound queue of one slot, server on a current-thread runtime, caps 1..3): bursts of cap parked + 3..12 further blocking requests + inline requests with 48 KiB answers written to the socket in one piece and read only afterwards; a default-configured server (no with_offreader_limit); reconnect scripts (the client drops the connection while handlers are parked, opens a new one: its own cap-many slots, left-over handlers end later); hook scripts (the server's on_error Saturation hook releases parked handlers from inside a refusal and waits until they have left; the freed slots must then all be usable) and races (12-40 rounds of: fill the cap, write a burst of cap+2 further requests and release everything at the same moment); each script ends by releasing everything, admitting cap-many further requests, one refusal, and releasing again. Distinct by op line; non-trivial = an exit, a saturation reply/drop, or any event while handlers are parked".into();
    let rt = tokio::runtime::Builder::new_multi_thread().worker_threads(4).max_blocking_threads(512).enable_all().build().unwrap();
    entry_point_audit(&mut out);
    let mut rng = Rng::new(args.seed);
    let scripts: Vec<Vec<(String, Op)>> = match args.replay_ops() {
        Some(lines) => {
            let mut scripts: Vec<Vec<(String, Op)>> = Vec::new();
            for l in &lines {
                if let Some((idx, op)) = parse_op(l) {
                    if matches!(op, Op::Cap { .. }) || scripts.is_empty() {
                        scripts.push(Vec::new());
                    }
                    scripts.last_mut().unwrap().push((idx, op));
                }
            }
            scripts
        }
        None => gen_scripts(&mut rng, args.thorough()).into_iter().enumerate().map(|(s, ops)| ops.into_iter().enumerate().map(|(k, op)| (format!("{}.{}", s, k), op)).collect()).collect(),
    };
    let mut retries = 0u64;
    rt.block_on(async {
        let mut servers: HashMap<SrvKey, Srv> = HashMap::new();
        let mut broken = 0;
        for (sno, ops) in scripts.iter().enumerate() {
            if out.oracle_failures >= 12 {
                out.count("offreader.stopped_early_after_12_oracle_failures");
                break;
            }
            if !run_script(&mut out, &mut servers, sno, ops, &mut retries).await {
                broken += 1;
                if broken >= 3 {
                    out.count("offreader.stopped_early_after_broken_scripts");
                    break;
                }
            }
        }
    });
    out.add("offreader.retries_in_permit_release_window", retries);
    out.extra.insert("scripts".into(), json!(scripts.len()));
    out.finish();
    std::process::exit(0);
}
