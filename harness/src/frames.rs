//! Independent REPE v1 frame codec used as an oracle: fields at literal specification offsets,
//! nothing shared with the crate under test.

#[derive(Clone, Debug, PartialEq, Eq, Default)]
pub struct RawHeader {
    pub length: u64,
    pub spec: u16,
    pub version: u8,
    pub notify: u8,
    pub reserved: u32,
    pub id: u64,
    pub query_length: u64,
    pub body_length: u64,
    pub query_format: u16,
    pub body_format: u16,
    pub ec: u32,
}

#[derive(Clone, Debug, PartialEq, Eq, Default)]
pub struct RawFrame {
    pub h: RawHeader,
    pub query: Vec<u8>,
    pub body: Vec<u8>,
}

impl RawHeader {
    pub fn encode(&self) -> [u8; 48] {
        let mut b = [0u8; 48];
        b[0..8].copy_from_slice(&self.length.to_le_bytes());
        b[8..10].copy_from_slice(&self.spec.to_le_bytes());
        b[10] = self.version;
        b[11] = self.notify;
        b[12..16].copy_from_slice(&self.reserved.to_le_bytes());
        b[16..24].copy_from_slice(&self.id.to_le_bytes());
        b[24..32].copy_from_slice(&self.query_length.to_le_bytes());
        b[32..40].copy_from_slice(&self.body_length.to_le_bytes());
        b[40..42].copy_from_slice(&self.query_format.to_le_bytes());
        b[42..44].copy_from_slice(&self.body_format.to_le_bytes());
        b[44..48].copy_from_slice(&self.ec.to_le_bytes());
        b
    }
    pub fn parse(b: &[u8]) -> Option<RawHeader> {
        if b.len() < 48 {
            return None;
        }
        let u64at = |o: usize| u64::from_le_bytes(b[o..o + 8].try_into().unwrap());
        let u16at = |o: usize| u16::from_le_bytes(b[o..o + 2].try_into().unwrap());
        let u32at = |o: usize| u32::from_le_bytes(b[o..o + 4].try_into().unwrap());
        Some(RawHeader {
            length: u64at(0),
            spec: u16at(8),
            version: b[10],
            notify: b[11],
            reserved: u32at(12),
            id: u64at(16),
            query_length: u64at(24),
            body_length: u64at(32),
            query_format: u16at(40),
            body_format: u16at(42),
            ec: u32at(44),
        })
    }
    /// magic right and length = 48 + q + b without overflow
    pub fn consistent(&self) -> bool {
        self.spec == 0x1507
            && 48u64
                .checked_add(self.query_length)
                .and_then(|x| x.checked_add(self.body_length))
                == Some(self.length)
    }
    pub fn fields(&self) -> String {
        format!(
            "{} {} {} {} {} {} {} {} {} {} {}",
            self.length, self.spec, self.version, self.notify, self.reserved, self.id, self.query_length,
            self.body_length, self.query_format, self.body_format, self.ec
        )
    }
    pub fn of(h: &repe::Header) -> RawHeader {
        RawHeader {
            length: h.length,
            spec: h.spec,
            version: h.version,
            notify: h.notify,
            reserved: h.reserved,
            id: h.id,
            query_length: h.query_length,
            body_length: h.body_length,
            query_format: h.query_format,
            body_format: h.body_format,
            ec: h.ec,
        }
    }
    pub fn to_repe(&self) -> repe::Header {
        repe::Header {
            length: self.length,
            spec: self.spec,
            version: self.version,
            notify: self.notify,
            reserved: self.reserved,
            id: self.id,
            query_length: self.query_length,
            body_length: self.body_length,
            query_format: self.query_format,
            body_format: self.body_format,
            ec: self.ec,
        }
    }
}

impl RawFrame {
    pub fn request(id: u64, notify: bool, qfmt: u16, query: &[u8], bfmt: u16, body: &[u8]) -> RawFrame {
        RawFrame {
            h: RawHeader {
                length: 48 + query.len() as u64 + body.len() as u64,
                spec: 0x1507,
                version: 1,
                notify: notify as u8,
                reserved: 0,
                id,
                query_length: query.len() as u64,
                body_length: body.len() as u64,
                query_format: qfmt,
                body_format: bfmt,
                ec: 0,
            },
            query: query.to_vec(),
            body: body.to_vec(),
        }
    }
    pub fn to_vec(&self) -> Vec<u8> {
        let mut v = Vec::with_capacity(48 + self.query.len() + self.body.len());
        v.extend_from_slice(&self.h.encode());
        v.extend_from_slice(&self.query);
        v.extend_from_slice(&self.body);
        v
    }
    /// Parse one whole frame from the front of `b`; `None` if `b` does not start with a whole
    /// consistent frame. Returns the frame and the number of bytes consumed.
    pub fn parse_prefix(b: &[u8]) -> Option<(RawFrame, usize)> {
        let h = RawHeader::parse(b)?;
        if !h.consistent() {
            return None;
        }
        let total = usize::try_from(h.length).ok()?;
        if b.len() < total {
            return None;
        }
        let q = h.query_length as usize;
        Some((RawFrame { query: b[48..48 + q].to_vec(), body: b[48 + q..total].to_vec(), h }, total))
    }
    /// Split a byte stream into whole frames and an unparsed tail.
    pub fn split_stream(mut b: &[u8]) -> (Vec<RawFrame>, Vec<u8>) {
        let mut out = Vec::new();
        while let Some((f, n)) = RawFrame::parse_prefix(b) {
            out.push(f);
            b = &b[n..];
        }
        (out, b.to_vec())
    }
}
