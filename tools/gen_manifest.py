#!/usr/bin/env python3
"""Regenerate MANIFEST.json from config/C*.py (claimed) and config/not_applicable.json (unclaimed)."""
import json, os, sys
ROOT = os.path.dirname(os.path.dirname(os.path.abspath(__file__)))
sys.path.insert(0, ROOT)
from checks_config import PROPS
ids = [f"C{n:02d}" for n in range(1, 20)]
na = json.load(open(os.path.join(ROOT, "config", "not_applicable.json")))
checks = []
for pid in ids:
    if pid not in PROPS or pid in na.get("hold", []):
        continue
    m = PROPS[pid]["manifest"]
    checks.append({"property_id": pid, "quick_cmd": f"./check {pid} quick", "thorough_cmd": f"./check {pid} thorough",
                   "evidence_file": f"evidence/{pid}.json", "replay_cmd_template": f"./check {pid} --replay {{path}}",
                   "engine": "lean4+correspondence",
                   "level_claimed": {"category": "proof", "text": m["text"], "design_ref": f"DESIGN.md §6 {pid}"},
                   "level_note": m["note"], "technique": m["technique"]})
claimed = {c["property_id"] for c in checks}
hooks_commits = na.get("hook_commits", [])
man = {"version": 1, "setup_cmd": "./setup.sh",
       "hooks": {"guard": "cargo feature verif-hooks",
                 "enable": "harness feature `hooks` => repe/verif-hooks (cargo build --features hooks); checks fall back to hooks-off if the tree does not build with it",
                 "baseline_off_cmd": "cd /repo && cargo test --workspace --no-fail-fast --offline",
                 "source_commits": hooks_commits, "add_only": True},
       "engines": [{"name": "lean4+correspondence", "path": "check", "serves_properties": sorted(claimed),
                    "kind_free_text": "Lean 4 theorems about executable models (lean/), facts regenerated from /repo (extract/), differential correspondence harness (harness/) driven by ./check"}],
       "checks": checks,
       "not_applicable": [{"property_id": i, "reason": na["reasons"].get(i, na["default_reason"])} for i in ids if i not in claimed],
       "notes": "See DESIGN.md. Fixed defects and known findings are recorded in known_findings.json."}
json.dump(man, open(os.path.join(ROOT, "MANIFEST.json"), "w"), indent=1)
print("claimed:", " ".join(sorted(claimed)))
