#!/bin/bash
# tools/run_all.sh <quick|thorough> [ids…] : run the registered checks one after another, print one status line each.
TIER=${1:-quick}; shift
IDS=${@:-C01 C02 C03 C04 C05 C06 C07 C08 C09 C10 C11 C12 C13 C14 C15 C16 C17 C18 C19}
cd "$(dirname "$0")/.."
for P in $IDS; do
  S=$(date +%s)
  OUT=$(./check $P $TIER 2>/dev/null | grep -E "^(OK|VIOLATION|KNOWN-FINDING)" | head -5 | tr '\n' '|')
  echo "$P rc=$? secs=$(( $(date +%s) - S )) $OUT"
done
