"""Extractor trials for extract/wire.py (audit item 6): applies plausible harmless (H*) and dangerous (D*) rewrites to a scratch\nworktree of /repo (SCRATCH_REPO) one at a time and prints which facts change. Harmless ones must leave the facts that theorems\nread unchanged (or a still-accepted value); dangerous ones must produce a pessimistic fact. X* = not locatable -> group default."""
import subprocess, json, os, sys
REPO=os.environ.get("SCRATCH_REPO", "/tmp/agents/wire/repoX"); V=os.path.dirname(os.path.dirname(os.path.abspath(__file__)))
def facts():
    env=dict(os.environ, VERIF_REPO=REPO)
    p=subprocess.run([sys.executable,"-c","import json,wire; print(json.dumps(wire.extract()))"],cwd=V+"/extract",env=env,capture_output=True,text=True)
    if p.returncode!=0: return {"_error": p.stderr.strip().split("\n")[-1]}
    return json.loads(p.stdout)
base=facts()
T=[
 ("H1 magic operands swapped","src/header.rs","if spec != REPE_SPEC {","if REPE_SPEC != spec {"),
 ("H2 short-input test flipped","src/header.rs","if input.len() < HEADER_SIZE {","if HEADER_SIZE > input.len() {"),
 ("H3 length test operands swapped","src/header.rs","if expected != Some(length) {","if Some(length) != expected {"),
 ("D1 magic test on bytes with &&","src/header.rs","if spec != REPE_SPEC {","if input[8] != 0x07 && input[9] != 0x15 {"),
 ("D2 length test is_some_and","src/header.rs","if expected != Some(length) {","if expected.is_some_and(|e| e != length) {"),
 ("D3 decode normalises notify in the struct literal","src/header.rs","            notify,\n            reserved,","            notify: (notify != 0) as u8,\n            reserved,"),
 ("D3b decode let notify normalised","src/header.rs","let notify = input[o];","let notify = u8::from(input[o] != 0);"),
 ("H4 buffer test flipped (owned)","src/message.rs","        if buf.len() < expected {\n            return Err(RepeError::BufferTooSmall {\n                need: expected,\n                have: buf.len(),\n            });\n        }\n        let mut o","        if expected > buf.len() {\n            return Err(RepeError::BufferTooSmall {\n                need: expected,\n                have: buf.len(),\n            });\n        }\n        let mut o"),
 ("D4 buffer test off by one (owned)","src/message.rs","        if buf.len() < expected {\n            return Err(RepeError::BufferTooSmall {\n                need: expected,\n                have: buf.len(),\n            });\n        }\n        let mut o","        if buf.len() + 1 < expected {\n            return Err(RepeError::BufferTooSmall {\n                need: expected,\n                have: buf.len(),\n            });\n        }\n        let mut o"),
 ("D5 view body = rest of buffer","src/message.rs","body: &buf[q_end..b_end],","body: &buf[q_end..],"),
 ("D6 exact test weakened to <","src/message.rs","        let view = Self::from_slice(buf)?;\n        let expected = HEADER_SIZE + view.query.len() + view.body.len();\n        if buf.len() != expected {","        let view = Self::from_slice(buf)?;\n        let expected = HEADER_SIZE + view.query.len() + view.body.len();\n        if buf.len() < expected {"),
 ("H5 write_to without the query guard","src/message.rs","        if !self.query.is_empty() {\n            w.write_all(&self.query)?;\n        }","        w.write_all(&self.query)?;"),
 ("D7 write_to body before query","src/message.rs","        if !self.query.is_empty() {\n            w.write_all(&self.query)?;\n        }\n        if !self.body.is_empty() {\n            w.write_all(&self.body)?;\n        }","        if !self.body.is_empty() {\n            w.write_all(&self.body)?;\n        }\n        if !self.query.is_empty() {\n            w.write_all(&self.query)?;\n        }"),
 ("D8 write_message extra vectored write","src/io.rs","    let header_bytes = msg.header.encode();\n    w.write_all(&header_bytes)?;","    let header_bytes = msg.header.encode();\n    let _n = w.write_vectored(&[std::io::IoSlice::new(&header_bytes)])?;\n    w.write_all(&header_bytes)?;"),
 ("H6 capacity test flipped","src/message.rs","if body.capacity() >= total {","if total <= body.capacity() {"),
 ("H7 capacity test strict (same bytes either branch)","src/message.rs","if body.capacity() >= total {","if body.capacity() > total {"),
 ("D10 in-place: header written before the shift","src/message.rs","            if body_len > 0 {\n                body.copy_within(0..body_len, prefix_len);\n            }\n            body[..HEADER_SIZE].copy_from_slice(&header.encode());","            body[..HEADER_SIZE].copy_from_slice(&header.encode());\n            if body_len > 0 {\n                body.copy_within(0..body_len, prefix_len);\n            }"),
 ("D11 streaming: query_length patched only for a non-empty query","src/io.rs","    header.query_length = query.len() as u64;\n    header.body_length = body_len;","    if !query.is_empty() { header.query_length = query.len() as u64; }\n    header.body_length = body_len;"),
 ("D12 stamp skips error responses","src/message.rs","if request_query.is_empty() || !response.query.is_empty() {","if request_query.is_empty() || !response.query.is_empty() || response.header.ec != 0 {"),
 ("D13 async server timeout branch frames with view.query","src/async_server.rs","match timeout(dur, write_view_response(&mut writer, &resp, echo)).await","match timeout(dur, write_view_response(&mut writer, &resp, view.query)).await"),
 ("D14 ws server parses with the lenient twin","src/websocket_server.rs","let view = MessageView::from_slice_exact(&payload)?;","let view = MessageView::from_slice(&payload)?;"),
 ("D15 read_message_into grow-only","src/io.rs","    buf.resize(total, 0);\n    read_exact(r, &mut buf[HEADER_SIZE..total])?;","    if buf.len() < total { buf.resize(total, 0); }\n    read_exact(r, &mut buf[HEADER_SIZE..total])?;"),
 ("D16 read_exact: EOF is Ok","src/io.rs","        if n == 0 {\n            return Err(RepeError::Io(std::io::Error::from(\n                std::io::ErrorKind::UnexpectedEof,\n            )));\n        }","        if n == 0 {\n            return Ok(());\n        }"),
 ("H8 read_message header buffer renamed","src/io.rs","hdr_buf","header_bytes"),
 ("H9 comment added in build","src/message.rs","        header.id = self.id;\n","        // the caller's id\n        header.id = self.id;\n"),
 ("D17 builder forgets body_length","src/message.rs","        header.body_length = self.body.len() as u64;\n        header.length","        header.length"),
 ("D18 header sum unchecked","src/header.rs","        let expected = (HEADER_SIZE as u64)\n            .checked_add(query_length)\n            .and_then(|n| n.checked_add(body_length));\n        if expected != Some(length) {","        let expected = HEADER_SIZE as u64 + query_length + body_length;\n        if expected != length {"),
 ("D19 reader allocates infallibly","src/io.rs","    let mut query = zeroed_vec(header.query_length as usize)?;","    let mut query = vec![0u8; header.query_length as usize];"),
 ("H10 blocking read loop: braces around the return","src/server.rs","            Err(e) => return Err(e),\n        }\n        let view = MessageView::from_slice(&buf)?;","            Err(e) => {\n                return Err(e);\n            }\n        }\n        let view = MessageView::from_slice(&buf)?;"),
 ("H11 async read loop: named elapsed value","src/async_server.rs","                Ok(r) => r?,\n                Err(_) => return Ok(()),","                Ok(r) => r?,\n                Err(_elapsed) => return Ok(()),"),
 ("H12 blocking read loop: comment added","src/server.rs","            Ok(()) => {}\n            Err(RepeError::Io(ref e)) if e.kind() == std::io::ErrorKind::UnexpectedEof => break,","            Ok(()) => {}\n            // peer closed between frames\n            Err(RepeError::Io(ref e)) if e.kind() == std::io::ErrorKind::UnexpectedEof => break,"),
 ("D20 blocking read loop continues after a read timeout (seed C02-P)","src/server.rs","            Err(e) => return Err(e),\n        }\n        let view = MessageView::from_slice(&buf)?;","            Err(RepeError::Io(ref e)) if matches!(e.kind(), std::io::ErrorKind::WouldBlock | std::io::ErrorKind::TimedOut) => continue,\n            Err(e) => return Err(e),\n        }\n        let view = MessageView::from_slice(&buf)?;"),
 ("D21 async read loop continues after its timeout","src/async_server.rs","                Err(_) => return Ok(()),","                Err(_) => continue,"),
 ("D22 blocking read loop logs and continues on any error","src/server.rs","            Err(e) => return Err(e),\n        }\n        let view = MessageView::from_slice(&buf)?;","            Err(e) => {\n                eprintln!(\"read failed: {e}\");\n                continue;\n            }\n        }\n        let view = MessageView::from_slice(&buf)?;"),
 ("X1 function renamed (not locatable)","src/message.rs","pub(crate) fn stamp_response_query(","pub(crate) fn stamp_query_into_response("),
]
for name,f,old,new in T:
    p=os.path.join(REPO,f); src=open(p).read()
    if old not in src: print(f"!! {name}: pattern not found"); continue
    open(p,"w").write(src.replace(old,new) if name.startswith("H8") else src.replace(old,new,1))
    got=facts()
    open(p,"w").write(src)
    diff={k:(got.get(k)) for k in set(base)|set(got) if base.get(k)!=got.get(k)}
    print(f"{name}: {diff if diff else 'facts unchanged'}")
