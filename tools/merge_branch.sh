#!/bin/bash
# tools/merge_branch.sh <fam-branch> <Cxx>... : merge a builder branch, regenerate Gen + manifest, run the quick checks, commit.
B=$1; shift
cd "$(dirname "$0")/.."
git merge --no-edit $B 2>&1 | tail -1
python3 tools/regen_gen.py; python3 tools/gen_manifest.py >/dev/null
for P in "$@"; do ./check $P quick 2>/dev/null | grep -E "^(OK|VIOLATION|KNOWN)" | head -3; done
git add -A; git commit -qm "Merge $B (deepening / follow-up): $*" 
