#!/usr/bin/env python3
"""Rewrite extract/defaults/*.lean (and lean/RepeVerif/Gen/*.lean) from the current /repo. Run after a fix: commit."""
import glob, importlib, os, sys
ROOT = os.path.dirname(os.path.dirname(os.path.abspath(__file__)))
sys.path.insert(0, os.path.join(ROOT, "extract"))
for p in sorted(glob.glob(os.path.join(ROOT, "extract", "*.py"))):
    name = os.path.basename(p)[:-3]
    if name == "rustlex":
        continue
    m = importlib.import_module(name)
    if not hasattr(m, "GEN_FILE"):
        continue
    try:
        text = m.render(m.extract())
    except Exception as e:
        print(name, "EXTRACTION FAILED:", e)
        continue
    for tgt in (os.path.join(ROOT, "extract", "defaults", m.GEN_FILE), os.path.join(ROOT, "lean", "RepeVerif", "Gen", m.GEN_FILE)):
        old = open(tgt).read() if os.path.exists(tgt) else None
        if old != text:
            open(tgt, "w").write(text)
            print("updated", os.path.relpath(tgt, ROOT))
