#!/bin/bash
# tools/seed_verify.sh <property> <dir-with-patch.diff-and-demo.rs> [features]
# Confirms a seeded change independently: applies patch.diff to a scratch worktree of /repo, checks it builds and the
# existing suite passes, that demo.rs (an integration test) FAILS with the change and PASSES without it, then runs
# ./check <property> quick against the changed tree and records everything in <dir>/meta.verify.json.
set -u
PROP=$1; DIR=$(realpath "$2"); FEAT=${3:-websocket,value-stream}
WT=/tmp/seedverify/$PROP-$$; mkdir -p /tmp/seedverify
git -C /repo worktree add -q "$WT" HEAD || exit 2
cleanup() { git -C /repo worktree remove --force "$WT" >/dev/null 2>&1; rm -rf "$WT"; }
trap cleanup EXIT
cd "$WT"
cp "$DIR/demo.rs" tests/seed_demo.rs
export CARGO_INCREMENTAL=0 CARGO_PROFILE_DEV_DEBUG=0 CARGO_PROFILE_TEST_DEBUG=0 CARGO_NET_OFFLINE=true CARGO_TARGET_DIR=/tmp/seedverify/target-${SEED_WORKER:-0}
run_demo() { timeout 600 cargo test --offline --features "$FEAT" --test seed_demo >"$1" 2>&1; echo $?; }
DEMO_CLEAN=$(run_demo "$DIR/demo_clean.log")
if ! git apply "$DIR/patch.diff" 2>/dev/null && ! git apply -3 "$DIR/patch.diff"; then echo '{"applies": false}' > "$DIR/meta.verify.json"; exit 1; fi
timeout 900 cargo build --offline --features "$FEAT" >"$DIR/build.log" 2>&1; BUILD=$?
DEMO_MUT=$(run_demo "$DIR/demo_mutant.log")
rm -f tests/seed_demo.rs
timeout 1500 cargo test --workspace --no-fail-fast --offline >"$DIR/suite.log" 2>&1; SUITE=$?
PASSED=$(grep -E "^test result" "$DIR/suite.log" | awk '{s+=$4; f+=$6} END {print s" "f}')
cd /verif
START=$(date +%s)
VERIF_REPO="$WT" timeout 1500 ./check "$PROP" quick >"$DIR/check.log" 2>"$DIR/check.err"; CHECK=$?
END=$(date +%s)
VIOL=$(grep -c "^VIOLATION" "$DIR/check.log")
NOINPUT=$(grep -c "no-failing-input-found" "$DIR/check.log")
python3 - "$DIR" "$PROP" "$BUILD" "$SUITE" "$PASSED" "$DEMO_CLEAN" "$DEMO_MUT" "$CHECK" "$VIOL" "$NOINPUT" $((END-START)) <<'PY'
import json, sys
d, prop, build, suite, passed, dc, dm, chk, viol, noinput, secs = sys.argv[1:12]
p, f = (passed.split() + ["0", "0"])[:2]
json.dump({"property": prop, "applies": True, "build_rc": int(build), "suite_rc": int(suite), "suite_passed": int(p or 0), "suite_failed": int(f or 0),
           "demo_rc_clean_tree": int(dc), "demo_rc_changed_tree": int(dm),
           "valid_seed": int(build) == 0 and int(suite) == 0 and int(dc) == 0 and int(dm) != 0,
           "check_rc": int(chk), "check_violation_lines": int(viol), "check_no_failing_input_lines": int(noinput),
           "caught": int(chk) == 1 and int(viol) > 0, "check_wall_s": int(secs),
           "ran": ["git apply patch.diff", "cargo build --offline --features F", "cargo test --workspace --no-fail-fast --offline",
                   "cargo test --test seed_demo (clean tree, changed tree)", f"VERIF_REPO=<changed tree> ./check {prop} quick"]},
          open(d + "/meta.verify.json", "w"), indent=1)
print(open(d + "/meta.verify.json").read())
PY
