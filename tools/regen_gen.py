#!/usr/bin/env python3
"""Rewrite lean/RepeVerif/Gen/*.lean from /repo (used after a scratch-repo run so the checkout never keeps facts of a changed tree)."""
import glob, importlib, os, sys
os.environ.pop("VERIF_REPO", None)
ROOT = os.path.dirname(os.path.dirname(os.path.abspath(__file__)))
sys.path.insert(0, os.path.join(ROOT, "extract"))
for p in sorted(glob.glob(os.path.join(ROOT, "extract", "*.py"))):
    name = os.path.basename(p)[:-3]
    if name == "rustlex":
        continue
    m = importlib.import_module(name)
    if not hasattr(m, "GEN_FILE"):
        continue
    try:
        text = m.render(m.extract())
    except Exception:
        text = open(os.path.join(ROOT, "extract", "defaults", m.GEN_FILE)).read()
    tgt = os.path.join(ROOT, "lean", "RepeVerif", "Gen", m.GEN_FILE)
    if not os.path.exists(tgt) or open(tgt).read() != text:
        open(tgt, "w").write(text)
