#!/usr/bin/env python3
"""Build seeded/<id>-<X>/meta.json from README.md + meta.verify.json, and print the DESIGN.md §14 table."""
import glob, json, os, re, sys
ROOT = os.path.dirname(os.path.dirname(os.path.abspath(__file__)))
rows = []
for d in sorted(glob.glob(os.path.join(ROOT, "seeded", "C*-*"))):
    name = os.path.basename(d)
    mv = os.path.join(d, "meta.verify.json")
    if not os.path.exists(mv):
        continue
    v = json.load(open(mv))
    readme = open(os.path.join(d, "README.md"), errors="replace").read() if os.path.exists(os.path.join(d, "README.md")) else ""
    files = sorted(set(re.findall(r"^\+\+\+ b/(\S+)", open(os.path.join(d, "patch.diff")).read(), re.M)))
    # first substantive README lines as the description
    lines = [l.strip(" #*-") for l in readme.split("\n") if l.strip(" #*-")]
    what = " ".join(lines[:3])[:420]
    needs = ""
    m = re.search(r"(?is)(needs?|manifest\w*)\b[^\n]*\n?(.{0,500})", readme)
    if m:
        needs = " ".join(m.group(0).split())[:420]
    sigs = []
    log = os.path.join(d, "check.err")
    if os.path.exists(log):
        for l in open(log, errors="replace"):
            m2 = re.match(r"\s+(\S+) - ", l)
            if m2 and m2.group(1) not in sigs:
                sigs.append(m2.group(1))
    caught = bool(v.get("caught"))
    only_noinput = caught and v.get("check_no_failing_input_lines", 0) >= v.get("check_violation_lines", 0)
    meta = {"property": v.get("property"), "seed": name, "files_changed": files, "what_it_breaks": what, "needs_to_manifest": needs,
            "confirmed": {k: v.get(k) for k in ("applies", "build_rc", "suite_rc", "suite_passed", "suite_failed", "demo_rc_clean_tree", "demo_rc_changed_tree", "valid_seed")},
            "check": {"cmd": f"VERIF_REPO=<changed tree> ./check {v.get('property')} quick", "rc": v.get("check_rc"), "caught": caught,
                      "with_failing_input": caught and not only_noinput, "signatures": sigs[:8], "wall_s": v.get("check_wall_s")},
            "ran": v.get("ran")}
    json.dump(meta, open(os.path.join(d, "meta.json"), "w"), indent=1)
    rows.append((name, ", ".join(os.path.basename(f) for f in files), v.get("valid_seed"), caught, only_noinput, sigs[:3]))
print("| seed | files | confirmed | caught by `./check` quick | how |")
print("|---|---|---|---|---|")
for name, files, valid, caught, noinp, sigs in rows:
    how = ("`no-failing-input-found` (proof/correspondence broken)" if noinp else "failing input; " + ", ".join(f"`{s}`" for s in sigs)) if caught else "—"
    print(f"| {name} | {files} | {'yes' if valid else 'NO'} | {'**yes**' if caught else '**MISSED**'} | {how} |")
n = len(rows); c = sum(1 for r in rows if r[3])
print(f"\n{c} of {n} confirmed seeds caught by the quick tier.")
