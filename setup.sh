#!/bin/bash
# MANIFEST.setup_cmd: build the Lean project (all property theorems + model executables) and the
# harness (against /repo's current tree), offline, from files on disk only.
set -e
cd "$(dirname "$0")"
export CARGO_NET_OFFLINE=true
mkdir -p .build evidence replays
python3 - <<'PY'
import sys, os, importlib
sys.path.insert(0, "extract"); sys.path.insert(0, ".")
from checks_config import PROPS
done = set()
for p in PROPS.values():
    for g in p.get("gens", []):
        if g in done: continue
        done.add(g)
        m = importlib.import_module(g)
        try: text = m.render(m.extract())
        except Exception as e:
            print("extract", g, "fell back to defaults:", e); text = open("extract/defaults/" + m.GEN_FILE).read()
        tgt = "lean/RepeVerif/Gen/" + m.GEN_FILE
        if not os.path.exists(tgt) or open(tgt).read() != text: open(tgt, "w").write(text)
PY
TARGETS=$(python3 -c "
import sys; sys.path.insert(0,'.')
from checks_config import PROPS
t=set()
for p in PROPS.values():
    t.add(p['props_module']); t.update(p.get('exes',[]))
print(' '.join(sorted(t)))")
(cd lean && lake build $TARGETS)
BINS=$(python3 -c "
import sys; sys.path.insert(0,'.')
from checks_config import PROPS
b=set()
for p in PROPS.values():
    for r in p['runs']: b.add(r['bin'])
print(' '.join('--bin '+x for x in sorted(b)))")
FEAT=""
if grep -q verif-hooks /repo/Cargo.toml; then FEAT="--features hooks"; fi
(cd harness && CARGO_TARGET_DIR=../.build/cargo cargo build --offline $BINS $FEAT)
echo "setup ok"
