-- This module serves as the root of the `RepeVerif` library.
-- Import modules here that should be built as part of the library.
import RepeVerif.Basic
