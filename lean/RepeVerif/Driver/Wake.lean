import RepeVerif.Model.Condvar
import RepeVerif.Gen.Wake
import RepeVerif.Driver.Common
/-!
Driver for the `wake` correspondence family (C12).

Op lines (every field one word):

    wake <idx> <credit|reconnect> <len> <window> setup=<op,…|-> thr=<op,…>/<op,…>/… order=<t.t.…|-> got=<status> fin=<sent>:<acked>:<0|1>
    tmo  <idx> … same …                       (short deadline: the deadline test may answer either way)
    imm  <idx> … same …                       (deadline already passed at entry: the test answers yes)
    race <idx> … same as wake …               (a fast entry-race round)
    sq   <idx> … same …                       (like tmo: one wait of a sequence of waits on one control; earlier
                                               waits of the sequence timed out, which changes nothing)
    trk  <idx> … same …                       (like tmo; `thr` = the trickle of non-enabling ops that ran)

ops: `sent:N  ack:F:OFF  cancel:R  adv:F  res:F:OFF  push:OFF:LEN`;
status: `ok | cancelled:R | resume:OFF | timeout | parked`.

`setup` is run on `TransferControl::new(window)` before the waiter starts; `thr` are the op sequences
of the signalling threads; `order` (when the harness serialised the signalling threads and therefore
knows the linearisation) lists the thread index of each op in the order they ran; `got` is what the real
waiter did, `fin` the real `offsets()`/`is_cancelled()` after all ops.  The driver explores every
interleaving of the model (instantiated with the extracted facts) and answers

    <idx> <status> <fin>                                   if (status, fin) is an admissible end state
    <idx> NOT-ADMISSIBLE got=… fin=… admissible=…          otherwise

The harness prints `<idx> <status> <fin>`, so a line differs exactly when the real waiter did
something no interleaving of the model allows (or the model's `applyOp` computes a different state).
-/
namespace Repe.Driver.Wake
open Repe Repe.Driver Repe.Condvar

def natOf? (s : String) : Option Nat := s.toNat?

def parseOp (w : String) : Option Op :=
  match w.splitOn ":" with
  | ["sent", n] => (natOf? n).map Op.sent
  | ["ack", f, o] => do pure (Op.ack (← natOf? f) (← natOf? o))
  | ["cancel", r] => (natOf? r).map Op.cancel
  | ["adv", f] => (natOf? f).map Op.advance
  | ["res", f, o] => do pure (Op.resume (← natOf? f) (← natOf? o))
  | ["push", o, l] => do pure (Op.push (← natOf? o) (← natOf? l))
  | ["q", k] => (natOf? k).map fun _ => Op.nop          -- a read-only call
  | ["peer", p] => (natOf? p).map fun _ => Op.nop       -- set_peer
  | _ => none

def parseOps (s : String) : Option (List Op) :=
  if s = "-" || s = "" then some [] else (s.splitOn ",").mapM parseOp

/-- setup may contain earlier waits of the same control: `take` / `w:r` = a reconnect wait (consumes the
staged resume unless cancelled: `none`), `w:c<len>` = a credit wait (changes nothing: dropped). -/
def parseSetup (s : String) : Option (List (Option Op)) :=
  if s = "-" || s = "" then some []
  else ((s.splitOn ",").filter fun w => !w.startsWith "w:c").mapM fun w =>
    if w = "take" || w = "w:r" then some none else (parseOp w).map some

def parseThreads (s : String) : Option (List (List Op)) :=
  if s = "-" then some [] else (s.splitOn "/").mapM parseOps

def parseOrder (s : String) : Option (Option (List Nat)) :=
  -- `d<ms>[s]`: a scripted deadline recorded for the replay (no linearisation)
  if s = "-" || s.startsWith "d" then some none else ((s.splitOn ".").mapM natOf?).map some

def field (key w : String) : Option String :=
  if w.startsWith (key ++ "=") then some (w.drop (key.length + 1)).toString else none

/-- Pop the ops in the recorded linearisation order. -/
def linearise : List (List Op) → List Nat → Option (List Op)
  | thr, [] => if thr.all (·.isEmpty) then some [] else none
  | thr, t :: rest =>
    match thr[t]? with
    | some (o :: os) => (linearise (thr.set t os) rest).map (o :: ·)
    | _ => none

def showStatus : PC → String
  | .returned .ok => "ok"
  | .returned (.cancelled r) => s!"cancelled:{r}"
  | .returned (.resume off) => s!"resume:{off}"
  | .returned .timeout => "timeout"
  | .parked => "parked"
  | .start => "start"
  | .checking => "checking"
  | .woken => "woken"
  | .preparking => "preparking"

def showFin (s : Sh) : String := s!"{s.sent}:{s.acked}:{if s.cancelled.isSome then 1 else 0}"

def dedup (xs : List String) : List String := xs.foldl (fun acc x => if acc.contains x then acc else acc ++ [x]) []

def answer (idx : String) (expireds : List Bool) (kind len win setup thr order got fin : String) : String :=
  let k? : Option Kind :=
    if kind = "credit" then (natOf? len).map Kind.credit else if kind = "reconnect" then some .reconnect else none
  -- `<window>` or `<window>/<replay capacity>` (the capacity is not a parameter of the model)
  match k?, natOf? ((win.splitOn "/").headD ""), parseSetup setup, parseThreads thr, parseOrder order with
  | some k, some w, some su, some th, some ord =>
    let s0 := su.foldl (fun s o => match o with
      | some op => (applyOp Gen.Wake.cfg.tbl op s).1
      | none => if s.cancelled.isSome then s else { s with pending := none }) (Sh.new w)
    let th? : Option (List (List Op)) :=
      match ord with
      | none => some th
      | some o => (linearise th o).map fun l => [l]
    match th? with
    | none => idx ++ " bad-op"
    | some th =>
      let outs := (outcomes Gen.Wake.cfg k expireds (St.init s0) th).map fun (pc, sh) => showStatus pc ++ " " ++ showFin sh
      let mine := got ++ " " ++ fin
      if outs.contains mine then idx ++ " " ++ mine
      else idx ++ " NOT-ADMISSIBLE got=" ++ got ++ " fin=" ++ fin ++ " admissible=" ++ "|".intercalate (dedup outs)
  | _, _, _, _, _ => idx ++ " bad-op"

/-- `multi <idx> <window> kinds=c4,c7,r setup=… thr=…` (ops in the order one signaller ran them):
which waiters are obliged to have returned in the final state (credit waiters whose condition holds; with a
cancel everybody), whether a resume is staged, the final offsets. -/
def multiAnswer (idx win kinds su th : String) : String :=
  let kind? (w : String) : Option Kind :=
    if w = "r" then some .reconnect
    else if w.startsWith "c" then (natOf? (w.drop 1).toString).map Kind.credit else none
  match natOf? win, (kinds.splitOn ",").mapM kind?, parseOps su, parseOps th with
  | some w, some ks, some su, some th =>
    let s0 := su.foldl (fun s o => (applyOp Gen.Wake.cfg.tbl o s).1) (Sh.new w)
    -- the n-waiter model: everybody parks, then the ops run
    let kf : Nat → Kind := fun i => ks.getD i .reconnect
    let park : List MEv := (List.range ks.length).flatMap fun i => [MEv.lock i, MEv.check i false]
    let st := mrun Gen.Wake.cfg kf (MSt.init s0) (park ++ th.map fun o => MEv.op o 0)
    let sh := st.sh
    let must := (List.range ks.length).filter fun i =>
      match kf i with
      | .credit len => pred (.credit len) sh
      | .reconnect => sh.cancelled.isSome
    -- model-side sanity: nobody obliged to return is still parked (the theorem, evaluated)
    let lost := must.filter fun i => st.pc i == .parked
    let mustS := if must.isEmpty then "-" else ",".intercalate (must.map toString)
    let base := s!"{idx} must={mustS} cancelled={if sh.cancelled.isSome then 1 else 0} pending={if sh.pending.isSome then 1 else 0} fin={showFin sh}"
    if lost.isEmpty then base else base ++ " MODEL-LOST-WAKEUP " ++ ",".intercalate (lost.map toString)
  | _, _, _, _ => idx ++ " bad-op"

def step (st : Unit) (ws : List String) : Unit × String :=
  match ws with
  | ["multi", idx, win, kinds, su, th] =>
    match field "kinds" kinds, field "setup" su, field "thr" th with
    | some k, some su, some th => (st, multiAnswer idx win k su th)
    | _, _, _ => (st, idx ++ " bad-op")
  | [cmd, idx, kind, len, win, su, th, ord, got, fin] =>
    if cmd = "wake" ∨ cmd = "race" ∨ cmd = "tmo" ∨ cmd = "imm" ∨ cmd = "trk" ∨ cmd = "sq" then
      match field "setup" su, field "thr" th, field "order" ord, field "got" got, field "fin" fin with
      | some su, some th, some ord, some got, some fin =>
        (st, answer idx (if cmd = "wake" ∨ cmd = "race" then [false] else if cmd = "imm" then [true] else [false, true]) kind len win su th ord got fin)
      | _, _, _, _, _ => (st, idx ++ " bad-op")
    else (st, idx ++ " bad-op")
  | _ :: idx :: _ => (st, idx ++ " bad-op")
  | _ => (st, "bad-op")

end Repe.Driver.Wake

def main : IO Unit := Repe.Driver.loop Repe.Driver.Wake.step ()
