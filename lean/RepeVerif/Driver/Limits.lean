import RepeVerif.Model.Limits
import RepeVerif.Gen.Limits
import RepeVerif.Driver.Common
/-!
Driver for the `limits` correspondence family (C17).  Lengths only (frames of up to 16 MiB are
described, not materialised): the decision functions `decideOutbound` / `checkOutbound` that the
model's `frameOutbound` / `clientWrite` are defined through are run on the recorded lengths, with the
facts of `Gen.limitFacts`.

  frame  <idx> <path> <limits N|-|u|d> <notify N> <id N> <qlen N> <blen N> <rlen N>
      -> <idx> send <len> same | <idx> send <len> replaced <ec> <id> | <idx> drop   ; report <size> <limit> | report -
  client <idx> <call|notify> <limits N|-|u|d> <id N> <qlen N> <blen N>
      -> <idx> ok wire <len> | <idx> MessageTooLarge <size> <limit> wire <len|->
`rlen` is the length of the replacement's message text as recorded from the implementation (a
parameter of the model).  `path = proxy` has no error hooks, so no report is observable there.
-/
namespace Repe.Driver.Limits
open Repe Repe.Driver

/-- The limits expression a world was built with (`d` = none given, `u` = `unlimited()`, `-` =
`default().with_assumed_peer_frame_limit(None)`, `N` = `…(Some(N))`), evaluated for the endpoint with
the construction facts read off the source. -/
def limitOfEp (ep : Endpoint) (s : String) : Option (Option Nat) :=
  let c := Gen.configFacts
  if s = "d" then some (effectiveLimit c ep none)
  else if s = "u" then some (effectiveLimit c ep (some .unlimited))
  else if s = "-" then some (effectiveLimit c ep (some (.assumed .dflt none)))
  else
    let optOf (x : String) : Option (Option Nat) := if x = "-" then some none else x.toNat?.map some
    -- (an optional 4th element, the server's outbound queue capacity, is not part of the model)
    match (s.splitOn ",").take 3 with
    | [a, fr, ms] =>
      -- `N,F,M`: default().with_max_incoming_frame_size(F).with_max_incoming_message_size(M).with_assumed…(N)
      match optOf a, optOf fr, optOf ms with
      | some a, some fr, some ms =>
        some (effectiveLimit c ep (some (.assumed (.lit { (defaultLimits c) with maxIncomingFrame := fr, maxIncomingMessage := ms }) a)))
      | _, _, _ => none
    | _ => s.toNat?.map fun n => effectiveLimit c ep (some (.assumed .dflt (some n)))

def paths : List String := ["inline", "off", "joff", "push", "pushoff", "pushn", "pushrun", "bcast", "bcastj", "bcastu", "bcastm", "proxy"]

/-- the client API used (all funnel into `write_request`; which one is not part of the model) -/
def clientKinds : List String := ["call", "notify", "cjson", "cjsont", "ctyped", "cbeve", "rwrite", "njson", "nbeve", "batch", "batchrun",
  "cfmtt", "ctypedt", "cbevet", "cmsg", "cmsgt", "rread", "rreadt", "rreadty", "rreadtyt", "rcall", "ntyped", "batcht"]

/-- how many identical messages the op queues: a broadcast once per registered peer (the harness keeps two),
`pushrun` / `batchrun` a run whose length is read off the id -/
def copiesOf (kind : String) (id : Nat) : Nat :=
  if kind = "bcastm" then 14   -- the world with twelve further registered peers
  else if kind.startsWith "bcast" then 2
  else if kind = "pushrun" || kind = "batchrun" then [2, 9, 17, 65].getD (id % 4) 1
  else 1

def showReport (path : String) (id : Nat) (f : LimitFacts) (size l : Nat) : String :=
  if path = "proxy" then " ; report -"
  else if f.reports then String.join (List.replicate (copiesOf path id) s!" ; report {size} {l}")
  else " ; report -"

def step (st : Unit) (ws : List String) : Unit × String :=
  let f := Gen.limitFacts
  match ws with
  | ["frame", idx, path, lim, notify, id, qlen, blen, rlen] =>
    match limitOfEp (if path = "proxy" then .proxy else .server) lim, paths.contains path, [notify, id, qlen, blen, rlen].all (·.isNat) with
    | some limit, true, true =>
      let (n, i, q, b, r) := (natOf notify, natOf id, natOf qlen, natOf blen, natOf rlen)
      if ¬ f.writerGuarded then (st, s!"{idx} send {48 + q + b} same ; report -")
      else match decideOutbound f limit n q b with
      | .pass => (st, s!"{idx} send {48 + q + b} same ; report -")
      | .drop size l => (st, s!"{idx} drop" ++ showReport path i f size l)
      | .replace size l =>
        let rm := replacementMsg f i (List.replicate r 0)
        (st, s!"{idx} send {48 + rm.query.length + rm.body.length} replaced {rm.header.ec} {rm.header.id}"
              ++ showReport path i f size l)
    | _, _, _ => (st, idx ++ " bad-op")
  | ["client", idx, kind, lim, id, qlen, blen] =>
    match limitOfEp .client lim, clientKinds.contains kind, [id, qlen, blen].all (·.isNat) with
    | some limit, true, true =>
      let (q, b) := (natOf qlen, natOf blen)
      match checkOutbound f.cmp limit (lenOf f.clientLenTerms q b) with
      | none => (st, s!"{idx} ok wire " ++ ",".intercalate (List.replicate (copiesOf kind (natOf id)) (toString (48 + q + b))))
      | some (s, l) =>
        (st, s!"{idx} MessageTooLarge {s} {l} wire " ++ (if f.clientChecksFirst then "-" else toString (48 + q + b)))
    | _, _, _ => (st, idx ++ " bad-op")
  | _ :: idx :: _ => (st, idx ++ " bad-op")
  | _ => (st, "bad-op")

end Repe.Driver.Limits

def main : IO Unit := Repe.Driver.loop Repe.Driver.Limits.step ()
