import RepeVerif.Model.WriterDiscipline
import RepeVerif.Driver.Common
/-!
Driver for the `torn` correspondence family (C05).

op:   torn <idx> <ep 0..5> buf N rt N chunk N stall <at> <ms> fault <kind> <arg> w <kind><size>,…
        rec <tag:id,…|-> <tag:id:k|-> <tag,…|->
obs:  <idx> frames <n> torn <k> after <none|bytes> len <L> fnv <hex16|->

The part before `rec` is the generated fault script; the part after it is what the harness *recorded*
from the captured stream (which frames made it and in which order, where the torn frame was cut, which
submitted frames never appeared).  The driver replays that schedule on the model instantiated with the
endpoint's two discipline facts and reads the prediction off the final state.
-/
namespace Repe.Driver.Torn
open Repe Repe.Driver Repe.WD

/-- The facts claimed for the six endpoints (blocking/async/WebSocket client, blocking/async/WebSocket
server): each holds its writer lock (or is the only writer) for a whole frame and fails the connection
when a frame is interrupted. -/
def claimed : Nat → Option Facts
  | 0 | 1 | 2 | 3 | 4 | 5 => some ⟨true, true⟩
  | _ => none

/-- digest (byte expansion) only up to this many bytes; must equal `DIGEST_CAP` of the harness -/
def digestCap : Nat := 4 * 1024 * 1024

def parseWriter (s : String) : Option (Char × Nat) :=
  match s.toList with
  | k :: rest => (String.ofList rest).toNat?.map fun n => (k, n)
  | [] => none

def splitList (s : String) : List String := if s = "-" then [] else s.splitOn ","

def natsOf (s : String) : Option (List Nat) := (s.splitOn ":").mapM (·.toNat?)

/-- query prefix and notify flag of the frame writer kind `k` produces on endpoint `ep` -/
def shape (ep : Nat) (k : Char) : Option (String × Bool) :=
  if ep ≤ 2 then
    (if k = 'c' then some ("/t/", false) else if k = 'n' ∨ k = 't' then some ("/t/", true) else none)
  else
    (if k = 'r' then some ("/g/", false) else if k = 'p' ∧ ep = 5 then some ("/p/", true) else none)

def frameOf (ep : Nat) (ws : List (Char × Nat)) (tag id : Nat) : Option LFrame := do
  let (k, size) ← ws[tag]?
  let (pre, notify) ← shape ep k
  pure { id := id, notify := notify, query := (pre ++ toString tag).toUTF8.toList, tag := tag, blen := size }

/-- progress events that write `total` bytes of writer `w`'s frame in a few uneven fragments -/
def fragments (w total : Nat) : List (Ev LFrame) :=
  let a := 1 + w % 47
  let b := 8192 - a
  if total ≤ a then [.progress w total]
  else if total ≤ a + b then [.progress w a, .progress w (total - a)]
  else [.progress w a, .progress w b, .progress w 0, .progress w (total - a - b)]

def hex16 (v : UInt64) : String :=
  String.ofList ((List.range 16).map fun i => hexDigit ((v.toNat / 16 ^ (15 - i)) % 16))

def runCase (idx : String) (ep : Nat) (f : Facts) (ws : List (Char × Nat)) (frames : List (Nat × Nat))
    (torn : Option (Nat × Nat × Nat)) (attempted : List Nat) : Option String := do
  -- whole frames, in the recorded order
  let mut evs : List (Ev LFrame) := []
  for (tag, id) in frames do
    let fr ← frameOf ep ws tag id
    evs := evs ++ [.submit tag fr] ++ fragments tag fr.len
  let c1 := run LFrame.len f evs Conn.init
  -- the interrupted frame: `k` bytes, then the interrupt
  let c2 ← match torn with
    | none => some c1
    | some (tag, id, k) => do
      let fr ← frameOf ep ws tag id
      some (run LFrame.len f ([.submit tag fr] ++ fragments tag k ++ [.interrupt tag]) c1)
  -- every other submitted frame is attempted afterwards
  let mut later : List (Ev LFrame) := []
  if torn.isSome then
    for tag in attempted do
      let fr ← frameOf ep ws tag 0
      later := later ++ [.submit tag fr] ++ fragments tag fr.len
  let c3 := run LFrame.len f later c2
  let len := c3.wireLen
  let tornLen := len - (c3.done.map LFrame.len).sum
  let after := if c3.wireLen = c2.wireLen then "none" else "bytes"
  let digest := if len ≤ digestCap then hex16 (fnv1a (c3.streamWith LFrame.bytes)) else "-"
  pure (joinSp [idx, "frames", toString c3.done.length, "torn", toString tornLen, "after", after,
    "len", toString len, "fnv", digest])

def step (st : Unit) (ws : List String) : Unit × String :=
  match ws with
  | "torn" :: idx :: ep :: "buf" :: _ :: "rt" :: _ :: "chunk" :: _ :: "stall" :: _ :: _ :: "fault" :: _ :: _
      :: "w" :: wl :: "rec" :: fr :: tn :: att0 :: [] =>
    if fr = "skipped" then (st, idx ++ " skipped") else
    let r : Option String := do
      let ep ← ep.toNat?
      let f ← claimed ep
      let wsl ← (wl.splitOn ",").mapM parseWriter
      let frames ← (splitList fr).mapM fun s => do
        match ← natsOf s with
        | [t, id] => some (t, id)
        | _ => none
      let torn ← if tn = "-" then some none else do
        match ← natsOf tn with
        | [t, id, k] => some (some (t, id, k))
        | _ => none
      let att ← (splitList att0).mapM (·.toNat?)
      runCase idx ep f wsl frames torn att
    match r with
    | some s => (st, s)
    | none => (st, idx ++ " bad-op")
  | _ :: idx :: _ => (st, idx ++ " bad-op")
  | _ => (st, "bad-op")

end Repe.Driver.Torn

def main : IO Unit := Repe.Driver.loop Repe.Driver.Torn.step ()
