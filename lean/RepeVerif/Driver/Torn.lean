import RepeVerif.Model.WriterDiscipline
import RepeVerif.Gen.Torn
import RepeVerif.Driver.Common
/-!
Driver for the `torn` correspondence family (C05).

op:   torn <idx> <ep 0..5> buf N rt N chunk N stall <at> <ms> fault <kind> <arg> w <kind><size>[q<qlen>],…
        rec <tag:id,…|-> <tag:id:k|-> <tag,…|->
obs:  <idx> frames <n> torn <k> after <none|bytes> len <L> fnv <hex16|->

The part before `rec` is the generated fault script; the part after it is what the harness *recorded*
from the captured stream (which frames made it and in which order, where the torn frame was cut, which
submitted frames never appeared).  The driver replays that schedule on the model instantiated with the
endpoint's two discipline facts and reads the prediction off the final state.
-/
namespace Repe.Driver.Torn
open Repe Repe.Driver Repe.WD

/-- The facts of the six endpoints (blocking/async/WebSocket client, blocking/async/WebSocket server) as
re-extracted from the current source (`Gen.Torn`): the model is run with what the code says today. -/
def claimed (ep : Nat) : Option Facts := (Gen.Torn.obs ep).map Obs.facts

/-- digest (byte expansion) only up to this many bytes; must equal `DIGEST_CAP` of the harness -/
def digestCap : Nat := 4 * 1024 * 1024

/-- writer token `<kind><size>[q<qlen>]` -/
def parseWriter (s : String) : Option (Char × Nat × Nat) :=
  match s.toList with
  | k :: rest =>
    if !k.isAlpha then none else
    match (String.ofList rest).splitOn "q" with
    | [a] => a.toNat?.map fun n => (k, n, 0)
    | [a, b] => do let n ← a.toNat?; let q ← b.toNat?; pure (k, n, q)
    | _ => none
  | [] => none

def isJson (k : Char) : Bool := k = 'j' ∨ k = 'J' ∨ k = 'y' ∨ k = 'Y' ∨ k = 'b'

/-- pattern character `i` of a long query -/
def qchar (tag i : Nat) : UInt8 :=
  let c := (tag * 7 + i + i / 61) % 36
  UInt8.ofNat (if c < 26 then 97 + c else 22 + c)

/-- `<prefix><tag>`, padded with `/` and pattern characters up to `qlen` bytes when `qlen` is larger -/
def queryOf (pre : String) (tag qlen : Nat) : Bytes :=
  let base := (pre ++ toString tag).toUTF8.toList
  if qlen ≤ base.length then base
  else base ++ [47] ++ (List.range (qlen - base.length - 1)).map fun j => qchar tag (base.length + 1 + j)

def splitList (s : String) : List String := if s = "-" then [] else s.splitOn ","

def natsOf (s : String) : Option (List Nat) := (s.splitOn ":").mapM (·.toNat?)

/-- query prefix, notify flag and body format of the frame writer kind `k` produces on endpoint `ep`
(clients: c/T call_with_formats, n/t notify_with_formats, m call_message, j/y notify_json, J/Y/b call_json,
f/F forward_message (async client); servers: r response, p pushed notify, B notify through `PeerRegistry::broadcast_notify_raw`) -/
def shape (ep : Nat) (k : Char) : Option (String × Bool × Nat) :=
  if ep ≤ 2 then
    (if k = 'c' ∨ k = 'T' ∨ k = 'm' then some ("/t/", false, 0)
     else if k = 'n' ∨ k = 't' then some ("/t/", true, 0)
     else if k = 'j' ∨ k = 'y' then some ("/t/", true, 2)
     else if k = 'J' ∨ k = 'Y' ∨ k = 'b' then some ("/t/", false, 2)
     else if k = 'f' ∧ ep = 1 then some ("/t/", true, 0)
     else if k = 'F' ∧ ep = 1 then some ("/t/", false, 0)
     else none)
  else
    (if k = 'r' then some ("/g/", false, 0) else if (k = 'p' ∨ k = 'B') ∧ ep = 5 then some ("/p/", true, 0) else none)

def frameOf (ep : Nat) (ws : List (Char × Nat × Nat)) (tag id : Nat) : Option LFrame := do
  let (k, size, qlen) ← ws[tag]?
  let (pre, notify, bfmt) ← shape ep k
  if (isJson k ∧ size < 2) ∨ (k = 'm' ∧ size ≠ 0) then none
  pure { id := id, notify := notify, query := queryOf pre tag qlen, bfmt := bfmt, json := isJson k,
         tag := tag, blen := size }

/-- progress events that write `total` bytes of writer `w`'s frame in a few uneven fragments -/
def fragments (w total : Nat) : List (Ev LFrame) :=
  let a := 1 + w % 47
  let b := 8192 - a
  if total ≤ a then [.progress w total]
  else if total ≤ a + b then [.progress w a, .progress w (total - a)]
  else [.progress w a, .progress w b, .progress w 0, .progress w (total - a - b)]

def hex16 (v : UInt64) : String :=
  String.ofList ((List.range 16).map fun i => hexDigit ((v.toNat / 16 ^ (15 - i)) % 16))

def runCase (idx : String) (ep : Nat) (f : Facts) (ws : List (Char × Nat × Nat)) (frames : List (Nat × Nat))
    (torn : Option (Nat × Nat × Nat)) (attempted : List Nat) : Option String := do
  -- whole frames, in the recorded order
  let mut evs : List (Ev LFrame) := []
  for (tag, id) in frames do
    let fr ← frameOf ep ws tag id
    evs := evs ++ [.submit tag fr] ++ fragments tag fr.len
  let c1 := run LFrame.len f evs Conn.init
  -- the interrupted frame: `k` bytes, then the interrupt
  let c2 ← match torn with
    | none => some c1
    | some (tag, id, k) => do
      let fr ← frameOf ep ws tag id
      some (run LFrame.len f ([.submit tag fr] ++ fragments tag k ++ [.interrupt tag]) c1)
  -- every other submitted frame is attempted afterwards
  let mut later : List (Ev LFrame) := []
  if torn.isSome then
    for tag in attempted do
      let fr ← frameOf ep ws tag 0
      later := later ++ [.submit tag fr] ++ fragments tag fr.len
  let c3 := run LFrame.len f later c2
  let len := c3.wireLen
  let tornLen := len - (c3.done.map LFrame.len).sum
  let after := if c3.wireLen = c2.wireLen then "none" else "bytes"
  let digest := if len ≤ digestCap then hex16 (fnv1a (c3.streamWith LFrame.bytes)) else "-"
  pure (joinSp [idx, "frames", toString c3.done.length, "torn", toString tornLen, "after", after,
    "len", toString len, "fnv", digest])

def step (st : Unit) (ws : List String) : Unit × String :=
  match ws with
  | "torn" :: idx :: ep :: "buf" :: _ :: "rt" :: _ :: "chunk" :: _ :: "stall" :: _ :: _ :: "fault" :: _ :: _
      :: "w" :: wl :: "rec" :: fr :: tn :: att0 :: [] =>
    if fr = "skipped" then (st, idx ++ " skipped") else
    let r : Option String := do
      let ep ← ep.toNat?
      let f ← claimed ep
      let wsl ← (wl.splitOn ",").mapM parseWriter
      let frames ← (splitList fr).mapM fun s => do
        match ← natsOf s with
        | [t, id] => some (t, id)
        | _ => none
      let torn ← if tn = "-" then some none else do
        match ← natsOf tn with
        | [t, id, k] => some (some (t, id, k))
        | _ => none
      let att ← (splitList att0).mapM (·.toNat?)
      runCase idx ep f wsl frames torn att
    match r with
    | some s => (st, s)
    | none => (st, idx ++ " bad-op")
  | _ :: idx :: _ => (st, idx ++ " bad-op")
  | _ => (st, "bad-op")

end Repe.Driver.Torn

def main : IO Unit := Repe.Driver.loop Repe.Driver.Torn.step ()
