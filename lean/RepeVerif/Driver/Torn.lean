import RepeVerif.Model.WriterDiscipline
import RepeVerif.Gen.Torn
import RepeVerif.Driver.Common
/-!
Driver for the `torn` correspondence family (C05).

op:   torn <idx> <ep 0..6> buf N rt N chunk N stall <at> <ms> fault <kind> <arg> [opt <k=v/…|->] w <kind><size>(<attr><n>)*,…
        rec <tag:id[:L],…|-> <tag:id:k[:L]|-> <tag,…|->    (L: total length of a frame that is opaque to the model)
obs:  <idx> frames <n> torn <k> after <none|bytes> len <L> fnv <hex16|->

The part before `rec` is the generated fault script; the part after it is what the harness *recorded*
from the captured stream (which frames made it and in which order, where the torn frame was cut, which
submitted frames never appeared).  The driver replays that schedule on the model instantiated with the
endpoint's two discipline facts and reads the prediction off the final state.
-/
namespace Repe.Driver.Torn
open Repe Repe.Driver Repe.WD

/-- The facts of the six endpoints (blocking/async/WebSocket client, blocking/async/WebSocket server) as
re-extracted from the current source (`Gen.Torn`): the model is run with what the code says today. -/
def claimed (ep : Nat) : Option Facts := (Gen.Torn.obs ep).map Obs.facts

/-- digest (byte expansion) only up to this many bytes; must equal `DIGEST_CAP` of the harness -/
def digestCap : Nat := 4 * 1024 * 1024

/-- A writer of the script: kind, body size and the attributes that shape its frame
(`q` query length, `f` query format, `g` body format, `y` notify byte, `u` path variant, `x` unrouted path;
the other attributes — `i h t v z s` — do not change the bytes of a frame that does appear). -/
structure W where
  kind : Char
  size : Nat
  qlen : Nat := 0
  qf : Option Nat := none
  bf : Option Nat := none
  nb : Option Nat := none
  pv : Nat := 0
  xr : Bool := false

/-- `<letter><digits>` pairs after the size -/
partial def parseAttrs (cs : List Char) (w : W) : Option W :=
  match cs with
  | [] => some w
  | c :: rest =>
    let ds := rest.takeWhile Char.isDigit
    let rest' := rest.dropWhile Char.isDigit
    match (String.ofList ds).toNat? with
    | none => none
    | some v =>
      if c = 'q' then parseAttrs rest' { w with qlen := v }
      else if c = 'f' then parseAttrs rest' { w with qf := some v }
      else if c = 'g' then parseAttrs rest' { w with bf := some v }
      else if c = 'y' then parseAttrs rest' { w with nb := some v }
      else if c = 'u' then parseAttrs rest' { w with pv := v }
      else if c = 'x' then parseAttrs rest' { w with xr := v = 1 }
      else if c = 'i' ∨ c = 'h' ∨ c = 't' ∨ c = 'v' ∨ c = 'z' ∨ c = 's' then parseAttrs rest' w
      else none

/-- writer token `<kind><size>(<attr><n>)*` -/
def parseWriter (s : String) : Option W :=
  match s.toList with
  | k :: rest =>
    if !k.isAlpha then none else
    let ds := rest.takeWhile Char.isDigit
    match (String.ofList ds).toNat? with
    | none => none
    | some n => parseAttrs (rest.dropWhile Char.isDigit) { kind := k, size := n }
  | [] => none

def isJson (k : Char) : Bool := k = 'j' ∨ k = 'J' ∨ k = 'y' ∨ k = 'Y' ∨ k = 'b' ∨ k = 'o' ∨ k = 'G' ∨ k = 'H'

/-- pattern character `i` of a long query -/
def qchar (tag i : Nat) : UInt8 :=
  let c := (tag * 7 + i + i / 61) % 36
  UInt8.ofNat (if c < 26 then 97 + c else 22 + c)

def padTo (tag qlen : Nat) (base : Bytes) : Bytes :=
  base ++ (List.range (qlen - base.length)).map fun j => qchar tag (base.length + j)

/-- query bytes: `<prefix><tag>` (padded with `/` and pattern characters up to `qlen` bytes), the non-ASCII
variant `<prefix><tag>/é✓…`, or the empty path -/
def queryOf (pre : String) (tag : Nat) (w : W) : Bytes :=
  if w.pv = 2 then []
  else if w.pv = 3 then (pre ++ toString tag).toUTF8.toList ++ ((List.replicate 15 [47, 115]).flatten : Bytes)
  else if w.pv = 1 then padTo tag w.qlen ((pre ++ toString tag ++ "/é✓").toUTF8.toList)
  else
    let base := ((if w.xr then "/nope/" else pre) ++ toString tag).toUTF8.toList
    if w.qlen ≤ base.length then base else padTo tag w.qlen (base ++ [47])

def splitList (s : String) : List String := if s = "-" then [] else s.splitOn ","

def natsOf (s : String) : Option (List Nat) := (s.splitOn ":").mapM (·.toNat?)

/-- query prefix, notify flag and default body format of the frame writer kind `k` produces on endpoint `ep`
(clients: c/T call_with_formats, n/t notify_with_formats, m call_message, j/y notify_json, J/Y/b call_json,
f/F forward_message (async client); servers: r response, o response of an off-reader route, p pushed notify,
B notify through `PeerRegistry::broadcast_notify_raw`, h notify pushed from the connect hook) -/
def shape (ep : Nat) (k : Char) : Option (String × Bool × Nat) :=
  if ep ≤ 2 then
    (if k = 'c' ∨ k = 'T' ∨ k = 'm' ∨ k = 'g' then some ("/t/", false, 0)
     else if k = 'S' ∨ k = 'A' then some ("/t/", false, 1)
     else if k = 'n' ∨ k = 't' then some ("/t/", true, 0)
     else if k = 'j' ∨ k = 'y' then some ("/t/", true, 2)
     else if k = 'J' ∨ k = 'Y' ∨ k = 'b' ∨ k = 'G' ∨ k = 'H' then some ("/t/", false, 2)
     else if k = 'v' then some ("/t/", true, 1)
     else if k = 'V' then some ("/t/", false, 1)
     else if k = 'f' ∧ ep = 1 then some ("/t/", true, 0)
     else if k = 'F' ∧ ep = 1 then some ("/t/", false, 0)
     else none)
  else
    (if k = 'r' then some ("/g/", false, 0)
     else if k = 'o' then some ("/o/", false, 2)
     else if (k = 'p' ∨ k = 'B' ∨ k = 'h') ∧ ep = 5 then some ("/p/", true, 0) else none)

/-- The frame of writer `tag` (tags from 10000 on: the notify a handler pushes while serving request `tag-10000`).
`opaque = some L`: a frame of `L` bytes whose content the model does not produce (error response, BEVE body,
notify byte other than 0/1); only its length matters and no digest is printed. -/
def frameOf (ep : Nat) (ws : List W) (tag id : Nat) (opq : Option Nat := none) : Option LFrame := do
  if tag ≥ 10000 then
    pure { id := id, notify := true, query := queryOf "/p/" tag { kind := 'p', size := 64 }, qfmt := 1, bfmt := 0,
           json := false, tag := tag, blen := 64 }
  else
  let w ← ws[tag]?
  let (pre, notify, bfmt) ← shape ep w.kind
  if (isJson w.kind ∧ w.size < 2) ∨ ((w.kind = 'm' ∨ w.kind = 'g') ∧ w.size ≠ 0) then none
  let clientSide := ep ≤ 2
  let q := queryOf pre tag w
  let notify := if (w.kind = 'f' ∨ w.kind = 'F') then (match w.nb with | some 1 => true | some _ => false | none => notify) else notify
  let fr : LFrame :=
    { id := id, notify := notify, query := q, qfmt := if clientSide then w.qf.getD 1 else 1,
      bfmt := if clientSide ∨ w.kind = 'r' then w.bf.getD bfmt else bfmt, json := isJson w.kind, tag := tag, blen := w.size }
  match opq with
  | none => pure fr
  | some L =>
    if 48 + q.length ≤ L then pure { fr with blen := L - 48 - q.length }
    else if 48 ≤ L then pure { fr with query := [], blen := L - 48 }
    else none

/-- progress events that write `total` bytes of writer `w`'s frame in a few uneven fragments -/
def fragments (w total : Nat) : List (Ev LFrame) :=
  let a := 1 + w % 47
  let b := 8192 - a
  if total ≤ a then [.progress w total]
  else if total ≤ a + b then [.progress w a, .progress w (total - a)]
  else [.progress w a, .progress w b, .progress w 0, .progress w (total - a - b)]

def hex16 (v : UInt64) : String :=
  String.ofList ((List.range 16).map fun i => hexDigit ((v.toNat / 16 ^ (15 - i)) % 16))

def runCase (idx : String) (ep : Nat) (f : Facts) (ws : List W) (frames : List (Nat × Nat × Option Nat))
    (torn : Option (Nat × Nat × Nat × Option Nat)) (attempted : List Nat) : Option String := do
  -- whole frames, in the recorded order
  let mut evs : List (Ev LFrame) := []
  for (tag, id, opq) in frames do
    let fr ← frameOf ep ws tag id opq
    evs := evs ++ [.submit tag fr] ++ fragments tag fr.len
  let c1 := run LFrame.len f evs Conn.init
  -- the interrupted frame: `k` bytes, then the interrupt
  let c2 ← match torn with
    | none => some c1
    | some (tag, id, k, opq) => do
      let fr ← frameOf ep ws tag id opq
      some (run LFrame.len f ([.submit tag fr] ++ fragments tag k ++ [.interrupt tag]) c1)
  -- every other submitted frame is attempted afterwards
  let mut later : List (Ev LFrame) := []
  if torn.isSome then
    for tag in attempted do
      let fr ← frameOf ep ws tag 0
      later := later ++ [.submit tag fr] ++ fragments tag fr.len
  let c3 := run LFrame.len f later c2
  let len := c3.wireLen
  let tornLen := len - (c3.done.map LFrame.len).sum
  let after := if c3.wireLen = c2.wireLen then "none" else "bytes"
  let isOpq := frames.any (fun x => x.2.2.isSome) || (match torn with | some (_, _, _, some _) => true | _ => false)
  let digest := if len ≤ digestCap ∧ !isOpq then hex16 (fnv1a (c3.streamWith LFrame.bytes)) else "-"
  pure (joinSp [idx, "frames", toString c3.done.length, "torn", toString tornLen, "after", after,
    "len", toString len, "fnv", digest])

def runLine (idx ep wl fr tn att0 : String) : String :=
  if fr = "skipped" then idx ++ " skipped" else
  let r : Option String := do
    let ep ← ep.toNat?
    let f ← claimed ep
    let wsl ← (wl.splitOn ",").mapM parseWriter
    let frames ← (splitList fr).mapM fun s => do
      match ← natsOf s with
      | [t, id] => some (t, id, none)
      | [t, id, l] => some (t, id, some l)
      | _ => none
    let torn ← if tn = "-" then some none else do
      match ← natsOf tn with
      | [t, id, k] => some (some (t, id, k, none))
      | [t, id, k, l] => some (some (t, id, k, some l))
      | _ => none
    let att ← (splitList att0).mapM (·.toNat?)
    runCase idx ep f wsl frames torn att
  match r with
  | some s => s
  | none => idx ++ " bad-op"

def step (st : Unit) (ws : List String) : Unit × String :=
  match ws with
  | "torn" :: idx :: ep :: "buf" :: _ :: "rt" :: _ :: "chunk" :: _ :: "stall" :: _ :: _ :: "fault" :: _ :: _
      :: "opt" :: _ :: "w" :: wl :: "rec" :: fr :: tn :: att0 :: [] => (st, runLine idx ep wl fr tn att0)
  | "torn" :: idx :: ep :: "buf" :: _ :: "rt" :: _ :: "chunk" :: _ :: "stall" :: _ :: _ :: "fault" :: _ :: _
      :: "w" :: wl :: "rec" :: fr :: tn :: att0 :: [] => (st, runLine idx ep wl fr tn att0)
  | _ :: idx :: _ => (st, idx ++ " bad-op")
  | _ => (st, "bad-op")

end Repe.Driver.Torn

def main : IO Unit := Repe.Driver.loop Repe.Driver.Torn.step ()
