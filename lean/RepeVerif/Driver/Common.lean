import RepeVerif.Model.Basic
/-! Line-protocol plumbing shared by the `repe_model_*` executables. -/
namespace Repe.Driver

/-- Read stdin line by line, thread a state through `step`, print one output line per input line
(`step` may return several lines joined by `\n`, or "" for none). -/
partial def loop {σ} (step : σ → List String → σ × String) (s : σ) : IO Unit := do
  let stdin ← IO.getStdin
  let stdout ← IO.getStdout
  let rec go (s : σ) : IO Unit := do
    let line ← stdin.getLine
    if line.isEmpty then return ()
    let ws := Repe.words line
    if ws.isEmpty then go s
    else
      let (s', out) := step s ws
      if out ≠ "" then stdout.putStrLn out
      go s'
  go s
  stdout.flush

def natOf (s : String) : Nat := s.toNat?.getD 0

def joinSp (xs : List String) : String := " ".intercalate xs

end Repe.Driver
