import RepeVerif.Model.Beve
import RepeVerif.Gen.Numeric
import RepeVerif.Driver.Common
/-! Driver for the `numeric` correspondence family (C08).  One observation line per op line; the
first token of an observation is the op's index token.  Unknown / ill-formed ops print `bad-op`. -/
namespace Repe.Driver.Numeric
open Repe Repe.Beve Repe.Driver

def F : Facts := Gen.numericFacts

/-- Tail-recursive hex parser (payload lines reach 2·10⁶ characters). -/
def hexGo : List Char → List UInt8 → Option Bytes
  | [], acc => some acc.reverse
  | [_], _ => none
  | a :: b :: r, acc =>
    match hexVal a, hexVal b with
    | some x, some y => hexGo r (UInt8.ofNat (x * 16 + y) :: acc)
    | _, _ => none

def unhex (s : String) : Option Bytes := if s = "-" then some [] else hexGo s.toList []

def tyOf (c k : String) : Option ElemTy :=
  match c.toNat?, k.toNat? with
  | some c, some k => if (ElemTy.mk c k).Valid then some ⟨c, k⟩ else none
  | _, _ => none

def showB {α} (f : α → String) : BOut α → String
  | .ok a => "ok " ++ f a
  | .error _ => "err Beve"

def showN {α} (f : α → String) : Except NErr α → String
  | .ok a => "ok " ++ f a
  | .error .unexpectedBodyFormat => "err UnexpectedBodyFormat"
  | .error (.beve _) => "err Beve"

/-- Decoded elements are printed as `<count> <payload hex>`. -/
def showElems (xs : List Bytes) : String := toString xs.length ++ " " ++ hexOfBytes xs.flatten

def showHandler (withFlag : Bool) (t : ElemTy) : HandlerOut → String
  | .called i =>
    -- the closure echoes its input; the response body is `body_typed_slice(input)`
    "called " ++ (if withFlag then (if i.isBorrowed then "borrowed " else "copied ") else "") ++
      hexOfBytes (bodyTypedSlice t i.elems)
  | .reject ec => "reject " ++ toString ec
  | .err _ => "err Beve"

/-- First two words of an observation joined by `:` (what the `wrong*` ops print per decoder). -/
def short (s : String) : String := ":".intercalate ((s.splitOn " ").take 2)

/-- A body through the four decoders of element type `t`: `decode_typed_slice`, `decode_complex_slice`,
the bulk route and the borrowing route (frame at an aligned base, 4-byte path). -/
def allDecoders (t : ElemTy) (fmt : Nat) (body : Bytes) : String :=
  joinSp [
    "dec=" ++ short (showN showRaw' (decodeTypedSliceRaw F fmt t body)),
    "cdec=" ++ short (showN showRaw' (decodeComplexSliceRaw F fmt t body)),
    "slice=" ++ short (showHandler false t (sliceHandler F t fmt body)),
    "ref=" ++ short (showHandler false t (sliceRefHandler F t fmt (48 + 4) body))]
where showRaw' (r : Nat × Bytes) : String := toString r.1 ++ " " ++ hexOfBytes r.2

def showCall : Except CallErr (List Bytes) → String
  | .ok ys => "ok " ++ showElems ys
  | .error (.server ec) => "err Server(" ++ toString ec ++ ")"
  | .error (.client .unexpectedBodyFormat) => "err UnexpectedBodyFormat"
  | .error (.client (.beve _)) => "err Beve"

/-- The address of the server's receive buffer is not observable over a socket: the result of a call
must not depend on it (computed for an aligned and an unaligned landing). -/
def netObs (kd : ClientKind) (rt : RouteKind) (t : ElemTy) (plen : Nat) (xs : List Bytes) : String :=
  let r0 := showCall (call F kd rt t plen 0 xs)
  let r1 := showCall (call F kd rt t plen 1 xs)
  if r0 == r1 then r0 else "address-dependent"

def showRaw (r : Nat × Bytes) : String := toString r.1 ++ " " ++ hexOfBytes r.2

/-- `cap` / `capq`: the frame a client entry point writes (id zeroed) and, for the frame at base
misalignments 0..7, whether the borrowing route borrows (b) or copies (c). -/
def capObs (op idx client kind c k plen n p : String) : Unit × String :=
  let bad (idx : String) := ((), idx ++ " bad-op")
  -- the frame the client helper writes (id zeroed) and, for the frame at base misalignments 0..7,
  -- whether the borrowing route borrows (b) or copies (c)
  let path? : Option Bytes :=
    if op = "capq" then unhex plen
    else plen.toNat?.map fun l => if l = 0 then [] else 0x2f :: List.replicate (l - 1) 0x63
  match tyOf c k, path?, n.toNat?, unhex p with
  | some t, some path, some n, some p =>
    let kind? : Option ClientKind :=
      if kind = "bulk" then some .bulk else if kind = "aligned" then some .aligned
      else if kind = "serde" then some .serde else none
    match kind? with
    | some kd =>
      if p.length ≠ n * t.width then bad idx
      else
        -- client token: sync | syncp | async | asyncp   (p = the entry point without a timeout)
        let C := if client = "sync" ∨ client = "syncp" then F.syncClient else F.asyncClient
        let timeout := client = "sync" ∨ client = "async"
        let m := clientRequest F C kd timeout t 0 path (chunks t.width n p)
        let flag (mis : Nat) : Char :=
          match sliceRefHandler F t m.header.bodyFormat (mis + 48 + path.length) m.body with
          | .called i => if i.isBorrowed then 'b' else 'c'
          | _ => 'x'
        ((), joinSp [idx, hexOfBytes m.toVec, String.ofList ((List.range 8).map flag)])
    | none => bad idx
  | _, _, _, _ => bad idx

def stepCore (_ : Unit) (ws : List String) : Unit × String :=
  let bad (idx : String) := ((), idx ++ " bad-op")
  match ws with
  | ["capre", idx, _client, _kind, _ec] => ((), idx ++ " err")
  | ["dec", idx, c, k, fmt, p] =>
    match tyOf c k, fmt.toNat?, unhex p with
    | some t, some fmt, some body => ((), idx ++ " " ++ showN showRaw (decodeTypedSliceRaw F fmt t body))
    | _, _, _ => bad idx
  | ["cdec", idx, c, k, fmt, p] =>
    match tyOf c k, fmt.toNat?, unhex p with
    | some t, some fmt, some body => ((), idx ++ " " ++ showN showRaw (decodeComplexSliceRaw F fmt t body))
    | _, _, _ => bad idx
  | ["adec", idx, c, k, addr, p] =>
    -- the body's first byte sits at an address ≡ addr (mod 8)
    match tyOf c k, addr.toNat?, unhex p with
    | some t, some addr, some body =>
      match readAligned t body with
      | .error _ => ((), idx ++ " err Beve")
      | .ok xs =>
        let fl := match readAlignedRef t addr body with
          | .ok _ => "borrowed"
          | .error _ => "copied"
        ((), joinSp [idx, "ok", showElems xs, fl])
    | _, _, _ => bad idx
  | [op, idx, c, k, n, p] =>
    -- enc / cenc / genc / gcenc  <cls> <code> <n> <payload>
    match tyOf c k, n.toNat?, unhex p with
    | some t, some n, some p =>
      let w := if op = "cenc" ∨ op = "gcenc" then 2 * t.width else t.width
      if p.length ≠ n * w then bad idx
      else if op = "enc" then ((), joinSp [idx, hexOfBytes (encodeTypedRaw t n p), "size", toString (typedSliceSize t n)])
      else if op = "cenc" then ((), joinSp [idx, hexOfBytes (encodeComplexRaw t n p), "size", toString (complexSliceSize t n)])
      else if op = "genc" then ((), joinSp [idx, hexOfBytes (encodeGenericRaw t n p)])
      else if op = "gcenc" then ((), joinSp [idx, hexOfBytes (encodeGenericComplexRaw t n p)])
      else bad idx
    | _, _, _ => bad idx
  | [op, idx, c, k, p] =>
    -- gdec / gcdec <cls> <code> <body>
    match tyOf c k, unhex p with
    | some t, some p =>
      if op = "gdec" then ((), idx ++ " " ++ showB showElems (readGeneric t p))
      else if op = "gcdec" then ((), idx ++ " " ++ showB showElems (readGenericComplex t p))
      else bad idx
    | _, _ => bad idx
  | ["aenc", idx, c, k, qlen, n, p] =>
    match tyOf c k, qlen.toNat?, n.toNat?, unhex p with
    | some t, some qlen, some n, some p =>
      if p.length ≠ n * t.width then bad idx
      else
        let body := encodeAlignedRaw t n p (baseOffset F.baseTerms qlen)
        let off := match parseAligned t body with
          | .ok a => toString (48 + qlen + a.dataOffset)
          | .error _ => "?"
        ((), joinSp [idx, hexOfBytes body, "off", off, "size", toString (alignedSliceSize t n (48 + qlen))])
    | _, _, _, _ => bad idx
  | ["aref", idx, c, k, mis, qlen, qafter, _wire, n, p] =>
    -- body built for the query (or, qafter = 1, before the query was set: padded for offset 48)
    match tyOf c k, mis.toNat?, qlen.toNat?, n.toNat?, unhex p with
    | some t, some mis, some qlen, some n, some p =>
      if p.length ≠ n * t.width then bad idx
      else
        let body := encodeAlignedRaw t n p (baseOffset F.baseTerms (if qafter = "1" then 0 else qlen))
        ((), joinSp [idx, hexOfBytes body, showHandler true t (sliceRefHandler F t BEVE (mis + 48 + qlen) body)])
    | _, _, _, _, _ => bad idx
  | ["wrong", idx, c, k, c2, k2, form, n, p] =>
    match tyOf c k, tyOf c2 k2, n.toNat?, unhex p with
    | some t, some t2, some n, some p =>
      let w := if form = "complex" then 2 * t2.width else t2.width
      if p.length ≠ n * w then bad idx
      else
        let body? : Option Bytes :=
          if form = "regular" then some (encodeTypedRaw t2 n p)
          else if form = "aligned" then some (encodeAlignedRaw t2 n p (baseOffset F.baseTerms 4))
          else if form = "complex" then some (encodeComplexRaw t2 n p)
          else none
        match body? with
        | some body => ((), joinSp [idx, hexOfBytes body, allDecoders t BEVE body])
        | none => bad idx
    | _, _, _, _ => bad idx
  | ["seq", idx, c, k, s1, s2, qafter, qlen, _cap, p1, p2] =>
    -- two body setters in a row on one builder; the frame of `build()`
    match tyOf c k, qlen.toNat?, unhex p1, unhex p2 with
    | some t, some qlen, some p1, some p2 =>
      let text (p : Bytes) : Bytes := (hexOfBytes p).toUTF8.toList
      let mk (name : String) (p : Bytes) : Option Setter :=
        if p.length % (2 * t.width) ≠ 0 then none
        else if name = "bytes" then some (.bytes p)
        else if name = "utf8" then some (.utf8 (text p))
        else if name = "json" then some (.json (0x22 :: (text p ++ [0x22])))
        else if name = "beve" then some (.beve t (chunks t.width (p.length / t.width) p))
        else if name = "typed" then some (.typed t (chunks t.width (p.length / t.width) p))
        else if name = "complex" then some (.complex t (chunks (2 * t.width) (p.length / (2 * t.width)) p))
        else if name = "aligned" then some (.aligned t (chunks t.width (p.length / t.width) p))
        else none
      match mk s1 p1, mk s2 p2 with
      | some a, some b =>
        let q : Bytes := if qlen = 0 then [] else 0x2f :: List.replicate (qlen - 1) 0x71
        ((), joinSp [idx, hexOfBytes (buildSeq F 7 q (qafter = "1") [a, b]).toVec])
      | _, _ => bad idx
    | _, _, _, _ => bad idx
  | ["form", idx, c, k, form, n, p] =>
    -- the decoder's own element type in each wire form
    match tyOf c k, n.toNat?, unhex p with
    | some t, some n, some p =>
      let w := if form = "complex" then 2 * t.width else t.width
      if p.length ≠ n * w then bad idx
      else
        let body? : Option Bytes :=
          if form = "regular" then some (encodeTypedRaw t n p)
          else if form = "aligned" then some (encodeAlignedRaw t n p (baseOffset F.baseTerms 4))
          else if form = "complex" then some (encodeComplexRaw t n p)
          else none
        match body? with
        | some body => ((), joinSp [idx, hexOfBytes body, allDecoders t BEVE body])
        | none => bad idx
    | _, _, _ => bad idx
  | ["wrongfmt", idx, c, k, fmt, n, p] =>
    match tyOf c k, fmt.toNat?, n.toNat?, unhex p with
    | some t, some fmt, some n, some p =>
      if p.length ≠ n * t.width then bad idx
      else ((), joinSp [idx, allDecoders t fmt (encodeTypedRaw t n p)])
    | _, _, _, _ => bad idx
  | ["capt", idx, _client] => ((), idx ++ " err")
  | ["capr", idx, _client, _kind, c, k, c2, k2, n2, p2] =>
    -- the peer answers with a regular array of element type 2; the bulk client decodes as type 1
    match tyOf c k, tyOf c2 k2, n2.toNat?, unhex p2 with
    | some t, some t2, some n2, some p2 =>
      if p2.length ≠ n2 * t2.width then bad idx
      else ((), idx ++ " " ++ showN showElems (decodeTypedSlice F BEVE t (encodeTypedRaw t2 n2 p2)))
    | _, _, _, _ => bad idx
  | ["caprf", idx, _client, _kind, c, k, fmt, n, p] =>
    match tyOf c k, fmt.toNat?, n.toNat?, unhex p with
    | some t, some fmt, some n, some p =>
      if p.length ≠ n * t.width then bad idx
      else ((), idx ++ " " ++ showN showElems (decodeTypedSlice F fmt t (encodeTypedRaw t n p)))
    | _, _, _, _ => bad idx
  | ["abld", idx, c, k, mis, _wire, q, n, p] =>
    match tyOf c k, mis.toNat?, unhex q, n.toNat?, unhex p with
    | some t, some mis, some q, some n, some p =>
      if p.length ≠ n * t.width then bad idx
      else
        let body := encodeAlignedRaw t n p (baseOffset F.baseTerms q.length)
        let off := match parseAligned t body with
          | .ok a => toString (48 + q.length + a.dataOffset)
          | .error _ => "?"
        let fl := match sliceRefHandler F t BEVE (mis + 48 + q.length) body with
          | .called i => if i.isBorrowed then "borrowed" else "copied"
          | _ => "unserved"
        ((), joinSp [idx, hexOfBytes body, "off", off, fl])
    | _, _, _, _, _ => bad idx
  | "hseq" :: idx :: kind :: wrap :: c :: k :: q :: cnt :: rest =>
    match tyOf c k, unhex q, cnt.toNat? with
    | some t, some q, some cnt =>
      if rest.length ≠ 4 * cnt ∨ (kind ≠ "ref" ∧ kind ≠ "slice") then bad idx
      else
        let rec go (ws : List String) (fuel : Nat) (acc : List String) : Option (List String) :=
          match fuel, ws with
          | 0, _ => some acc.reverse
          | fuel + 1, hk :: fmt :: mis :: b :: tl =>
            match fmt.toNat?, mis.toNat?, unhex b with
            | some fmt, some mis, some body =>
              let out := if kind = "ref" then sliceRefHandler F t fmt (mis + 48 + q.length) body
                         else sliceHandler F t fmt body
              let s := match out with
                | .reject ec => "reject " ++ toString ec
                | .err _ => "err Beve"
                | .called i =>
                  let flag := if wrap = "1" ∨ kind ≠ "ref" then "-" else if i.isBorrowed then "b" else "c"
                  let res :=
                    if hk = "same" ∨ hk = "slow" then hexOfBytes (bodyTypedSlice t i.elems)
                    else if hk = "bytes" then hexOfBytes (encodeTypedRaw ⟨2, 0⟩ i.elems.flatten.length i.elems.flatten)
                    else if hk = "err" then "err 4096"
                    else if hk.startsWith "err" then "err " ++ (hk.drop 3).toString
                    else "panic"
                  "called " ++ flag ++ " " ++ res
              go tl fuel (s :: acc)
            | _, _, _ => none
          | _, _ => none
        match go rest cnt [] with
        | some obs => ((), idx ++ " " ++ " | ".intercalate obs)
        | none => bad idx
    | _, _, _ => bad idx
  | ["cap", idx, client, kind, c, k, plen, n, p] => capObs "cap" idx client kind c k plen n p
  | ["capq", idx, client, kind, c, k, plen, n, p] => capObs "capq" idx client kind c k plen n p
  | ["net", idx, _server, _client, kind, route, c, k, plen, n, p] =>
    match tyOf c k, plen.toNat?, n.toNat?, unhex p with
    | some t, some plen, some n, some p =>
      let kind? : Option ClientKind :=
        if kind = "bulk" then some .bulk else if kind = "aligned" then some .aligned
        else if kind = "serde" then some .serde else none
      let route? : Option RouteKind :=
        if route = "slice" then some .slice else if route = "ref" then some .sliceRef
        else if route = "typed" then some .typed else none
      match kind?, route? with
      | some _, none => if route = "missing" then ((), idx ++ " err Server(6)") else bad idx
      | some kd, some rt =>
        if p.length ≠ n * t.width then bad idx
        else
          ((), idx ++ " " ++ netObs kd rt t plen (chunks t.width n p))
      | _, _ => bad idx
    | _, _, _, _ => bad idx
  | ["ref", idx, c, k, fmt, mis, qlen, p] =>
    -- the frame starts at an address ≡ mis (mod 8); the body at mis + 48 + qlen
    match tyOf c k, fmt.toNat?, mis.toNat?, qlen.toNat?, unhex p with
    | some t, some fmt, some mis, some qlen, some body =>
      ((), idx ++ " " ++ showHandler true t (sliceRefHandler F t fmt (mis + 48 + qlen) body))
    | _, _, _, _, _ => bad idx
  | ["slice", idx, c, k, fmt, qlen, p] =>
    match tyOf c k, fmt.toNat?, qlen.toNat?, unhex p with
    | some t, some fmt, some _, some body =>
      ((), idx ++ " " ++ showHandler false t (sliceHandler F t fmt body))
    | _, _, _, _ => bad idx
  | [op, idx, c, k, id, notify, ec, qfmt, q, n, p] =>
    -- stream / cstream <cls> <code> <id> <notify> <ec> <qfmt> <query> <n> <payload>
    match tyOf c k, id.toNat?, ec.toNat?, qfmt.toNat?, unhex q, n.toNat?, unhex p with
    | some t, some id, some ec, some qfmt, some q, some n, some p =>
      let w := if op = "cstream" then 2 * t.width else t.width
      let nf : Nat := if notify = "1" then 1 else 0
      let h : Header := ⟨0, REPE_SPEC, REPE_VERSION, nf, 0, id, 0, 0, qfmt, 0, ec⟩
      if p.length ≠ n * w then bad idx
      else if op = "stream" then ((), joinSp [idx, hexOfBytes (writeMessageTypedSliceRaw h q t n p)])
      else if op = "cstream" then ((), joinSp [idx, hexOfBytes (writeMessageComplexSliceRaw h q t n p)])
      else bad idx
    | _, _, _, _, _, _, _ => bad idx
  | _ :: idx :: _ => bad idx
  | _ => ((), "bad-op")

/-- `frag`: how the bytes of a request arrive is not the model's business — the same answer as `net`. -/
def step (u : Unit) (ws : List String) : Unit × String :=
  match ws with
  | ["frag", idx, srv, _cuts, kind, route, c, k, plen, n, p] =>
    stepCore u ["net", idx, srv, "raw", kind, route, c, k, plen, n, p]
  | ["stall", idx, srv, ms, kind, route, c, k, plen, n, p] =>
    -- one answer per stalled connection, each the ordinary one
    let one := (stepCore u ["net", idx, srv, "raw", kind, route, c, k, plen, n, p]).2
    let obs := (one.drop (idx.length + 1)).toString
    ((), idx ++ " " ++ " | ".intercalate (List.replicate (ms.splitOn ",").length obs))
  | _ => stepCore u ws

end Repe.Driver.Numeric

def main : IO Unit := Repe.Driver.loop Repe.Driver.Numeric.step ()
