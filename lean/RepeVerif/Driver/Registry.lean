import RepeVerif.Model.Registry
import RepeVerif.Gen.Registry
import RepeVerif.Driver.Common
import Std.Data.HashSet
/-!
Driver for the `registry` correspondence family (C14).  Words: `P` = one JSON string literal
(pointer / path / prefix), `J` = one canonical JSON word (see `Model/Json.lean`).

```
reset i                       new registry                              (no observation)
router i P…                   mount the registry under these prefixes    (no observation)
setroot i J | regv i P J | regf i P tag fail|- | mergeroot i J | mergeat i P J
read i P | disp i P J|-       -> i ok J cN | i err Variant code cN     (N = calls logged so far)
dump i                        -> i dump J(root) J(funcs) J(log)
req i P fmt hex|- J|!|-       -> i none | i ok J cN | i err code cN    (through the Router mount; format code,
                                 body bytes, what the dependency decoder gave for them)
jp i P                        -> i J(array of tokens)                   (repe::parse_json_pointer)
jpe i J P                     -> i some J | i none                      (repe::eval_json_pointer)
enum i dom len                -> i a b hash   (one line per 2-op prefix; digest of the subtree)
rep i N op…                   -> i digest last obs            (the same call N times in a row)
watch i iters S op… M op… W op… => V w… V w…
                              -> i admissible | i NOT-admissible (a watcher's answers walk through the successive states)
conc i iters S op… T op… T op… => R res… R res… F J J J
                              -> i member | i NOT-member   (is the observed outcome produced by some
                                 interleaving of the lock-region steps of the model?)
```
-/
namespace Repe.Driver.Registry
open Repe Repe.Driver

def recheck : Bool := Gen.Registry.recheckUnderWriteLock

structure St where
  reg : Reg := {}
  prefixes : List (List Char) := []

/-- Canonical text, same as `J.render`, but emitted into an accumulator (linear in the size of the value even
for documents thousands of levels deep). -/
partial def renderAcc : J → List Char → List Char
  | .null, acc => 'n' :: 'u' :: 'l' :: 'l' :: acc
  | .bool true, acc => 't' :: 'r' :: 'u' :: 'e' :: acc
  | .bool false, acc => 'f' :: 'a' :: 'l' :: 's' :: 'e' :: acc
  | .num s, acc => s.toList ++ acc
  | .str s, acc => showStr s ++ acc
  | .arr xs, acc =>
    let rec elems : List J → List Char → List Char
      | [], acc => acc
      | [x], acc => renderAcc x acc
      | x :: r, acc => renderAcc x (',' :: elems r acc)
    '[' :: elems xs (']' :: acc)
  | .obj kvs, acc =>
    let sorted := (kvs.toArray.qsort fun a b => keyLt a.1 b.1).toList
    let rec members : List (Key × J) → List Char → List Char
      | [], acc => acc
      | [(k, v)], acc => showStr k ++ ':' :: renderAcc v acc
      | (k, v) :: r, acc => showStr k ++ ':' :: renderAcc v (',' :: members r acc)
    '{' :: members sorted ('}' :: acc)

def showJ (v : J) : String := String.ofList (renderAcc v [])

def showCode (e : RErr) : String :=
  match e.code Gen.Registry.registryErrorCode Gen.Registry.errorCodes with
  | some c => toString c
  | none => "?"

def isPanicCode (e : RErr) : Bool :=
  match e with
  | .execution c => 1000001 ≤ c ∧ c ≤ 1000003
  | _ => false

def showRes (r : Res) : String :=
  match r with
  | .ok v => "ok " ++ showJ v
  | .error e => if isPanicCode e then "unspecified" else "err " ++ e.name ++ " " ++ showCode e

/-- one-word form used inside `conc` lines -/
def resWord (r : Res) : String :=
  match r with
  | .ok v => "ok:" ++ showJ v
  | .error e => if isPanicCode e then "unspecified" else "err:" ++ e.name ++ ":" ++ showCode e

def funcsJ (reg : Reg) : J :=
  .obj (reg.funcs.map fun (k, f) =>
    (k, match f.fail with
        | none => J.num (toString f.tag)
        | some c => J.arr [.num (toString f.tag), .num (toString c)]))

def logEntryJ (e : Nat × J) : J := .arr [.num (toString e.1), e.2]

def dumpWords (reg : Reg) : String :=
  showJ reg.root ++ " " ++ showJ (funcsJ reg) ++ " " ++ showJ (J.arr (reg.log.map logEntryJ))

def sortedLog (reg : Reg) : String :=
  let xs := ((reg.log.map fun e => showJ (logEntryJ e)).toArray.qsort (· < ·)).toList
  "[" ++ ",".intercalate xs ++ "]"

def dumpSorted (reg : Reg) : String :=
  showJ reg.root ++ " " ++ showJ (funcsJ reg) ++ " " ++ sortedLog reg

def obs (reg : Reg) (r : Res) : String := showRes r ++ " c" ++ toString reg.log.length

/-- Harness convention: a callable registered with `fail = 4000000` owns a value whose `Drop` panics when the
registry lets go of it inside an API call, i.e. when its registration is replaced.  The replacement takes effect
(the model's state), what the call answers is not specified by the property. -/
def replacesBomb (reg : Reg) : Op → Bool
  | .regFunc path _ =>
    match parseRegistrationPath path with
    | .ok segs =>
      match fget (canonicalPointer segs) reg.funcs with
      | some f => segs ≠ [] && f.fail == some 4000000
      | none => false
    | .error _ => false
  | _ => false

/-- one API call: new registry and its observation -/
def applyObs (reg : Reg) (op : Op) : Reg × String :=
  let (reg', r) := reg.apply recheck op
  (reg', if replacesBomb reg op then "unspecified c" ++ toString reg'.log.length else obs reg' r)

def applyWord (reg : Reg) (op : Op) : Reg × String :=
  let (reg', r) := reg.apply recheck op
  (reg', if replacesBomb reg op then "unspecified" else resWord r)

/-- Parse one API op from `name :: args`; returns the op and the unconsumed words. -/
def parseOp : List String → Option (Op × List String)
  | "setroot" :: j :: rest => (J.parse j).map fun v => (.setRoot v, rest)
  | "regv" :: p :: j :: rest => do
    let p ← parseStrWord p; let v ← J.parse j; pure (.regValue p v, rest)
  | "regf" :: p :: tag :: fail :: rest => do
    let p ← parseStrWord p; let t ← tag.toNat?
    let f ← if fail = "-" then some none else fail.toNat?.map some
    pure (.regFunc p ⟨t, f⟩, rest)
  | "mergeroot" :: j :: rest =>
    match J.parse j with
    | some (.obj o) => some (.mergeRoot o, rest)
    | _ => none
  | "mergeat" :: p :: j :: rest =>
    match parseStrWord p, J.parse j with
    | some p, some (.obj o) => some (.mergeAt p o, rest)
    | _, _ => none
  | "read" :: p :: rest => (parseStrWord p).map fun p => (.read p, rest)
  | "disp" :: p :: j :: rest => do
    let p ← parseStrWord p
    let b ← if j = "-" then some none else (J.parse j).map some
    pure (.disp p b, rest)
  | _ => none

/-! ### small-scope enumeration -/

def fnv (h : UInt64) (s : String) : UInt64 :=
  let h := s.toList.foldl (fun h c => (h ^^^ c.toNat.toUInt64) * 0x100000001b3) h
  (h ^^^ 10) * 0x100000001b3

structure Dom where
  init : J
  ops : Array Op

def mkDom (init : String) (ps : List String) (vs : List String) : Option Dom := do
  let init ← J.parse init
  let ps ← ps.mapM parseStrWord
  let vs ← vs.mapM J.parse
  let reads := ps.map fun p => Op.disp p none
  let writes := ps.flatMap fun p => vs.map fun v => Op.disp p (some v)
  let regvs := ps.flatMap fun p => vs.map fun v => Op.regValue p v
  let regfs := (List.range ps.length).zip ps |>.map fun (i, p) => Op.regFunc p ⟨i, none⟩
  let roots := vs.map fun v => Op.setRoot v
  pure ⟨init, (reads ++ writes ++ regvs ++ regfs ++ roots).toArray⟩

/-- The domains; the harness has the same table (`fam_registry.rs: DOMAINS`). -/
def domain : String → Option Dom
  | "d1" => mkDom "{}" ["\"/a\"", "\"/a/b\"", "\"/a/0\""] ["1", "{\"b\":2}", "[7]"]
  | "d2" => mkDom "{\"k\":0}" ["\"/x~1y\"", "\"/x~1y/~0\"", "\"\""] ["{\"k\":1}", "2", "{\"x/y\":{}}"]
  | "d3" => mkDom "{\"l\":[5,[6]]}" ["\"/l/1/0\"", "\"/l/+1\"", "\"/l/2\""] ["9", "[8]", "{\"1\":7}"]
  | "d4" => mkDom "{\"~1\":0,\"/\":1}" ["\"/~01\"", "\"/~1\"", "\"/~01/~10\""] ["1", "{\"/0\":2}", "{\"~1\":{}}"]
  | "d5" => mkDom "{\"l\":[5,6]}" ["\"/l/++1\"", "\"/l/+01\"", "\"/l/-0\""] ["9", "[8]", "{\"1\":7}"]
  | _ => none

def enumGo (ops : Array Op) : Nat → Reg → UInt64 → UInt64
  | 0, reg, h => fnv h (dumpWords reg)
  | d + 1, reg, h =>
    ops.foldl (fun h op =>
      let (reg', r) := reg.apply recheck op
      enumGo ops d reg' (fnv h (obs reg' r))) h

def enumLines (idx : String) (dom : Dom) (len : Nat) : List String :=
  let n := dom.ops.size
  (List.range n).flatMap fun a => (List.range n).map fun b =>
    let reg0 : Reg := { root := dom.init }
    let (reg1, r1) := reg0.apply recheck dom.ops[a]!
    let h := fnv 0xcbf29ce484222325 (obs reg1 r1)
    let (reg2, r2) := reg1.apply recheck dom.ops[b]!
    let h := fnv h (obs reg2 r2)
    let h := enumGo dom.ops (len - 2) reg2 h
    joinSp [idx, toString a, toString b, toString h.toNat]

/-! ### concurrent histories: membership in the outcomes of the step model -/

abbrev Thread := List (Op × String)

def parseThreadOps (fuel : Nat) (ws : List String) (acc : List Op) : Option (List Op × List String) :=
  match fuel with
  | 0 => none
  | fuel + 1 =>
    match ws with
    | [] => some (acc.reverse, [])
    | "T" :: _ => some (acc.reverse, ws)
    | "=>" :: _ => some (acc.reverse, ws)
    | _ =>
      match parseOp ws with
      | some (op, rest) => parseThreadOps fuel rest (op :: acc)
      | none => none

def parseSections (fuel : Nat) (ws : List String) (acc : List (List Op)) : Option (List (List Op) × List String) :=
  match fuel with
  | 0 => none
  | fuel + 1 =>
    match ws with
    | "T" :: rest =>
      match parseThreadOps (rest.length + 1) rest [] with
      | some (ops, rest') => parseSections fuel rest' (ops :: acc)
      | none => none
    | _ => some (acc.reverse, ws)

/-- split the observed results `R w… R w… F a b c` -/
def parseOutcome (ws : List String) : Option (List (List String) × String) :=
  let rec go (fuel : Nat) (ws : List String) (cur : Option (List String)) (acc : List (List String)) :
      Option (List (List String) × String) :=
    match fuel with
    | 0 => none
    | fuel + 1 =>
      let flush := match cur with
        | some c => c.reverse :: acc
        | none => acc
      match ws with
      | ["F", a, b, c] => some (flush.reverse, joinSp [a, b, c])
      | "R" :: rest => go fuel rest (some []) flush
      | w :: rest =>
        match cur with
        | some c => go fuel rest (some (w :: c)) acc
        | none => none
      | [] => none
  go (ws.length + 1) ws none []

def confKey (c : Conf) (ths : Array Thread) : String :=
  joinSp (ths.toList.map fun t => toString t.length) ++ "|" ++
  joinSp (c.pend.map fun (t, _) => toString t) ++ "|" ++ dumpWords c.reg

/-- Depth-first search over the schedules of the step model, pruned by the observed results and
memoised on (positions, pending set, state). -/
partial def search (final : String) (c : Conf) (ths : Array Thread) (seen : Std.HashSet String) :
    Bool × Std.HashSet String :=
  if ths.all (·.isEmpty) && c.pend.isEmpty then (dumpSorted c.reg == final, seen)
  else
    let key := confKey c ths
    if seen.contains key then (false, seen)
    else
      let rec tryThread (k : Nat) (seen : Std.HashSet String) : Bool × Std.HashSet String :=
        if k ≥ ths.size then (false, seen)
        else
          match ths[k]! with
          | [] => tryThread (k + 1) seen
          | (op, want) :: restOps =>
            let ev : Ev :=
              if (pget k c.pend).isSome then .commit k
              else match op with
                | .disp p (some v) => .lookup k p v
                | _ => .atomic k op
            match stepConc recheck c ev with
            | none => tryThread (k + 1) seen
            | some o =>
              match o.results with
              | [] =>
                let (ok, seen) := search final o.conf ths seen
                if ok then (true, seen) else tryThread (k + 1) seen
              | (_, r) :: _ =>
                if resWord r == want then
                  let (ok, seen) := search final o.conf (ths.set! k restOps) seen
                  if ok then (true, seen) else tryThread (k + 1) seen
                else tryThread (k + 1) seen
      let (ok, seen) := tryThread 0 seen
      if ok then (true, seen) else (false, seen.insert key)

def concCheck (ws : List String) : Option Bool := do
  -- ws = S op… T op… T op… => R … F …
  let ws ← match ws with
    | "S" :: r => some r
    | _ => none
  let (setup, rest) ← parseThreadOps (ws.length + 1) ws []
  let (threads, rest) ← parseSections (rest.length + 1) rest []
  let rest ← match rest with
    | "=>" :: r => some r
    | _ => none
  let (results, final) ← parseOutcome rest
  if results.length ≠ threads.length then none
  let ths : List Thread ← (threads.zip results).mapM fun (ops, rs) =>
    if ops.length = rs.length then some (ops.zip rs) else none
  let reg0 := setup.foldl (fun reg op => (reg.apply recheck op).1) ({} : Reg)
  pure (search final ⟨reg0, []⟩ ths.toArray {}).1

/-! ### observers beside one mutator -/

def parseWatchers (fuel : Nat) (ws : List String) (acc : List Op) : Option (List Op × List String) :=
  match fuel with
  | 0 => none
  | fuel + 1 =>
    match ws with
    | "W" :: rest =>
      match parseOp rest with
      | some (op, rest') => parseWatchers fuel rest' (op :: acc)
      | none => none
    | _ => some (acc.reverse, ws)

def splitV (ws : List String) : List (List String) :=
  (ws.foldl (fun (acc : List (List String)) w =>
    if w = "V" then [] :: acc
    else match acc with
      | cur :: rest => (w :: cur) :: rest
      | [] => []) []).reverse.map List.reverse

/-- greedy walk: every answer must be the watcher's answer in some state not earlier than the previous one -/
def admissibleSeq (states : List String) (seen : List String) : Bool :=
  (seen.foldl (fun (acc : Option Nat) w =>
    match acc with
    | none => none
    | some j => ((List.range states.length).find? fun k => j ≤ k && states[k]! == w)) (some 0)).isSome

def watchCheck (ws : List String) : Option Bool := do
  let ws ← match ws with
    | "S" :: r => some r
    | _ => none
  let rec takeOps (fuel : Nat) (ws : List String) (acc : List Op) : Option (List Op × List String) :=
    match fuel with
    | 0 => none
    | fuel + 1 =>
      match ws with
      | [] => some (acc.reverse, [])
      | "M" :: _ => some (acc.reverse, ws)
      | "W" :: _ => some (acc.reverse, ws)
      | "=>" :: _ => some (acc.reverse, ws)
      | _ =>
        match parseOp ws with
        | some (op, rest) => takeOps fuel rest (op :: acc)
        | none => none
  let (setup, rest) ← takeOps (ws.length + 1) ws []
  let rest ← match rest with
    | "M" :: r => some r
    | _ => none
  let (mutator, rest) ← takeOps (rest.length + 1) rest []
  let (watchers, rest) ← parseWatchers (rest.length + 1) rest []
  let rest ← match rest with
    | "=>" :: r => some r
    | _ => none
  let seen := splitV rest
  if seen.length ≠ watchers.length then none
  let reg0 := setup.foldl (fun reg op => (reg.apply recheck op).1) ({} : Reg)
  -- the registry before, between and after the mutator's calls
  let regs := (mutator.foldl (fun (acc : List Reg × Reg) op =>
    let reg' := (acc.2.apply recheck op).1
    (acc.1 ++ [reg'], reg')) ([reg0], reg0)).1
  pure ((watchers.zip seen).all fun (w, s) => admissibleSeq (regs.map fun reg => (applyWord reg w).2) s)

/-! ### one line -/

def codeOf (e : RErr) : Nat := (e.code Gen.Registry.registryErrorCode Gen.Registry.errorCodes).getD 0
def notFoundCode : Nat := (lookupStr "MethodNotFound" Gen.Registry.errorCodes).getD 0

/-- `recorded` = what the dependency's decoder gave for these bytes (from the op line). -/
def mountObs (st : St) (lookup path : List Char) (fmt : Nat) (body : Bytes) (recorded : Option J) : St × String :=
  let dec : Decoders := ⟨fun _ => recorded, fun _ => recorded, fun _ => match recorded with
    | some (.str s) => some s
    | _ => none⟩
  match (routerFind st.prefixes lookup).map fun pre =>
      st.reg.handleAt dec codeOf notFoundCode recheck pre path fmt body with
  | none => (st, "none")
  | some (reg', resp) =>
    let s := match resp.ec, resp.body with
      | 0, some v => "ok " ++ showJ v
      | ec, _ => if 1000001 ≤ ec ∧ ec ≤ 1000003 then "unspecified" else "err " ++ toString ec
    ({ st with reg := reg' }, s ++ " c" ++ toString reg'.log.length)

def step (st : St) (ws : List String) : St × String :=
  match ws with
  | ["reset", _] => ({ st with reg := {} }, "")
  | "router" :: _ :: _ :: _ :: ps =>
    match ps.mapM parseStrWord with
    | some ps => ({ st with prefixes := ps }, "")
    | none => (st, "bad-op")
  | ["dump", idx] => (st, joinSp [idx, "dump", dumpWords st.reg])
  | ["req", idx, p, q, _via, _hdr, fmt, hex, dec] =>
    -- lookup path, the message's query (`=` the same, `!` not UTF-8: the handler then sees ""), entry point and
    -- header fields (no influence), format code, body bytes, recorded decoder outcome
    match parseStrWord p, fmt.toNat?, bytesOfHex hex,
        (if dec = "!" ∨ dec = "-" then some none else (J.parse dec).map some) with
    | some lookup, some fmt, some body, some recorded =>
      match (if q = "=" then some lookup else if q = "!" then some [] else parseStrWord q) with
      | some query =>
        let (st', s) := mountObs st lookup query fmt body recorded
        (st', idx ++ " " ++ s)
      | none => (st, idx ++ " bad-op")
    | _, _, _, _ => (st, idx ++ " bad-op")
  | ["jp", idx, p] =>
    match parseStrWord p with
    | some p => (st, idx ++ " " ++ showJ (J.arr ((jpParse p).map J.str)))
    | none => (st, idx ++ " bad-op")
  | ["wire", idx, ver, notify, qfmt, p, fmt, hex, dec] =>
    -- one frame to a real Server: dispatched iff version 1, JSON-pointer query that is UTF-8, below a mounted prefix,
    -- body decodable; otherwise refused before any effect (what the server answers then is another property's)
    match fmt.toNat?, bytesOfHex hex,
        (if dec = "!" ∨ dec = "-" then some none else (J.parse dec).map some) with
    | some fmt, some body, some recorded =>
      let dec : Decoders := ⟨fun _ => recorded, fun _ => recorded, fun _ => match recorded with
        | some (.str s) => some s
        | _ => none⟩
      let target : Option (Ptr × Option J) :=
        if ver = "1" ∧ qfmt = "1" ∧ p ≠ "!" then
          match parseStrWord p with
          | some path =>
            match routerFind st.prefixes path with
            | some pre =>
              match pointerFor pre path, decodeBody dec fmt body with
              | some ptr, .ok b => some (ptr, b)
              | _, _ => none
            | none => none
          | none => none
        else none
      match target with
      | none => (st, idx ++ " refused c" ++ toString st.reg.log.length)
      | some (ptr, b) =>
        let (reg', r) := st.reg.dispatch recheck ptr b
        let c := " c" ++ toString reg'.log.length
        ({ st with reg := reg' },
          if (match r with
              | .error e => isPanicCode e
              | _ => false) then idx ++ " unspecified" ++ c
          else if notify = "1" then idx ++ " dispatched" ++ c
          else idx ++ " " ++ (match r with
            | .ok v => "ok " ++ showJ v
            | .error e => if isPanicCode e then "unspecified" else "err " ++ toString (codeOf e)) ++ c)
    | _, _, _ => (st, idx ++ " bad-op")
  | ["jpd", idx, d, sfx] =>
    match d.toNat?, parseStrWord sfx with
    | some d, some sfx =>
      let leaf : J := .obj [("target".toList, .num "1"), ("k".toList, .arr [.num "0", .num "1"])]
      let names := (List.range d).map fun i => ("d" ++ toString i).toList
      let doc := names.foldr (fun nm v => J.obj [(nm, v)]) leaf
      let p := (names.foldr (fun nm acc => '/' :: (nm ++ acc)) sfx)
      (st, joinSp [idx, (match jpEval doc p with
        | some r => "some " ++ showJ r
        | none => "none"), toString (jpParse p).length])
    | _, _ => (st, idx ++ " bad-op")
  | ["jpe", idx, j, p] =>
    match J.parse j, parseStrWord p with
    | some v, some p =>
      (st, idx ++ " " ++ match jpEval v p with
        | some r => "some " ++ showJ r
        | none => "none")
    | _, _ => (st, idx ++ " bad-op")
  | ["enum", idx, dom, len] =>
    match domain dom, len.toNat? with
    | some d, some n => if n < 2 then (st, idx ++ " bad-op") else (st, "\n".intercalate (enumLines idx d n))
    | _, _ => (st, idx ++ " bad-op")
  | "rep" :: idx :: n :: rest =>
    match n.toNat?, parseOp rest with
    | some n, some (op, []) =>
      let (reg', h, last) := (List.range n).foldl (fun (acc : Reg × UInt64 × String) _ =>
        let (reg', o) := applyObs acc.1 op
        (reg', fnv acc.2.1 o, o)) (st.reg, 0xcbf29ce484222325, "")
      ({ st with reg := reg' }, joinSp [idx, toString h.toNat, "last", last])
    | _, _ => (st, idx ++ " bad-op")
  | "watch" :: idx :: _iters :: rest =>
    match watchCheck rest with
    | some true => (st, idx ++ " admissible")
    | some false => (st, idx ++ " NOT-admissible")
    | none => (st, idx ++ " bad-op")
  | "conc" :: idx :: _iters :: rest =>
    match concCheck rest with
    | some true => (st, idx ++ " member")
    | some false => (st, idx ++ " NOT-member")
    | none => (st, idx ++ " bad-op")
  | name :: idx :: args =>
    match parseOp ((if name = "nregv" then "regv" else name) :: args) with
    | some (op, []) =>
      let (reg', o) := applyObs st.reg op
      ({ st with reg := reg' }, idx ++ " " ++ o)
    | _ => (st, idx ++ " bad-op")
  | _ => (st, "bad-op")

end Repe.Driver.Registry

def main : IO Unit := Repe.Driver.loop Repe.Driver.Registry.step {}
