import RepeVerif.Model.Mux
import RepeVerif.Gen.Mux
import RepeVerif.Driver.Common
/-!
Driver for the `mux` (C04) and `deadconn` (C06) correspondence families.  `client` is 0 = `Client`,
1 = `AsyncClient`, 2 = `WebSocketClient`; the model runs with that client's extracted `Cfg`.

```
case <i> <client> <N> <ids id_0,..,id_{N-1}> <script tok,tok,..|->
      tok = r<c> response to caller c | n<c> notify-flag frame re-using caller c's id
          | u<k> response with an id nobody issued | x<k> notify-flag frame with such an id
      (frame tag = position in the script)
   -> <i> got <o_0>,..,<o_{N-1}> sub <tags|->        o_c = tag of the frame caller c returned | E | HANG
batch <i> <client> <N> <W> <order k,k,..>
   -> <i> out <t_0>,..                               t_j = request index whose result sits in slot j
dead <i> <client> <N> <tmo 0|1> <answered K> <fault> <when> <cut>
   -> <i> outcomes <own|Err|HANG>,.. later <Err|own|HANG> sub <eof|open|->
tmo <i> <client> <late|early|race>                   -> <i> first <Timeout|own|racy> next own
cancel <i> <client> <prewrite|wait>                  -> <i> cancelled next own residue 0
stall <i> <client> <fault>                           -> <i> small Err big Err later Err
abandon <i> <client> <MiB>                           -> <i> next returned
wtmo <i> <client> <N> <MiB>                          -> <i> small Err,.. big Err
seq <i> <client> <T> <K>                             -> <i> ok <T*K>
seqbig <i> <client> <T> <K> <nbig>                   -> <i> ok <T*K>   (ws: oversized requests refused meanwhile)
fwd <i> 1 <ids|dup|reuse>                            -> <i> ok         (forward_message, caller-chosen ids)
life <i> <client> <seed>                             -> <i> ok         (one client, long mixed sequence)
lates|mlates <i> <client> <K> <late|unknown|dup|cancel|errs|push>  -> <i> pending own later own
batchtmo <i> <client> <N>                            -> <i> ok
slowpeer <i> <client> <MiB>                          -> <i> small own big ok later own
fwdres <i> 1                                         -> <i> ok         (forward timed out / cancelled: no residue)
sched <i> <client> <N> <S0,W0,Fr0,D,T0,C0,X,A,..>    -> <i> got <tag|T|E|HANG|->,.. gates <m|u|n>,..
      (forced on the real client through the verif-hooks probe points, see fam_mux.rs `mod sched`)
```
-/
namespace Repe.Driver.Mux
open Repe Repe.Driver Repe.Mux

def cfgOf (client : Nat) : Option Cfg :=
  match client with
  | 0 => some Gen.Mux.blockingCfg
  | 1 => some Gen.Mux.asyncCfg
  | 2 => some Gen.Mux.wsCfg
  | _ => none

def splitCommas (s : String) : List String := if s = "-" then [] else s.splitOn ","

def insSorted (x : Nat × Nat) : List (Nat × Nat) → List (Nat × Nat)
  | [] => [x]
  | y :: r => if x.1 ≤ y.1 then x :: y :: r else y :: insSorted x r

/-- Allocate ids in the observed order (callers sorted by observed id); a client-side notify or an
earlier call consumed the ids in between (`skip`).  `none` = an observed id is not fresh. -/
def allocAll (cfg : Cfg) (s : State) : List (Nat × Nat) → Option State
  | [] => some s
  | (id, c) :: r =>
    if id < s.nextId then none
    else
      let s := (List.range (id - s.nextId)).foldl (fun s _ => step cfg s .skip) s
      allocAll cfg (step cfg s (.alloc c)) r

def showOutcome (k : Call) : String :=
  match k.pc with
  | .returned (.resp f) => if f.tag ≥ 900000 then "E" else toString f.tag
  | .returned _ => "E"
  | .abandoning _ => "E"
  | _ => "HANG"

def parseTok (ids : List Nat) (unknownBase : Nat) (tag : Nat) (t : String) : Option Frame :=
  let n := (t.drop 1).toNat?
  match t.front, n with
  | 'e', some k => some { id := unknownBase + k, notify := false, tag := tag }   -- unknown id, ec != 0
  | 'b', some k => some { id := unknownBase + k, notify := false, tag := tag }   -- unknown id, large body
  | 'v', some c => (ids[c]?).map fun id => { id := id, notify := false, tag := 900000 + tag }  -- wrong version: the call fails
  | 'r', some c => (ids[c]?).map fun id => { id := id, notify := false, tag := tag }
  | 'n', some c => (ids[c]?).map fun id => { id := id, notify := true, tag := tag }
  | 'u', some k => some { id := unknownBase + k, notify := false, tag := tag }
  | 'x', some k => some { id := unknownBase + k, notify := true, tag := tag }
  | _, _ => none

def parseScript (ids : List Nat) (unknownBase : Nat) (toks : List String) : Option (List Frame) :=
  (toks.zipIdx).mapM fun (t, i) => parseTok ids unknownBase i t

def runCase (cfg : Cfg) (ids : List Nat) (toks : List String) : String :=
  let n := ids.length
  let callers := List.range n
  let s0 := step cfg State.init .subscribe
  let sorted := (ids.zip callers).foldl (fun acc x => insSorted x acc) []
  match allocAll cfg s0 sorted with
  | none => "idreuse"
  | some s =>
    let unknownBase := s.nextId + 1000000
    match parseScript ids unknownBase toks with
    | none => "bad-op"
    | some frames =>
      let s := callers.foldl (fun s c => step cfg (step cfg s (.register c)) (.write c)) s
      let s := frames.foldl (fun s f => step cfg (step cfg s (.rmatch f)) .deliver) s
      let s := callers.foldl (fun s c => step cfg s (.recv c)) s
      let got := ",".intercalate (callers.map fun c => showOutcome (s.calls c))
      let sub := if s.subQueue.isEmpty then "-" else ",".intercalate (s.subQueue.map fun e => toString e.2.tag)
      "got " ++ got ++ " sub " ++ sub

/-- The scripted batch server: holds up to `w` arrived requests (arrival = index order in the
model), answers `held[order[k] % |held|]` at its `k`-th answer. Returns the finish order. -/
def batchFinishOrder (n w : Nat) (order : List Nat) (rev : Bool := false) : List Nat :=
  let rec go (fuel : Nat) (held : List Nat) (next answered : Nat) (acc : List Nat) : List Nat :=
    match fuel with
    | 0 => acc.reverse
    | fuel + 1 =>
      let take := min (w - held.length) (n - next)
      let held := held ++ (List.range take).map (· + next)
      let next := next + take
      if held.isEmpty then acc.reverse
      else
        let pick := if rev then held.length - 1 else (order.getD (answered % (max order.length 1)) 0) % held.length
        let c := held.getD pick 0
        go fuel (held.eraseIdx pick) next (answered + 1) (c :: acc)
  go n [] 0 0 []

/-- batch: worker `j` pops request `j` (pops happen in index order), the calls finish in the
server's order; the call for request `q` returns `q` (the server echoes the request's own tag). -/
def runBatch (n w : Nat) (order : List Nat) (rev : Bool := false) : String :=
  let b : Batch Nat Nat := Batch.start (List.range n)
  let b := (List.range n).foldl (fun b w => bstep b (.pop w)) b
  let b := (batchFinishOrder n w order rev).foldl (fun b w => match b.cur w with
    | some (_, q) => bstep b (.finish w q)
    | none => b) b
  "out " ++ ",".intercalate (b.out.map fun o => match o with | some t => toString t | none => "none")

def showDead (answeredOwn : Bool) (k : Call) : String :=
  match k.pc with
  | .returned (.resp _) => if answeredOwn then "own" else "other"
  | .returned _ => "Err"
  | .abandoning _ => "Err"
  | _ => "HANG"

def failToEnd (cfg : Cfg) (s : State) (fuel : Nat) : State :=
  match fuel with
  | 0 => s
  | fuel + 1 =>
    match s.reader with
    | .failing _ _ _ => failToEnd cfg (step cfg s .failStep) fuel
    | _ => s

def runDead (cfg : Cfg) (n answered : Nat) : String :=
  let callers := List.range n
  let s := step cfg State.init .subscribe
  let s := callers.foldl (fun s c => step cfg (step cfg (step cfg s (.alloc c)) (.register c)) (.write c)) s
  let s := (List.range answered).foldl (fun s c =>
    step cfg (step cfg s (.rmatch { id := (s.calls c).id, notify := false, tag := c })) .deliver) s
  let s := failToEnd cfg (step cfg s .readErr) (n + cfg.failOrder.length + 4)
  let s := callers.foldl (fun s c => step cfg s (.recv c)) s
  let late := n
  let s := [Ev.alloc late, .register late, .write late, .cleanup late, .recv late].foldl (step cfg) s
  let outs := if n = 0 then "-" else ",".intercalate (callers.map fun c =>
    showDead (match (s.calls c).pc with | .returned (.resp f) => f.tag == c | _ => false) (s.calls c))
  let sub := if cfg.notifyAware then (if s.sub.isNone then "eof" else "open") else "-"
  "outcomes " ++ outs ++ " later " ++ showDead false (s.calls late) ++ " sub " ++ sub

def showTmo (k : Call) : String :=
  match k.pc with
  | .returned (.resp _) => "own"
  | .returned .timedOut => "Timeout"
  | .returned _ => "Err"
  | _ => "HANG"

def runTmo (cfg : Cfg) (kind : String) : String :=
  let s := [Ev.alloc 0, .register 0, .write 0].foldl (step cfg) State.init
  let f0 : Frame := { id := (s.calls 0).id, notify := false, tag := 0 }
  let lateEvs := [Ev.timeout 0, .cleanup 0, .rmatch f0, .deliver, .recv 0]
  let earlyEvs := [Ev.rmatch f0, .deliver, .timeout 0, .recv 0, .cleanup 0]
  -- the race in between: the reader removed the entry, the timer fires before the send
  let midEvs := [Ev.rmatch f0, .timeout 0, .deliver, .cleanup 0, .recv 0]
  let next (s : State) : State :=
    let s := [Ev.alloc 1, .register 1, .write 1].foldl (step cfg) s
    [Ev.rmatch { id := (s.calls 1).id, notify := false, tag := 1 }, .deliver, .recv 1].foldl (step cfg) s
  let fin (evs : List Ev) := next (evs.foldl (step cfg) s)
  let first :=
    if kind = "late" then some (showTmo ((fin lateEvs).calls 0))
    else if kind = "early" then some (showTmo ((fin earlyEvs).calls 0))
    else if kind = "race" then
      let a := showTmo ((fin lateEvs).calls 0)
      let b := showTmo ((fin earlyEvs).calls 0)
      let c := showTmo ((fin midEvs).calls 0)
      if (a = "Timeout" || a = "own") && (b = "Timeout" || b = "own") && (c = "Timeout" || c = "own") then some "racy"
      else some "bad"
    else none
  let evs := if kind = "late" then lateEvs else if kind = "early" then earlyEvs else midEvs
  match first with
  | none => "bad-op"
  | some f =>
    let nexts := [lateEvs, earlyEvs, midEvs].map fun e => showTmo ((fin e).calls 1)
    let nx := if kind = "race" then (if nexts.all (· == "own") then "own" else "bad") else showTmo ((fin evs).calls 1)
    "first " ++ f ++ " next " ++ nx

def runCancel (cfg : Cfg) (kind : String) : String :=
  let pre := if kind = "prewrite" then some [Ev.alloc 0, .register 0, .cancel 0, .cleanup 0]
    else if kind = "wait" then some [Ev.alloc 0, .register 0, .write 0, .cancel 0, .cleanup 0]
    else none
  match pre with
  | none => "bad-op"
  | some pre =>
    let s := pre.foldl (step cfg) State.init
    let residue := s.pending.length
    -- the late response for the cancelled call (only if it was written), then another call
    let s := [Ev.rmatch { id := (s.calls 0).id, notify := false, tag := 0 }, .deliver].foldl (step cfg) s
    let s := [Ev.alloc 1, .register 1, .write 1].foldl (step cfg) s
    let s := [Ev.rmatch { id := (s.calls 1).id, notify := false, tag := 1 }, .deliver, .recv 1].foldl (step cfg) s
    let c0 := match (s.calls 0).pc with | .returned .cancelled => "cancelled" | _ => "bad"
    c0 ++ " next " ++ showTmo (s.calls 1) ++ " residue " ++ toString residue

/-- `n` calls one after the other, each answered at once: all return their own response. -/
def runSeq (cfg : Cfg) (n : Nat) : String :=
  let rec go (fuel : Nat) (c : Nat) (s : State) (ok : Nat) : Nat :=
    match fuel with
    | 0 => ok
    | fuel + 1 =>
      let s := [Ev.alloc c, .register c, .write c].foldl (step cfg) s
      let s := [Ev.rmatch { id := (s.calls c).id, notify := false, tag := c }, .deliver, .recv c].foldl (step cfg) s
      let good := match (s.calls c).pc with | .returned (.resp f) => f.tag == c | _ => false
      go fuel (c + 1) s (if good then ok + 1 else ok)
  "ok " ++ toString (go n 0 State.init 0)

/-- A caller (7) is stalled inside its write when the failure is noticed; the small call (0) is in
flight.  Both end with an error once the failure path has run. -/
def runStall (cfg : Cfg) : String :=
  let s := [Ev.alloc 0, .register 0, .write 0, .alloc 7, .register 7].foldl (step cfg) State.init
  let s := failToEnd cfg (step cfg s .readErr) (cfg.failOrder.length + 6)
  let s := [Ev.recv 0, .write 7, .cleanup 7, .recv 7].foldl (step cfg) s
  let s := [Ev.alloc 1, .register 1, .write 1, .cleanup 1, .recv 1].foldl (step cfg) s
  "small " ++ showDead false (s.calls 0) ++ " big " ++ showDead false (s.calls 7) ++ " later " ++ showDead false (s.calls 1)

/-- A call is cancelled while writing (`cancel`, `cleanup`), then another call is made: it returns. -/
def runAbandon (cfg : Cfg) : String :=
  let s := [Ev.alloc 7, .register 7, .cancel 7, .cleanup 7, .alloc 1, .register 1, .write 1].foldl (step cfg) State.init
  -- either the client refuses to go on (write error / connection failed) or the call is answered
  let a := [Ev.rmatch { id := (s.calls 1).id, notify := false, tag := 1 }, .deliver, .recv 1].foldl (step cfg) s
  let b := failToEnd cfg (step cfg s .readErr) 12
  let b := step cfg b (.recv 1)
  let fin (k : Call) : Bool := match k.pc with | .returned _ => true | _ => false
  "next " ++ (if fin (a.calls 1) && fin (b.calls 1) then "returned" else "HANG")

/-- `n` calls in flight, a further call's write fails (write timeout); the client shuts the
connection down, the reader notices and fails everything. -/
def runWtmo (cfg : Cfg) (n : Nat) : String :=
  let callers := List.range n
  let s := callers.foldl (fun s c => step cfg (step cfg (step cfg s (.alloc c)) (.register c)) (.write c)) State.init
  let s := [Ev.alloc 7, .register 7, .writeFail 7, .cleanup 7].foldl (step cfg) s
  let s := failToEnd cfg (step cfg s .readErr) (n + 12)
  let s := callers.foldl (fun s c => step cfg s (.recv c)) s
  "small " ++ ",".intercalate (callers.map fun c => showDead false (s.calls c)) ++ " big " ++ showDead false (s.calls 7)

/-- `k` frames in a row that nobody waits for (late answers of timed-out calls / unknown ids /
duplicates) while call 0 is pending, then its reply, then a later call. -/
def runLates (cfg : Cfg) (k : Nat) (shape : String) : String :=
  let s := [Ev.alloc 0, .register 0, .write 0].foldl (step cfg) State.init
  let callers := (List.range k).map (· + 1)
  let s :=
    if shape == "late" then
      let s := callers.foldl (fun s c => [Ev.alloc c, .register c, .write c, .timeout c, .cleanup c].foldl (step cfg) s) s
      callers.foldl (fun s c => [Ev.rmatch { id := (s.calls c).id, notify := false, tag := c }, .deliver].foldl (step cfg) s) s
    else if shape == "cancel" then
      let s := callers.foldl (fun s c => [Ev.alloc c, .register c, .write c, .cancel c, .cleanup c].foldl (step cfg) s) s
      callers.foldl (fun s c => [Ev.rmatch { id := (s.calls c).id, notify := false, tag := c }, .deliver].foldl (step cfg) s) s
    else if shape == "errs" then
      let s := callers.foldl (fun s c => [Ev.alloc c, .register c, .write c].foldl (step cfg) s) s
      callers.foldl (fun s c => [Ev.rmatch { id := (s.calls c).id, notify := false, tag := c }, .deliver, .recv c].foldl (step cfg) s) s
    else if shape == "push" then
      let s := step cfg s .subscribe
      callers.foldl (fun s j => [Ev.rmatch { id := 3000000000 + j, notify := true, tag := j }, .deliver].foldl (step cfg) s) s
    else if shape == "dup" then
      let s := [Ev.alloc 1, .register 1, .write 1].foldl (step cfg) s
      let s := [Ev.rmatch { id := (s.calls 1).id, notify := false, tag := 1 }, .deliver, .recv 1].foldl (step cfg) s
      callers.foldl (fun s _ => [Ev.rmatch { id := (s.calls 1).id, notify := false, tag := 1 }, .deliver].foldl (step cfg) s) s
    else
      callers.foldl (fun s j => [Ev.rmatch { id := 2000000000 + j, notify := false, tag := j }, .deliver].foldl (step cfg) s) s
  let s := [Ev.rmatch { id := (s.calls 0).id, notify := false, tag := 0 }, .deliver, .recv 0].foldl (step cfg) s
  let l := k + 2
  let s := [Ev.alloc l, .register l, .write l].foldl (step cfg) s
  let s := [Ev.rmatch { id := (s.calls l).id, notify := false, tag := l }, .deliver, .recv l].foldl (step cfg) s
  let sh (c : Nat) : String := match (s.calls c).pc with
    | .returned (.resp f) => if f.tag == c then "own" else "Err"
    | .returned _ => "Err"
    | _ => "HANG"
  "pending " ++ sh 0 ++ " later " ++ sh l

/-! ### `sched`: the action lists forced on the real clients through the probe points -/

/-- Steps of the failure path that execute no statement of `fail_all_pending` (an empty send loop,
leaving the function) are taken silently: the real reader has no gate there. -/
def absorb (cfg : Cfg) (s : State) (fuel : Nat) : State :=
  match fuel with
  | 0 => s
  | fuel + 1 =>
    match s.reader with
    | .failing (.sendErrors :: _) [] _ => absorb cfg (step cfg s .failStep) fuel
    | .failing [] [] _ => step cfg s .failStep
    | _ => s

def showSched (k : Call) : String :=
  match k.pc with
  | .returned (.resp f) => toString f.tag
  | .returned .timedOut => "T"
  | .returned _ => "E"
  | .abandoning _ => "E"
  | .idle => "-"
  | _ => "HANG"

structure SchedSt where
  s : State
  ftag : Nat := 0
  gates : List String := []
  bad : Bool := false

def schedAct (cfg : Cfg) (st : SchedSt) (a : String) : SchedSt :=
  let rest : List Char := a.toList.drop 1
  let num (t : List Char) : Nat := natOf (String.ofList (t.filter Char.isDigit))
  match a.toList.headD ' ' with
  | 'S' => let c := num rest; { st with s := step cfg (step cfg st.s (.alloc c)) (.register c) }
  | 'W' =>
    let c := num rest
    let s := step cfg st.s (.write c)
    -- a failed write removes the entry and returns in one go
    let s := match (s.calls c).pc with | .abandoning .writeErr => step cfg s (.cleanup c) | _ => s
    { st with s := s }
  | 'T' => { st with s := step cfg st.s (.timeout (num rest)) }
  | 'C' => { st with s := step cfg st.s (.cleanup (num rest)) }
  | 'F' =>
    let k := num (rest.drop 1)
    let f : Option Frame :=
      match rest.headD ' ' with
      | 'r' => some { id := (st.s.calls k).id, notify := false, tag := st.ftag }
      | 'n' => some { id := (st.s.calls k).id, notify := true, tag := st.ftag }
      | 'u' => some { id := 1000000000 + k, notify := false, tag := st.ftag }
      | _ => none
    match f with
    | none => { st with bad := true }
    | some f =>
      let s := step cfg st.s (.rmatch f)
      let g := match s.reader with
        | .holding _ _ => "m"
        | .holdingNotify _ _ => "n"
        | _ => if cfg.notifyAware && f.notify then "n" else "u"
      { st with s := s, ftag := st.ftag + 1, gates := st.gates ++ [g] }
  | 'D' => { st with s := step cfg st.s .deliver }
  | 'X' => { st with s := step cfg st.s .readErr }
  | 'A' => { st with s := absorb cfg (step cfg st.s .failStep) 8 }
  | _ => { st with bad := true }

def runSched (cfg : Cfg) (n : Nat) (acts : List String) : String :=
  let st := acts.foldl (schedAct cfg) { s := step cfg State.init .subscribe }
  if st.bad then "bad-op" else
  let callers := List.range n
  -- whatever is left of the failure path runs to its end, then every call collects what it has
  let s := failToEnd cfg st.s 40
  let s := callers.foldl (fun s c => step cfg s (.recv c)) s
  "got " ++ ",".intercalate (callers.map fun c => showSched (s.calls c)) ++
    " gates " ++ (if st.gates.isEmpty then "-" else ",".intercalate st.gates)

def stepLine (_ : Unit) (ws : List String) : Unit × String :=
  let bad (i : String) := ((), i ++ " bad-op")
  match ws with
  | ["case", i, client, n, ids, script, _vars, _frag] =>
    -- `_frag`: how the peer cut its writes into pieces (TCP): invisible above the framing layer
    match cfgOf (natOf client) with
    | none => bad i
    | some cfg =>
      let idl := (splitCommas ids).map natOf
      if idl.length ≠ natOf n then bad i else ((), i ++ " " ++ runCase cfg idl (splitCommas script))
  | ["case", i, client, n, ids, script, _vars] =>
    -- `_vars`: the public entry point each caller used (call_json, call_typed_beve, registry_read, …):
    -- all of them go through the same call path of the model
    match cfgOf (natOf client) with
    | none => bad i
    | some cfg =>
      let idl := (splitCommas ids).map natOf
      if idl.length ≠ natOf n then bad i else ((), i ++ " " ++ runCase cfg idl (splitCommas script))
  | ["case", i, client, n, ids, script] =>
    match cfgOf (natOf client) with
    | none => bad i
    | some cfg =>
      let idl := (splitCommas ids).map natOf
      if idl.length ≠ natOf n then bad i else ((), i ++ " " ++ runCase cfg idl (splitCommas script))
  | ["batch", i, client, n, w, order] =>
    match cfgOf (natOf client) with
    | none => bad i
    | some _ => ((), i ++ " " ++ runBatch (natOf n) (natOf w) ((splitCommas order).map natOf) (order == "rev"))
  | ["dead", i, client, n, _tmo, answered, fault, _when, _cut] =>
    match cfgOf (natOf client) with
    | none => bad i
    | some cfg =>
      -- `.s0` = no notify subscriber was registered: nothing to observe on that side
      let o := runDead cfg (natOf n) (natOf answered)
      ((), i ++ " " ++ (if (fault.splitOn ".").contains "s0" then o.replace "sub eof" "sub -" else o))
  | ["tmo", i, client, kind] =>
    -- `late.<v>`, `zero.<v>`, `early.<v>`: the same scenario through the `_with_timeout` twin of entry point <v>
    let base := (kind.splitOn ".").headD ""
    let base := if base == "zero" then "late" else base
    match cfgOf (natOf client) with
    | none => bad i
    | some cfg => ((), i ++ " " ++ runTmo cfg base)
  | ["sched", i, client, n, acts] =>
    match cfgOf (natOf client) with
    | none => bad i
    | some cfg => ((), i ++ " " ++ runSched cfg (natOf n) (splitCommas acts))
  | ["seqbig", i, client, t, k, _nbig] =>
    match cfgOf (natOf client) with
    | none => bad i
    | some cfg => ((), i ++ " " ++ runSeq cfg (natOf t * natOf k))
  | ["fwd", i, client, _mode] =>
    -- caller-chosen ids behave like issued ids as long as they are distinct among the calls in flight
    match cfgOf (natOf client) with
    | none => bad i
    | some cfg => ((), i ++ (if runSeq cfg 3 == "ok 3" then " ok" else " bad"))
  | ["drops", i, client] =>
    match cfgOf (natOf client) with
    | none => bad i
    | some cfg => ((), i ++ (if runSeq cfg 1 == "ok 1" then " ok" else " bad"))
  | ["life", i, client, _seed] =>
    -- one client through timeouts, error responses, failed serialisations, notifies, a batch, a cancel:
    -- in the model each of these leaves the state in which the next call is served (`others_still_served`)
    match cfgOf (natOf client) with
    | none => bad i
    | some cfg =>
      let a := runTmo cfg "late"
      let b := runCancel cfg "wait"
      ((), i ++ (if a == "first Timeout next own" && b == "cancelled next own residue 0" && runSeq cfg 4 == "ok 4" then " ok" else " bad"))
  | ["mlates", i, client, k, shape] =>
    match cfgOf (natOf client) with
    | none => bad i
    | some cfg => ((), i ++ " " ++ runLates cfg (natOf k) shape)
  | ["gap", i, client, how] =>
    -- call 1 gives up (timeout / cancel + cleanup) between the two halves of call 0's response: in the model
    -- the frame is one `rmatch`, abandoning another call does not touch it
    match cfgOf (natOf client) with
    | none => bad i
    | some cfg =>
      let s := [Ev.alloc 0, .register 0, .write 0, .alloc 1, .register 1, .write 1].foldl (step cfg) State.init
      let s := [if how == "tmo" then Ev.timeout 1 else Ev.cancel 1, .cleanup 1].foldl (step cfg) s
      let s := [Ev.rmatch { id := (s.calls 0).id, notify := false, tag := 0 }, .deliver, .recv 0,
                Ev.rmatch { id := (s.calls 1).id, notify := false, tag := 1 }, .deliver].foldl (step cfg) s
      let s := [Ev.alloc 2, .register 2, .write 2].foldl (step cfg) s
      let s := [Ev.rmatch { id := (s.calls 2).id, notify := false, tag := 2 }, .deliver, .recv 2].foldl (step cfg) s
      let sh (c : Nat) : String := match (s.calls c).pc with
        | .returned (.resp f) => if f.tag == c then "own" else "Err"
        | .returned _ => "Err"
        | _ => "HANG"
      ((), i ++ " got " ++ sh 0 ++ " later " ++ sh 2)
  | ["mstallfrag", i, client, _ms] =>
    match cfgOf (natOf client) with
    | none => bad i
    | some cfg => ((), i ++ (if runSeq cfg 2 == "ok 2" then " got own,own" else " bad"))
  | ["stallfrag", i, client, _ms] =>
    -- how long the pieces of a frame take to arrive is no event of the model: both calls are served
    match cfgOf (natOf client) with
    | none => bad i
    | some cfg => ((), i ++ (if runSeq cfg 2 == "ok 2" then " got own,own" else " bad"))
  | ["knobs", i, client, n] =>
    match cfgOf (natOf client) with
    | none => bad i
    | some cfg => ((), i ++ (if runSeq cfg (natOf n + 1) == "ok " ++ toString (natOf n + 1) then " ok" else " bad"))
  | ["batchtmo", i, client, _n] =>
    -- a timed-out entry is one call's `timeout`/`cleanup`; the other entries are served (`others_still_served`)
    match cfgOf (natOf client) with
    | none => bad i
    | some cfg => ((), i ++ (if runTmo cfg "late" == "first Timeout next own" then " ok" else " bad"))
  | ["slowpeer", i, client, _mib] =>
    -- a slow write is no event of the model: the call in flight and the later call are served
    match cfgOf (natOf client) with
    | none => bad i
    | some cfg => ((), i ++ (if runSeq cfg 3 == "ok 3" then " small own big ok later own" else " bad"))
  | ["lates", i, client, k, shape] =>
    match cfgOf (natOf client) with
    | none => bad i
    | some cfg => ((), i ++ " " ++ runLates cfg (natOf k) shape)
  | ["fwdres", i, client] =>
    match cfgOf (natOf client) with
    | none => bad i
    | some cfg =>
      let a := runTmo cfg "late"
      let b := runCancel cfg "wait"
      ((), i ++ (if a == "first Timeout next own" && b == "cancelled next own residue 0" then " ok" else " bad"))
  | ["seq", i, client, t, k] =>
    match cfgOf (natOf client) with
    | none => bad i
    | some cfg => ((), i ++ " " ++ runSeq cfg (natOf t * natOf k))
  | ["abandon", i, client, _mib] =>
    match cfgOf (natOf client) with
    | none => bad i
    | some cfg => ((), i ++ " " ++ runAbandon cfg)
  | ["wtmo", i, client, n, _mib] =>
    match cfgOf (natOf client) with
    | none => bad i
    | some cfg => ((), i ++ " " ++ runWtmo cfg (natOf n))
  | ["stall", i, client, _fault] =>
    match cfgOf (natOf client) with
    | none => bad i
    | some cfg => ((), i ++ " " ++ runStall cfg)
  | ["cancel", i, client, kind] =>
    match cfgOf (natOf client) with
    | none => bad i
    | some cfg => ((), i ++ " " ++ runCancel cfg kind)
  | _ :: i :: _ => bad i
  | _ => ((), "? bad-op")

end Repe.Driver.Mux

def main : IO Unit := Repe.Driver.loop Repe.Driver.Mux.stepLine ()
