import RepeVerif.Model.Peers
import RepeVerif.Driver.Common
/-!
Driver for the `peers` correspondence family (C18).  Keys travel as the lower-case hex of their
UTF-8 bytes and are used as such (hex encoding is injective, the model only compares keys).

```
mode debug|release
reset <i>                                   -> <i> ok
ins <i> <id> <tag> <ok|disc|full|other|rem:<id>>   -> <i> u | <i> PANIC
rem <i> <id>                                -> <i> <id/tag|->
alias <i> <id> <key>                        -> <i> T|F
get <i> <id> | getby <i> <key>              -> <i> <id/tag|->
keyfor <i> <id>                             -> <i> <key|->
aliases <i> <id>                            -> <i> [k,..]
len <i>                                     -> <i> <n>
dump <i>                                    -> <i> <digest over every id/key mentioned since reset>
bcast <i> <raw|json|beve|utf8> <path> <fmt> <body>  -> <i> sent <id/tag:path:fmt:body,..> res <id=r,..>
peers <i>                                   -> <i> [id/tag,..]            (PeerRegistry::peers, sorted)
isempty <i>                                 -> <i> T|F
mint <i>                                    -> <i> <id>                   (PeerRegistry::next_peer_id)
hsend <i> <id> <beve|json|utf8|raw> <path> <fmt> <body>  -> <i> none | <i> <id/tag:path:fmt:body> <result>   (get(id) then PeerHandle::send_notify)
hconn <i> <id>                              -> <i> none|T|F               (PeerHandle::is_connected)
dbg <i> <id>  |  dbgreg <i>                 -> <i> PeerHandle{peer_id:PeerId(N)}|none  /  PeerRegistry{len:N}
ctx <i> new <id> <method> | ctx <i> detached <method>  -> <i> <method> <id/tag|-> <is_cancelled T|F> <cancelled() pending|ready> | none
bcastfail <i> <json|beve> <path>            -> <i> err sent -             (encoder error: nothing is sent)
loop <i> <setup> <cycle> <reader>.. :: <c=ans|ans;..>..  -> <i> ok <n> | <i> INADMISSIBLE   (looped race)
stall <i> <ms>.. / stalljoin <i> / ws <i> <k>  -> <i> started / <i> ok / <i> ok   (checked by the harness's direct oracles)
poison <i>                                  -> <i> done                   (a caller panics inside get_by; state unchanged)
enum <i> <depth> <fold> <prefix|->          -> one line per sequence `<i> <path> <ret> <digest> [h=<hash>]`
conc <i> <setup|-> <t1> <t2> .. :: <outcome> ..     -> <i> ok <n> | <i> NONLIN <outcome>
```
-/
namespace Repe.Driver.Peers
open Repe Repe.Driver Repe.Peers

inductive Beh where
  | ans (r : SendResult)
  | rem (id : Nat)      -- re-entrant sink: removes peer `id` from the registry, then answers Ok
  | okdown              -- answers Ok, `is_connected() = false`
  | plain               -- does not override `is_connected` (trait default `true`), answers Ok
  | slow                -- answers Ok after a delay
  | panic               -- panics inside `send_notify`
  | aliasSelf           -- re-entrant: aliases its own peer id with the key `r<tag>`
  | insNew              -- re-entrant, once: inserts peer 1000+tag with sink tag 100000+tag
  | read                -- re-entrant, read-only

structure St where
  s : State := {}
  debug : Bool := true
  behs : List (Nat × Beh) := []      -- sink tag ↦ behaviour
  ids : List Nat := []               -- universe mentioned since reset (sorted, no duplicates)
  keys : List Key := []
  counter : Nat := 0                 -- the registry's id counter (`next_peer_id`)
  fired : List Nat := []             -- `insNew` sinks that already fired

def insSorted {α} (lt : α → α → Bool) (x : α) : List α → List α
  | [] => [x]
  | y :: r => if lt x y then x :: y :: r else if lt y x then y :: insSorted lt x r else y :: r

def sortBy {α} (lt : α → α → Bool) (l : List α) : List α := l.foldl (fun acc x => insSorted lt x acc) []

def strLt (a b : String) : Bool := decide (a < b)

def showHandle : Option Handle → String
  | some h => toString h.id ++ "/" ++ toString h.tag
  | none => "-"

def showKeys (ks : List Key) : String := "[" ++ ",".intercalate ks ++ "]"

def showRes : SendResult → String
  | .ok => "ok" | .disconnected => "Disconnected" | .full => "Full" | .other => "Other"

/-- All queries of the registry over the given universe, without spaces. -/
def digest (s : State) (ids : List Nat) (keys : List Key) : String :=
  "n=" ++ toString (len s) ++ ";" ++
  ";".intercalate (ids.map fun i =>
    toString i ++ ":" ++ (match get s i with | some h => toString h.tag | none => "-") ++ ":" ++
      (keyFor s i).getD "-" ++ ":" ++ showKeys (aliasesFor s i)) ++ "#" ++
  ";".intercalate (keys.map fun k => k ++ "=" ++ showHandle (getBy s k))

def answerOf (behs : List (Nat × Beh)) (h : Handle) : SendResult :=
  match lookup h.tag behs with
  | some (.ans r) => r
  | _ => .ok

def parseBeh (w : String) : Option Beh :=
  if w = "ok" then some (.ans .ok) else if w = "disc" then some (.ans .disconnected)
  else if w = "full" then some (.ans .full) else if w = "other" then some (.ans .other)
  else if w = "okdown" then some .okdown else if w = "plain" then some .plain else if w = "slow" then some .slow
  else if w = "alias" then some .aliasSelf else if w = "ins" then some .insNew else if w = "read" then some .read
  else match w.splitOn ":" with
    | ["rem", n] => n.toNat?.map Beh.rem
    | ["panic", _] => some .panic
    | _ => none

/-! ### small-scope enumeration: 3 peers × 3 keys, 15 ops coded `a`..`o` -/

def enumIds : List Nat := [0, 1, 2]
def enumKeys : List Key := ["61", "62", "63"]

inductive EOp where
  | ins (p : Nat) | rem (p : Nat) | alias (p : Nat) (k : Nat)
  | getby (k : Nat) | aliases (p : Nat) | len | bcast | get (p : Nat)
  | keyfor (p : Nat) | peers | isempty | dbgreg

/-- op codes: a-c ins, d-f rem, g-o alias p k, p-r getby, s-u aliases, v len, w bcast, x-z get,
A-C (26-28) key_for, D (29) peers, E (30) is_empty, F (31) Debug of the registry -/
def eopOfCode (c : Nat) : Option EOp :=
  if c < 3 then some (.ins c) else if c < 6 then some (.rem (c - 3))
  else if c < 15 then some (.alias ((c - 6) / 3) ((c - 6) % 3))
  else if c < 18 then some (.getby (c - 15)) else if c < 21 then some (.aliases (c - 18))
  else if c = 21 then some .len else if c = 22 then some .bcast
  else if c < 26 then some (.get (c - 23)) else if c < 29 then some (.keyfor (c - 26))
  else if c = 29 then some .peers else if c = 30 then some .isempty else if c = 31 then some .dbgreg else none

def codeChar (c : Nat) : Char := if c < 26 then Char.ofNat (97 + c) else Char.ofNat (65 + c - 26)

def codeOfChar (ch : Char) : Nat :=
  if 97 ≤ ch.toNat ∧ ch.toNat < 123 then ch.toNat - 97
  else if 65 ≤ ch.toNat ∧ ch.toNat < 71 then ch.toNat - 65 + 26 else 99

def eopsOfString (p : String) : Option (List EOp) :=
  if p = "-" then some [] else p.toList.mapM (fun ch => eopOfCode (codeOfChar ch))

def keyName (k : Nat) : Key := enumKeys.getD k "?"

/-- Apply one coded op; `tag` is used for inserts. Returns `none` if the op is an insert of a
present id (outside the documented contract: pruned from every enumeration). -/
def eApply (s : State) (tag : Nat) : EOp → Option (State × String)
  | .ins p => if s.present p then none else some (insert s p tag, "u")
  | .rem p => let r := remove s p; some (r.1, showHandle r.2)
  | .alias p k => let r := alias s p (keyName k); some (r.1, if r.2 then "T" else "F")
  | .getby k => some (s, showHandle (getBy s (keyName k)))
  | .aliases p => some (s, showKeys (aliasesFor s p))
  | .len => some (s, toString (len s))
  | .bcast => some (s, "{" ++ ",".intercalate ((sortBy (· < ·) ((snapshot s).map (·.id))).map toString) ++ "}")
  | .get p => some (s, showHandle (get s p))
  | .keyfor p => some (s, (keyFor s p).getD "-")
  | .isempty => some (s, if isEmpty s then "T" else "F")
  | .dbgreg => some (s, "PeerRegistry{len:" ++ toString (len s) ++ "}")
  | .peers => some (s, "[" ++ ",".intercalate ((sortBy (fun (a b : Handle) => a.id < b.id) (snapshot s)).map fun h => showHandle (some h)) ++ "]")

def fnvStep (h : UInt64) (s : String) : UInt64 :=
  let h := s.foldl (fun h c => (h ^^^ c.toNat.toUInt64) * 0x100000001b3) h
  (h ^^^ 10) * 0x100000001b3

def hex64 (h : UInt64) : String :=
  String.ofList ((List.range 16).map fun i => hexDigit ((h.toNat / 16 ^ (15 - i)) % 16))

def mutCodes : List Nat := List.range 15

def nodeLine (path : String) (ret : String) (s : State) : String :=
  path ++ " " ++ ret ++ " " ++ digest s enumIds enumKeys

/-- hash of every descendant line (preorder) of the node `(s, path)` down `fuel` more levels -/
def hashSub (codes : List Nat) : Nat → State → String → Nat → UInt64 → UInt64
  | 0, _, _, _, h => h
  | fuel + 1, s, path, plen, h =>
    codes.foldl (fun h c =>
      match (eopOfCode c).bind (eApply s (plen + 1)) with
      | some (s', ret) =>
        let path' := path.push (codeChar c)
        hashSub codes fuel s' path' (plen + 1) (fnvStep h (nodeLine path' ret s'))
      | none => h) h

def enumEmit (codes : List Nat) (idx : String) (fold : Nat) : Nat → State → String → Nat → Array String → Array String
  | 0, _, _, _, out => out
  | fuel + 1, s, path, plen, out =>
    codes.foldl (fun out c =>
      match (eopOfCode c).bind (eApply s (plen + 1)) with
      | some (s', ret) =>
        let path' := path.push (codeChar c)
        let line := idx ++ " " ++ nodeLine path' ret s'
        let line := if fuel = 0 ∧ fold > 0 then
            line ++ " h=" ++ hex64 (hashSub codes fold s' path' (plen + 1) 0xcbf29ce484222325) else line
        enumEmit codes idx fold fuel s' path' (plen + 1) (out.push line)
      | none => out) out

/-- run a coded prefix from the empty registry; tags are 1-based positions -/
def runCoded : List EOp → State → Nat → Option State
  | [], s, _ => some s
  | op :: r, s, n =>
    match eApply s (n + 1) op with
    | some (s', _) => runCoded r s' (n + 1)
    | none => none

/-! ### concurrent histories: set of outcomes of all sequential orders -/

/-- All interleavings of the remaining thread programs; each thread carries (tagBase, position,
remaining ops, returns so far reversed). Calls `k` on every complete execution. -/
def interleave : Nat → State → List (Nat × Nat × List EOp × List String) → List String → List String
  | 0, _, _, acc => acc
  | fuel + 1, s, ths, acc =>
    if ths.all (fun t => t.2.2.1.isEmpty) then
      let rets := ";".intercalate (ths.map fun t => ",".intercalate t.2.2.2.reverse)
      (rets ++ "|" ++ digest s enumIds enumKeys) :: acc
    else
      (List.range ths.length).foldl (fun acc i =>
        match ths[i]? with
        | some (base, pos, op :: rest, rets) =>
          match eApply s (base + pos + 1) op with
          | some (s', r) => interleave fuel s' (ths.set i (base, pos + 1, rest, r :: rets)) acc
          | none => acc
        | _ => acc) acc

def splitAt (sep : String) : List String → List String × List String
  | [] => ([], [])
  | w :: r => if w = sep then ([], r) else let p := splitAt sep r; (w :: p.1, p.2)

/-! ### the step function -/

def note (st : St) (ids : List Nat) (keys : List Key) : St :=
  { st with ids := ids.foldl (fun acc i => insSorted (· < ·) i acc) st.ids,
            keys := keys.foldl (fun acc k => insSorted strLt k acc) st.keys }

def selfKey (tag : Nat) : Key := hexOfBytes ("r" ++ toString tag).toUTF8.toList

def isPanicSink (st : St) (h : Handle) : Bool :=
  match lookup h.tag st.behs with
  | some .panic => true
  | _ => false

def sinkConnected (st : St) (h : Handle) : Bool :=
  match lookup h.tag st.behs with
  | some (.ans .disconnected) => false
  | some .okdown => false
  | _ => true

/-- What the sink behind `h` does to the registry when it is sent to (re-entrant sinks). These effects
commute, so the order in which a broadcast reaches the sinks does not matter for the final state. -/
def fire (st : St) (h : Handle) : St :=
  match lookup h.tag st.behs with
  | some (.rem x) => { st with s := (remove st.s x).1 }
  | some .aliasSelf => note { st with s := (alias st.s h.id (selfKey h.tag)).1 } [] [selfKey h.tag]
  | some .insNew =>
    if st.fired.contains h.tag then st
    else note { st with s := insert st.s (1000 + h.tag) (100000 + h.tag),
                        behs := put (100000 + h.tag) (.ans .ok) st.behs,
                        fired := h.tag :: st.fired } [1000 + h.tag] []
  | _ => st

def stepCore (st : St) (ws : List String) : St × String :=
  match ws with
  | ["mode", "debug"] => ({ st with debug := true }, "")
  | ["mode", "release"] => ({ st with debug := false }, "")
  | ["reset", i] => ({ debug := st.debug }, i ++ " ok")   -- a new registry: empty maps, counter 0
  | ["ins", i, id, tag, beh] =>
    match id.toNat?, tag.toNat?, parseBeh beh with
    | some id, some tag, some b =>
      let panics := insertPanics st.s id st.debug
      let st := note { st with s := insert st.s id tag, behs := put tag b st.behs } [id] []
      (st, i ++ (if panics then " PANIC" else " u"))
    | _, _, _ => (st, i ++ " bad-op")
  | ["rem", i, id] =>
    match id.toNat? with
    | some id => let r := remove st.s id; (note { st with s := r.1 } [id] [], i ++ " " ++ showHandle r.2)
    | none => (st, i ++ " bad-op")
  | ["alias", i, id, k] =>
    match id.toNat? with
    | some id => let r := alias st.s id k
                 (note { st with s := r.1 } [id] [k], i ++ (if r.2 then " T" else " F"))
    | none => (st, i ++ " bad-op")
  | ["get", i, id] =>
    match id.toNat? with
    | some id => (note st [id] [], i ++ " " ++ showHandle (get st.s id))
    | none => (st, i ++ " bad-op")
  | ["getby", i, k] => (note st [] [k], i ++ " " ++ showHandle (getBy st.s k))
  | ["keyfor", i, id] =>
    match id.toNat? with
    | some id => (note st [id] [], i ++ " " ++ (keyFor st.s id).getD "-")
    | none => (st, i ++ " bad-op")
  | ["aliases", i, id] =>
    match id.toNat? with
    | some id => (note st [id] [], i ++ " " ++ showKeys (aliasesFor st.s id))
    | none => (st, i ++ " bad-op")
  | ["len", i] => (st, i ++ " " ++ toString (len st.s))
  | ["dump", i] => (st, i ++ " " ++ digest st.s st.ids st.keys)
  | "bcast" :: i :: variant :: path :: fmt :: body :: srcOpt =>
    -- (a 7th token, only for `beve`, is the source value the harness encodes; the model ignores it)
    if srcOpt.length > 1 then (st, i ++ " bad-op") else
    match fmt.toNat?, bytesOfHex body with
    | some fmt, some body =>
      -- the four public entry points: encode once, then `broadcast_each`
      let hlp? : Option Helper :=
        if variant = "json" then some .json else if variant = "beve" then some .beve
        else if variant = "utf8" then some .utf8 else if variant = "raw" then some (.raw fmt) else none
      match hlp? with
      | none => (st, i ++ " bad-op")
      | some hlp =>
      match broadcastNotify st.s hlp path (some body) (answerOf st.behs) with
      | none => (st, i ++ " bad-op")
      | some r =>
      -- a sink that panics unwinds out of `broadcast_each` (no lock is held): the registry is unchanged
      if (snapshot st.s).any (isPanicSink st) then (st, i ++ " PANIC") else
      let ds := sortBy (fun (a b : Delivery) => a.to.id < b.to.id) r.1
      let rs := sortBy (fun (a b : Nat × SendResult) => a.1 < b.1) r.2
      -- path and body are printed as `=` when they are the caller's (always, in the model)
      let out := i ++ " sent " ++ (if ds.isEmpty then "-" else ",".intercalate (ds.map fun d =>
          showHandle (some d.to) ++ ":" ++ (if d.path = path then "=" else d.path) ++ ":" ++ toString d.fmt ++ ":" ++
            (if d.body = body then "=" else hexOfBytes d.body))) ++
        " res " ++ (if rs.isEmpty then "-" else ",".intercalate (rs.map fun e => toString e.1 ++ "=" ++ showRes e.2))
      -- re-entrant sinks: every handle of the snapshot was sent to, so every such sink fired
      ((snapshot st.s).foldl fire st, out)
    | _, _ => (st, i ++ " bad-op")
  | "stall" :: i :: _ => (st, i ++ " started")      -- a broadcast to stalling sinks runs in the background (harness only)
  | ["stalljoin", i] => (st, i ++ " ok")            -- … and delivered exactly one notification per present peer
  | ["ws", i, _] => (st, i ++ " ok")                -- the built-in WebSocket server path (harness only)
  | ["poison", i] =>
    -- a lookup that panics while the registry lock is held: `lock()` recovers from the poisoning, nothing changes
    (st, i ++ " done")
  | ["peers", i] =>
    let hs := sortBy (fun (a b : Handle) => a.id < b.id) (snapshot st.s)
    (st, i ++ " [" ++ ",".intercalate (hs.map fun h => showHandle (some h)) ++ "]")
  | ["isempty", i] => (st, i ++ (if isEmpty st.s then " T" else " F"))
  | ["mint", i] =>
    let r := nextPeerId st.counter
    ({ st with counter := r.1 }, i ++ (if nextPeerIdPanics st.counter st.debug then " PANIC" else " " ++ toString r.2))
  | ["hsend", i, id, variant, path, fmt, body] =>
    match id.toNat?, fmt.toNat?, bytesOfHex body with
    | some id, some fmt, some body =>
      let nb? : Option NotifyBody :=
        if variant = "beve" then some (.beve body) else if variant = "json" then some (.json body)
        else if variant = "utf8" then some (.utf8 body) else if variant = "raw" then some (.raw body fmt) else none
      match nb? with
      | none => (st, i ++ " bad-op")
      | some nb =>
        match get st.s id with
        | none => (note st [id] [], i ++ " none")
        | some h =>
          if isPanicSink st h then (note st [id] [], i ++ " PANIC") else
          let r := h.sendNotify (answerOf st.behs) path nb
          (note (fire st h) [id] [], i ++ " " ++ showHandle (some r.1.to) ++ ":" ++ (if r.1.path = path then "=" else r.1.path) ++ ":" ++
            toString r.1.fmt ++ ":" ++ (if r.1.body = body then "=" else hexOfBytes r.1.body) ++ " " ++ showRes r.2)
    | _, _, _ => (st, i ++ " bad-op")
  | ["hconn", i, id] =>
    match id.toNat? with
    | some id =>
      match get st.s id with
      | none => (note st [id] [], i ++ " none")
      | some h =>
        let conn := sinkConnected st
        (note st [id] [], i ++ (if h.isConnected conn then " T" else " F"))
    | none => (st, i ++ " bad-op")
  | ["dbg", i, id] =>
    match id.toNat? with
    | some id =>
      match get st.s id with
      | none => (note st [id] [], i ++ " none")
      | some h => (note st [id] [], i ++ " PeerHandle{peer_id:PeerId(" ++ toString h.id ++ ")}|" ++ toString h.id)
    | none => (st, i ++ " bad-op")
  | ["dbgreg", i] => (st, i ++ " PeerRegistry{len:" ++ toString (len st.s) ++ "}")
  | ["ctx", i, "detached", m] =>
    let c := CallContext.detached m
    (st, joinSp [i, c.method, showHandle c.peer, if c.isCancelled then "T" else "F",
                 if c.cancelledResolves then "ready" else "pending"])
  | ["ctx", i, "new", id, m] =>
    match id.toNat? with
    | some id =>
      match get st.s id with
      | none => (note st [id] [], i ++ " none")
      | some h =>
        let c := CallContext.new m h
        (note st [id] [], joinSp [i, c.method, showHandle c.peer, if c.isCancelled then "T" else "F",
                     if c.cancelledResolves then "ready" else "pending"])
    | none => (st, i ++ " bad-op")
  | "bcastfail" :: i :: variant :: path :: modeOpt =>
    -- (an optional 5th token says how the body fails to encode; the model: `Err`, nothing sent, either way)
    if modeOpt.length > 1 then (st, i ++ " bad-op") else
    let hlp? : Option Helper := if variant = "json" then some .json else if variant = "beve" then some .beve else none
    match hlp? with
    | some hlp =>
      match broadcastNotify st.s hlp path none (answerOf st.behs) with
      | none => (st, i ++ " err sent -")
      | some _ => (st, i ++ " bad-op")
    | none => (st, i ++ " bad-op")
  | "enum" :: i :: depth :: fold :: prefix_ :: alpha =>
    -- optional alphabet of coded ops (default a..o)
    let codes : List Nat := match alpha with
      | [a] => a.toList.map codeOfChar
      | _ => mutCodes
    if alpha.length > 1 ∨ codes.any (fun c => c ≥ 32) then (st, i ++ " bad-op") else
    match depth.toNat?, fold.toNat?, eopsOfString prefix_ with
    | some depth, some fold, some pre =>
      match runCoded pre {} 0 with
      | some s =>
        let path := if prefix_ = "-" then "" else prefix_
        let out := enumEmit codes i fold (depth - fold) s path pre.length #[]
        (st, "\n".intercalate out.toList)
      | none => (st, i ++ " bad-op")
    | _, _, _ => (st, i ++ " bad-op")
  | "loop" :: i :: setup :: cycle :: rest =>
    -- one mutator cycles `cycle` (which returns to its start state) while readers repeat lookups: every
    -- observed answer must be the answer in one of the states the cycle passes through
    let (readers, observed) := splitAt "::" rest
    let loopTag : EOp → Nat := fun op => match op with | .ins p => 10 + p | _ => 0
    let rec runL (ops : List EOp) (s : State) (acc : List State) : Option (State × List State) :=
      match ops with
      | [] => some (s, acc)
      | op :: r => match eApply s (loopTag op) op with
        | some (s', _) => runL r s' (s' :: acc)
        | none => none
    match eopsOfString setup, eopsOfString cycle with
    | some su, some cy =>
      match runL su {} [] with
      | none => (st, i ++ " bad-op")
      | some (s0, _) =>
        match runL cy s0 [s0] with
        | none => (st, i ++ " bad-op")
        | some (s1, states) =>
          if digest s1 enumIds enumKeys ≠ digest s0 enumIds enumKeys ∨ readers.length ≠ observed.length ∨ cy.isEmpty then
            (st, i ++ " bad-op")
          else
            -- observed token per reader: `c=ans|ans;c=ans[;@step:ans&ans|step:ans&ans]`
            let ordered := states.reverse          -- ordered[j] = state after j calls of the cycle
            let answerIn := fun (s : State) (op : EOp) => (eApply s 0 op).map (·.2)
            let verdict := (readers.zip observed).foldl (fun (acc : Option Nat) (ro : String × String) =>
              match acc with
              | none => none
              | some n =>
                let (plain, wins) := match ro.2.splitOn ";@" with
                  | [a, b] => (a, b.splitOn "|")
                  | _ => (ro.2, [])
                let prog := ro.1.toList.filterMap (fun ch => eopOfCode (codeOfChar ch))
                let isQuery := fun (op : EOp) => match op with
                  | .ins _ => false | .rem _ => false | .alias _ _ => false | _ => true
                let parts := plain.splitOn ";"
                if parts.length ≠ ro.1.length ∨ prog.length ≠ ro.1.length ∨ !prog.all isQuery then none else
                let n1 := (ro.1.toList.zip parts).foldl (fun (acc : Option Nat) (cp : Char × String) =>
                  match acc, eopOfCode (codeOfChar cp.1), cp.2.splitOn "=" with
                  | some n, some op, [c, answers] =>
                    if c ≠ String.singleton cp.1 then none else
                    let adm := states.filterMap (fun s => answerIn s op)
                    let obs := if answers = "" then [] else answers.splitOn "|"
                    if obs.all (fun a => adm.contains a) then some (n + obs.length) else none
                  | _, _, _ => none) (some n)
                -- windowed passes: a pass that lies inside call `step` of the cycle answers from the state before
                -- that call up to some point and from the state after it from then on
                wins.foldl (fun (acc : Option Nat) (w : String) =>
                  match acc, w.splitOn ":" with
                  | some n, stepS :: rest =>
                    match stepS.toNat?, rest with
                    | some step, _ :: _ =>
                      let answers := (":".intercalate rest).splitOn "&"
                      match ordered[step]?, ordered[step + 1]? with
                      | some before, some after =>
                        let ok := answers.length = prog.length ∧ (List.range (prog.length + 1)).any (fun j =>
                          ((List.range prog.length).zip (prog.zip answers)).all (fun e =>
                            answerIn (if e.1 < j then before else after) e.2.1 = some e.2.2))
                        if ok then some (n + 1) else none
                      | _, _ => none
                    | _, _ => none
                  | _, _ => none) n1) (some 0)
            match verdict with
            | some n => (st, i ++ " ok " ++ toString n)
            | none => (st, i ++ " INADMISSIBLE")
    | _, _ => (st, i ++ " bad-op")
  | "conc" :: i :: setup :: rest =>
    let (threads, observed) := splitAt "::" rest
    match eopsOfString setup, threads.mapM eopsOfString with
    | some pre, some ths =>
      match runCoded pre {} 0 with
      | some s =>
        let n := ths.foldl (fun n t => n + t.length) 0
        let progs := (List.range ths.length).zip ths |>.map fun (ti, ops) => (100 * (ti + 1), 0, ops, ([] : List String))
        let outcomes := interleave (n + 1) s progs []
        match observed.find? (fun o => !outcomes.contains o) with
        | some bad => (st, i ++ " NONLIN " ++ bad)
        | none => (st, i ++ " ok " ++ toString observed.length)
      | none => (st, i ++ " bad-op")
    | _, _ => (st, i ++ " bad-op")
  | _ :: i :: _ => (st, i ++ " bad-op")
  | _ => (st, "bad-op")

/-- `via=<n>` / `on=clone` tokens select generic instantiations / a clone of the registry in the harness;
the model does not depend on them. -/
def step (st : St) (ws : List String) : St × String :=
  let ws := ws.filter fun w => !(w.startsWith "via=" || w = "on=clone")
  -- `concs` = `conc` with slow sinks: same admissible outcomes
  let ws := match ws with
    | "concs" :: r => "conc" :: r
    | _ => ws
  stepCore st ws

end Repe.Driver.Peers

def main : IO Unit := Repe.Driver.loop Repe.Driver.Peers.step {}
