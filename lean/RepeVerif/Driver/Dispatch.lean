import RepeVerif.Model.Dispatch
import RepeVerif.Gen.Dispatch
import RepeVerif.Driver.Common
/-! Driver for the `dispatch` correspondence family (C03). -/
namespace Repe.Driver.Dispatch
open Repe Repe.Driver

def headerOfNats : List Nat → Option Header
  | [a,b,c,d,e,f,g,h,i,j,k] => some ⟨a,b,c,d,e,f,g,h,i,j,k⟩
  | _ => none

def parseHOut (s : String) : Option (Option HOut) :=
  if s = "none" then some none
  else match s.splitOn ":" with
    | ["ok", fields, q, b] =>
      match headerOfNats ((fields.splitOn ",").map natOf), bytesOfHex q, bytesOfHex b with
      | some h, some q, some b => some (some (.ok ⟨h, q, b⟩))
      | _, _, _ => none
    | ["err", code, msg] =>
      match bytesOfHex msg with
      | some m => some (some (.err (natOf code) m))
      | none => none
    | _ => none

def showResp : Option Message → String
  | none => "noresp"
  | some m =>
    ",".intercalate [toString m.header.id, toString m.header.ec, toString m.header.queryFormat,
      hexOfBytes m.query, toString m.header.bodyFormat,
      if m.header.ec ≠ 0 then "E" else hexOfBytes m.body]

structure St where
  inv : List (String × Nat) := []

def bump (k : String) : List (String × Nat) → List (String × Nat)
  | [] => [(k, 1)]
  | (k', n) :: r => if k' = k then (k', n + 1) :: r else (k', n) :: bump k r

def showInv (l : List (String × Nat)) : String :=
  let sorted := l.toArray.qsort (fun a b => a.1 < b.1) |>.toList
  "[" ++ ",".intercalate (sorted.map fun (k, n) => k ++ ":" ++ toString n) ++ "]"

def step (st : St) (ws : List String) : St × String :=
  match ws with
  | "req" :: idx :: rest =>
    -- an optional trailing `P` marks a pressure sequence (same prediction; the harness reads slowly)
    match headerOfNats ((rest.take 11).map natOf), ((rest.drop 11).take 6) with
    | some h, [q, b, found, exec, hv, ho] =>
      match bytesOfHex q, bytesOfHex b, parseHOut hv, parseHOut ho with
      | some q, some b, some hv, some ho =>
        let req : Req := ⟨h, q, b⟩
        let utf8 := (ByteArray.mk q.toArray).validateUTF8
        let fnd := found = "1"
        -- a `none` probe (request never reached a handler) is irrelevant to `respond`; use a dummy
        let dummy : HOut := .err 0 []
        let hv' := hv.getD dummy
        let ho' := ho.getD dummy
        let wsT : Transport := if exec = "o" then .wsOff else .wsInline
        let r1 := respond Gen.codes .tcp req utf8 fnd hv' ho'
        let r2 := respond Gen.codes .atcp req utf8 fnd hv' ho'
        let r3 := respond Gen.codes wsT req utf8 fnd hv' ho'
        let st' := if r1.2 = 1 then { st with inv := bump (hexOfBytes q) st.inv } else st
        -- `tcpw` / `atcpw`: the same servers with a write timeout configured (other framing branch, same bytes)
        (st', joinSp [idx, "tcp=" ++ showResp r1.1, "tcpw=" ++ showResp r1.1, "atcp=" ++ showResp r2.1,
                      "atcpw=" ++ showResp r2.1, "ws=" ++ showResp r3.1])
      | _, _, _, _ => (st, idx ++ " bad-op")
    | _, _ => (st, idx ++ " bad-op")
  | ["inv", idx] =>
    let s := showInv st.inv
    ({ inv := [] }, joinSp [idx, "tcp=" ++ s, "tcpw=" ++ s, "atcp=" ++ s, "atcpw=" ++ s, "ws=" ++ s])
  | _ => (st, "bad-op")

end Repe.Driver.Dispatch

def main : IO Unit := Repe.Driver.loop Repe.Driver.Dispatch.step {}
