import RepeVerif.Model.Dispatch
import RepeVerif.Gen.Dispatch
import RepeVerif.Driver.Common
/-! Driver for the `dispatch` correspondence family (C03). -/
namespace Repe.Driver.Dispatch
open Repe Repe.Driver

def headerOfNats : List Nat → Option Header
  | [a,b,c,d,e,f,g,h,i,j,k] => some ⟨a,b,c,d,e,f,g,h,i,j,k⟩
  | _ => none

def parseHOut (s : String) : Option (Option HOut) :=
  if s = "none" then some none
  else match s.splitOn ":" with
    | ["ok", fields, q, b] =>
      match headerOfNats ((fields.splitOn ",").map natOf), bytesOfHex q, bytesOfHex b with
      | some h, some q, some b => some (some (.ok ⟨h, q, b⟩))
      | _, _, _ => none
    | ["err", code, msg] =>
      match bytesOfHex msg with
      | some m => some (some (.err (natOf code) m))
      | none => none
    | _ => none

/-- FNV-1a, 64 bit (the harness prints long byte strings as `#<length>:<hash>`). -/
def fnv64 (bs : Bytes) : Nat :=
  bs.foldl (fun h b => ((h ^^^ b.toNat) * 0x100000001b3) % 2^64) 0xcbf29ce484222325

def showBytes (bs : Bytes) : String :=
  if bs.length > 256 then "#" ++ toString bs.length ++ ":" ++ toString (fnv64 bs) else hexOfBytes bs

def showResp : Option Message → String
  | none => "noresp"
  | some m =>
    ",".intercalate [toString m.header.id, toString m.header.ec, toString m.header.queryFormat,
      showBytes m.query, toString m.header.bodyFormat,
      if m.header.ec ≠ 0 then "E" else showBytes m.body]

structure St where
  inv : List (String × Nat) := []

def bump (k : String) : List (String × Nat) → List (String × Nat)
  | [] => [(k, 1)]
  | (k', n) :: r => if k' = k then (k', n + 1) :: r else (k', n) :: bump k r

def showInv (l : List (String × Nat)) : String :=
  let sorted := l.toArray.qsort (fun a b => a.1 < b.1) |>.toList
  "[" ++ ",".intercalate (sorted.map fun (k, n) => k ++ ":" ++ toString n) ++ "]"

def kindOf : String → Option HKind
  | "json" => some .json | "jsonctx" => some .jsonCtx | "typed" => some .typed | "typedctx" => some .typedCtx
  | "slice" => some .slice | "sliceref" => some .sliceRef | "adapter" => some .adapter
  | "registry" => some .registry | "struct" => some .struct
  | _ => none

/-- value of `key=` among the trailing tokens -/
def kvOf (key : String) (toks : List String) : Option String :=
  toks.findSome? fun t => match t.splitOn "=" with
    | [k, v] => if k = key then some v else none
    | _ => none

/-- `expn`: the error code a bare route's built-in handler ends up reporting on the blocking TCP server, computed
from the extracted decode facts (`*` = depends on registry / struct state, `-` = no response or not dispatched). -/
def expnOf (req : Req) (utf8 fnd : Bool) (toks : List String) : String :=
  if route Gen.codes req utf8 fnd ≠ .dispatch ∨ req.isNotify then "-"
  else
    let dec := (kvOf "dec" toks).getD "ok"
    let cl := (kvOf "cl" toks).getD "any"
    let k := (kvOf "k" toks).getD "none"
    if dec = "ok" ∧ cl = "any" then "*"
    else
      let clo : Closure := match cl.splitOn ":" with
        | ["err", n] => .err (natOf n) []
        | _ => .ok 0 []
      if k = "custom" then (match clo with | .ok _ _ => "0" | .err c _ => toString c)
      else match kindOf k with
        | none => "bad-kind"
        | some hk =>
          let r := builtinRespond Gen.serveFacts Gen.codes Gen.decodeFacts Gen.entryFacts .tcp req utf8 fnd hk false
            ((kvOf "bl" toks).getD "0" = "1") (dec = "ok") clo []
          match r.1 with
          | some m => toString m.header.ec
          | none => "-"

def step (st : St) (ws : List String) : St × String :=
  match ws with
  | "req" :: idx :: rest =>
    match headerOfNats ((rest.take 11).map natOf), ((rest.drop 11).take 8) with
    | some h, [q, b, found, exec, hv, ho0, hvn, hon] =>
      let toks := rest.drop 19
      -- `=` stands for "the same as the borrowed / wrapped outcome"
      let ho := if ho0 = "=" then hv else ho0
      match bytesOfHex q, bytesOfHex b, parseHOut hv, parseHOut ho,
            parseHOut (if hvn = "=" then hv else hvn), parseHOut (if hon = "=" then ho else hon) with
      | some q, some b, some hv, some ho, some hvn, some hon =>
        let req : Req := ⟨h, q, b⟩
        let utf8 := (ByteArray.mk q.toArray).validateUTF8
        let fnd := found = "1"
        -- a `none` probe (request never reached a handler) is irrelevant to `respond`; use a dummy
        let dummy : HOut := .err 0 []
        let wsT : Transport := if exec = "o" then .wsOff else .wsInline
        let sf := Gen.serveFacts
        let r1 := respondG sf Gen.codes .tcp req utf8 fnd (hv.getD dummy) (ho.getD dummy)
        let r2 := respondG sf Gen.codes .atcp req utf8 fnd (hv.getD dummy) (ho.getD dummy)
        let r3 := respondG sf Gen.codes wsT req utf8 fnd (hv.getD dummy) (ho.getD dummy)
        -- the bare routers (no middleware): the handlers' own `handle_view` / `handle_with_ctx`
        let n1 := respondG sf Gen.codes .tcp req utf8 fnd (hvn.getD dummy) (hon.getD dummy)
        let n2 := respondG sf Gen.codes .atcp req utf8 fnd (hvn.getD dummy) (hon.getD dummy)
        let n3 := respondG sf Gen.codes wsT req utf8 fnd (hvn.getD dummy) (hon.getD dummy)
        let st' := (List.replicate r1.2 ()).foldl (fun s _ => { s with inv := bump (hexOfBytes q) s.inv }) st
        -- `tcpw` / `atcpw`: the same servers with a write timeout configured (other framing branch, same bytes)
        (st', joinSp [idx, "tcp=" ++ showResp r1.1, "tcpw=" ++ showResp r1.1, "atcp=" ++ showResp r2.1,
                      "atcpw=" ++ showResp r2.1, "ws=" ++ showResp r3.1, "tcpn=" ++ showResp n1.1,
                      "atcpn=" ++ showResp n2.1, "wsn=" ++ showResp n3.1, "expn=" ++ expnOf req utf8 fnd toks])
      | _, _, _, _, _, _ => (st, idx ++ " bad-op")
    | _, _ => (st, idx ++ " bad-op")
  | "inv" :: idx :: _ =>
    let s := showInv st.inv
    ({ inv := [] }, joinSp [idx, "tcp=" ++ s, "tcpw=" ++ s, "atcp=" ++ s, "atcpw=" ++ s, "ws=" ++ s])
  | _ => (st, "bad-op")

end Repe.Driver.Dispatch

def main : IO Unit := Repe.Driver.loop Repe.Driver.Dispatch.step {}
