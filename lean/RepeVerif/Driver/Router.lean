import RepeVerif.Model.Router
import RepeVerif.Model.RouterStruct
import RepeVerif.Gen.Router
import RepeVerif.Driver.Common
/-! Driver for the `router` correspondence family (C07).

```
reset I                         new router                                  (no observation)
mw I N | route I <path> N | reg I <prefix> N | struct I <root> N             (no observation)
get I <path>                    -> I none | I handler N mws a,b [ptr H | segs k t…]
match I reg|struct <prefix> <path>   (one fresh mount)  -> I 0 | I 1 ptr H | I 1 segs k t…
tok I <ptr>                     -> I segs k t…          (`json_pointer::parse`)
twin I <kind> <blocking> <nmw> <bfmt> <body> <j><b><s><r> <ok|err> <code> <order> <voff> <qfmt> <query> <id>
                                -> I <ok|rej N|fail|-> exec <inline|offreader> links <k>
   (order, view offset, query and id only steer the implementation run: the routes must agree whatever they are)
```
nest I <depth 1..3> <mount> <rel> <hasBody>  spy behind nested derived structs -> I segs k t… | I replaced | I err N
dreset I <lock kind 0..3>       fresh derived struct (`demoSpec`)            (no observation)
dstruct I <root> <path> <bfmt> <body> <canonical JSON of the decoded body> <jb..> <wholeOk>
                                -> I none | I ok <json> | I whole | I err N | I fail
Strings are hex of their UTF-8 bytes ("-" = empty). -/
namespace Repe.Driver.Router
open Repe Repe.Driver Repe.Router

def strOfHex (h : String) : Option Str := do
  let bs ← bytesOfHex h
  let s ← String.fromUTF8? (ByteArray.mk bs.toArray)
  pure s.toList

def hexOfStr (s : Str) : String := hexOfBytes (String.ofList s).toUTF8.toList

def showSegs (ts : List Str) : String :=
  joinSp (["segs", toString ts.length] ++ ts.map hexOfStr)

def showMws (ms : List Nat) : String :=
  if ms.isEmpty then "-" else ",".intercalate (ms.map toString)

/-- Harness convention: a tracing middleware whose id is 6 or 7 mod 8 does not call `next.run`
(6: answers itself, 7: returns `Err`); the others forward. -/
def isStopper (m : Nat) : Bool := m % 8 = 6 || m % 8 = 7

def untilStopper : List Nat → List Nat × Bool
  | [] => ([], false)
  | m :: rest => if isStopper m then ([m], true) else let (l, b) := untilStopper rest; (m :: l, b)

def showFound (path : Str) (f : Found) : String :=
  let (ran, stopped) := untilStopper f.entry.mws
  if stopped then s!"stopped mws {showMws ran}" else
  let base := s!"handler {f.entry.raw} mws {showMws f.entry.mws}"
  match f.coll with
  | .exact => base
  | .registries =>
    match pointerFor f.pre path with
    | some q => base ++ " ptr " ++ hexOfStr q
    | none => base ++ " ptr none"
  | .structs =>
    match relativePointer f.pre path with
    | some q => base ++ " " ++ showSegs (dispatchSegments Gen.routerFacts.stackSegs q)
    | none => base ++ " segs none"

def gateOf (kind : String) : Option (Option Gate) :=
  let F := Gen.handlerFacts
  match kind with
  | "json" => some (some F.jsonOwned)
  | "jsonctx" => some (some F.jsonOwned)
  | "typed" => some (some F.typedOwned)
  | "typedctx" => some (some F.typedOwned)
  | "adapter" => some (some F.adapterGate)
  | "slice" => some (some F.sliceOwned)
  | "sliceref" => some (some F.sliceRefOwned)
  | "registry" => some none
  | "erased" => some none
  | "struct" => some (some F.structGate)
  | _ => none

def hintFor (hints : List Char) : Decoder → Bool
  | .serdeJson => hints[0]? = some '1'
  | .beve => hints[1]? = some '1'
  | .typedSlice => hints[2]? = some '1'
  | .typedSliceRef => hints[3]? = some '1'

structure St where
  r : Router.Router := {}
  store : Store := []
  lockKind : Nat := 0      -- 0 Mutex, 1 RwLock (both poison), 2/3 tokio (never poison), 4 user lock that can be told to fail
  poisoned : Bool := false
  lockFails : Bool := false

def nullJson : Bytes := "null".toUTF8.toList

def showDOut (body canon : Bytes) : DOut → String
  | .value v => "ok " ++ hexOfBytes v
  | .null => "ok " ++ hexOfBytes nullJson
  | .whole _ => "whole"
  | .called p unit =>
    if unit then "ok " ++ hexOfBytes nullJson
    else if p = ["echo".toList] then "ok " ++ hexOfBytes (if body.isEmpty then nullJson else canon)
    else if p = ["ping".toList] then "ok " ++ hexOfBytes "7".toUTF8.toList
    else "called ?"
  | .handed rest => showSegs rest
  | .err e => s!"err {e.code}"

/-- callback behaviours 1..3 panic (String, &'static str, non-string payload); 0 and 4 (slow) answer -/
def isPanic (cb : String) : Bool := cb = "1" || cb = "2" || cb = "3"

/-- "/a/b" ↦ "/a": where the twin harness mounts the registry / struct for route path "/a/b" -/
def parentOf (p : Str) : Str := (p.reverse.dropWhile (· ≠ '/')).drop 1 |>.reverse

def stepR (r : Router.Router) (ws : List String) : Router.Router × String :=
  let F := Gen.routerFacts
  match ws with
  | ["reset", _] => ({}, "")
  | ["clone", _] => (r, "")      -- `Router::clone`: same routes, mounts and middleware
  | ["observe", _, _threads] => (r, "")   -- concurrent `get` / `execution` on a snapshot: no state change
  | ["mw", _, n] => (r.apply F (.middleware (natOf n)), "")
  | ["route", idx, p, n] =>
    match strOfHex p with
    | some p => (r.apply F (.route p (natOf n)), "")
    | none => (r, idx ++ " bad-op")
  | ["reg", idx, p, n] =>
    match strOfHex p with
    | some p => (r.apply F (.registry p (natOf n)), "")
    | none => (r, idx ++ " bad-op")
  | ["struct", idx, p, n] =>
    match strOfHex p with
    | some p => (r.apply F (.struct p (natOf n)), "")
    | none => (r, idx ++ " bad-op")
  | ["get", idx, p] =>
    match strOfHex p with
    | some p =>
      match r.get F p with
      | some f => (r, idx ++ " " ++ showFound p f)
      | none => (r, idx ++ " none")
    | none => (r, idx ++ " bad-op")
  | ["match", idx, kind, pre, p] =>
    match strOfHex pre, strOfHex p with
    | some pre, some p =>
      if kind = "reg" then
        let n := normRegistryPrefix pre
        if mountMatches n p then
          match pointerFor n p with
          | some q => (r, idx ++ " 1 ptr " ++ hexOfStr q)
          | none => (r, idx ++ " 1 ptr none")
        else (r, idx ++ " 0")
      else if kind = "struct" then
        let n := normStructRoot pre
        if mountMatches n p then
          match relativePointer n p with
          | some q => (r, idx ++ " 1 " ++ showSegs (dispatchSegments F.stackSegs q))
          | none => (r, idx ++ " 1 segs none")
        else (r, idx ++ " 0")
      else (r, idx ++ " bad-op")
    | _, _ => (r, idx ++ " bad-op")
  | ["tok", idx, p] =>
    match strOfHex p with
    | some p => (r, idx ++ " " ++ showSegs (jsonPointerParse p))
    | none => (r, idx ++ " bad-op")
  | ["twin", idx, kind, blocking, nmw, bfmt, _body, hints, cres, ccode, _order, _voff, _qfmt, query, _rid,
     _notify, _ver, _reserved, _reqec, _trfmt, cb, tpath, _srv, _decoys, _io] =>
    match gateOf kind with
    | none => (r, idx ++ " bad-op")
    | some g =>
      -- execution hint: OffReaderHandler sets it; MiddlewarePipeline forwards it when the source says so
      let exec :=
        if blocking = "1" && (natOf nmw = 0 || Gen.handlerFacts.pipelineExecForwards) then "offreader" else "inline"
      let cls :=
        match g with
        | none =>
          -- a custom `HandlerErased` (what `with_erased_handler` takes): answers, or returns `Err(RepeError::…)`
          if kind = "erased" then (if isPanic cb then "PANIC" else if cres = "ok" then "ok" else "fail") else "-"
        | some gate =>
          -- a struct mount first checks that the path is below its root ("/t" in the harness)
          if kind = "struct" && (relativePointer (parentOf ((strOfHex tpath).getD [])) ((strOfHex query).getD [])).isNone then "rej 6"
          -- … and reads (no decoding) when the body is empty
          else if kind = "struct" && Gen.handlerFacts.structEmptyBodyIsRead && _body = "-" then
            (if isPanic cb then "PANIC" else if cres = "ok" then "ok" else s!"rej {structErrorCodes.getD (natOf ccode % 7) 0}")
          else
          match gate.lookup (natOf bfmt) with
          | none => s!"rej {INVALID_BODY}"
          | some d =>
            if !hintFor hints.toList d then "fail"
            else if isPanic cb then "PANIC"
            else if cres = "ok" then "ok"
            else if kind = "struct" then s!"rej {structErrorCodes.getD (natOf ccode % 7) 0}"
            else if natOf ccode = 0 then "ok"   -- a closure error carrying `ErrorCode::Ok` is framed with ec = 0
            else s!"rej {natOf ccode}"
      -- how many of the `nmw` links are shown the caller's context (`Next::ctx()`)
      let links := if Gen.handlerFacts.nextForwardsCtx then natOf nmw else 0
      (r, s!"{idx} {cls} exec {exec} links {links}")
  | _ => (r, (ws.getD 1 "?") ++ " bad-op")

def step (st : St) (ws : List String) : St × String :=
  match ws with
  | ["dreset", _, lockKind] => ({ st with store := [], lockKind := natOf lockKind, poisoned := false, lockFails := false }, "")
  | ["nest", idx, depth, mount, rel, hasBody] =>
    -- a hand-written spy struct behind `depth` levels of `#[repe(nested)]` fields of a derived struct mounted at `mount`
    match strOfHex mount, strOfHex rel with
    | some mount, some rel =>
      let names : List Str := match natOf depth with
        | 1 => ["spy".toList]
        | 2 => ["outer".toList, "spy".toList]
        | _ => ["top".toList, "outer".toList, "spy".toList]
      let n := normStructRoot mount
      let path := n ++ (names.map fun s => '/' :: s).flatten ++ rel
      if !mountMatches n path then (st, idx ++ " none")
      else match relativePointer n path with
        | none => (st, idx ++ " err 6")
        | some q =>
          match resolve (chainSpec names) [] (dispatchSegments Gen.routerFacts.stackSegs q) (hasBody = "1") with
          | .ok (.foreign _ rest) => (st, idx ++ " " ++ showSegs rest)
          -- a whole write of the nested field: the harness sends a JSON string, which serde refuses for a struct
          | .ok (.writeWhole _) => (st, s!"{idx} err {SErr.deserialize.code}")
          | .ok _ => (st, idx ++ " other")
          | .error e => (st, s!"{idx} err {e.code}")
    | _, _ => (st, idx ++ " bad-op")
  | ["dlockfail", _, b] => ({ st with lockFails := (b = "1") }, "")
  | ["dconc", idx, _root, _threads, final] =>
    -- concurrent readers while a writer stores a sequence of values at /a; afterwards /a holds the last one
    match bytesOfHex final with
    | some v => ({ st with store := st.store.set ["a".toList] v }, idx ++ " ok " ++ hexOfBytes v)
    | none => (st, idx ++ " bad-op")
  | ["dstruct", idx, root, p, bfmt, body, canon, hints, whole] =>
    match strOfHex root, strOfHex p, bytesOfHex body, bytesOfHex canon with
    | some root, some p, some body, some canon =>
      let n := normStructRoot root
      if !mountMatches n p then (st, idx ++ " none")
      else
        let F := Gen.handlerFacts
        match structCall Gen.routerFacts.stackSegs F.structGate F.structEmptyBodyIsRead n p (natOf bfmt) body (hintFor hints.toList)
            (st.poisoned || (st.lockKind = 4 && st.lockFails)) with
        | .notBelowRoot => (st, idx ++ " err 6")
        | .invalidBody => (st, s!"{idx} err {INVALID_BODY}")
        | .undecodable => (st, idx ++ " fail")
        | .lockError => (st, idx ++ " err 5")
        | .handle segs hasBody =>
          let (o, store') := derivedHandle demoSpec nullJson st.store segs (if hasBody then some canon else none) (whole = "1")
          match o with
          | .called p _ =>
            if p = ["boom".toList] then
              -- the method panics while the lock guard is held: std locks are poisoned from now on
              ({ st with poisoned := st.poisoned || st.lockKind < 2 }, idx ++ " PANIC")
            else ({ st with store := store' }, idx ++ " " ++ showDOut body canon o)
          | _ => ({ st with store := store' }, idx ++ " " ++ showDOut body canon o)
    | _, _, _, _ => (st, idx ++ " bad-op")
  | _ => let (r', o) := stepR st.r ws; ({ st with r := r' }, o)

end Repe.Driver.Router

def main : IO Unit := Repe.Driver.loop Repe.Driver.Router.step {}
