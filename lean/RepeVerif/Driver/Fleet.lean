import RepeVerif.Model.Fleet
import RepeVerif.Gen.Fleet
import RepeVerif.Driver.Common
/-!
Driver for the `fleet` correspondence family (C19).

```
case <idx> <b|a> <json|jsonnp|msg> <max> <behaviour,behaviour,…|-> [dead=<Kind,Kind,…|->]
   -> <idx> s <contacts>:<result>:<connected> … | h <contacts>:<result>:<connected> … | rec <n|never>
life <idx> <b|a> <max> <behaviour,…|-> <conn|disc|reconn|health|call,…> [dead=…]
   -> <idx> o <op observation>:<connected> … | h … | rec <n|never>
mr  … same as bc, through `map_reduce_json`
obs <idx> <b|a> <variant> <max> <observers> <rounds> -> <idx> all <round pattern> | <idx> first <pattern> round <k> <pattern>
cx <idx> a <max> <rounds>            -> <idx> rounds ok   (cancellation rounds; exercised only)
opts <idx> <b|a> <zero|dup|dupadd>   -> <idx> rejected|accepted   (what the constructors refuse)
any line may carry a word `p=…` (parameter styles of the harness); the model ignores it
bc <idx> <b|a> <max> <name=tag+tag=behaviour,…;…> <tag,tag|->
   -> <idx> addressed <name,…|-> results <name=result,…|->
```
`b` = blocking `Fleet`, `a` = `AsyncFleet`; the policy table and loop shape are the facts extracted
for that fleet and call variant.
-/
namespace Repe.Driver.Fleet
open Repe Repe.Driver Repe.Fleet

def behaviourOf : String → Option Behaviour
  | "refused" => some .refused
  | "atc" => some .acceptThenClose
  | "idle" => some .closedWhileIdle
  | "silent" => some .silent
  | "malformed" => some .malformed
  | "apperr" => some .appError
  | "success" => some .success
  | _ => none

def splitList (s : String) (sep : String) : List String :=
  if s = "-" then [] else (s.splitOn sep).filter (· ≠ "")

def behavioursOf (s : String) : Option (List Behaviour) :=
  (splitList s ",").mapM behaviourOf

/-- `badbody`: a well-framed reply, error code 0, whose body is not decodable JSON. `call_message` does
not decode the body: for it such a reply is a success like any other. -/
def behavioursFor (variant : String) (s : String) : Option (List Behaviour) :=
  (splitList s ",").mapM fun w =>
    if w = "badbody" then some (if variant = "msg" then Behaviour.success else Behaviour.badBody) else behaviourOf w

def kindOf : String → Option IoKind
  | "NotFound" => some .notFound | "PermissionDenied" => some .permissionDenied
  | "ConnectionRefused" => some .connectionRefused | "ConnectionReset" => some .connectionReset
  | "HostUnreachable" => some .hostUnreachable | "NetworkUnreachable" => some .networkUnreachable
  | "ConnectionAborted" => some .connectionAborted | "NotConnected" => some .notConnected
  | "AddrInUse" => some .addrInUse | "AddrNotAvailable" => some .addrNotAvailable
  | "NetworkDown" => some .networkDown | "BrokenPipe" => some .brokenPipe
  | "AlreadyExists" => some .alreadyExists | "WouldBlock" => some .wouldBlock
  | "InvalidInput" => some .invalidInput | "InvalidData" => some .invalidData
  | "TimedOut" => some .timedOut | "WriteZero" => some .writeZero | "Interrupted" => some .interrupted
  | "Unsupported" => some .unsupported | "UnexpectedEof" => some .unexpectedEof
  | "OutOfMemory" => some .outOfMemory | "Other" => some .other
  | _ => none

def deadKindsOf (fleet : String) : List IoKind :=
  if fleet = "a" then Gen.Fleet.asyncDeadKinds else Gen.Fleet.deadKinds

def showKind : IoKind → String
  | .notFound => "NotFound" | .permissionDenied => "PermissionDenied"
  | .connectionRefused => "ConnectionRefused" | .connectionReset => "ConnectionReset"
  | .hostUnreachable => "HostUnreachable" | .networkUnreachable => "NetworkUnreachable"
  | .connectionAborted => "ConnectionAborted" | .notConnected => "NotConnected"
  | .addrInUse => "AddrInUse" | .addrNotAvailable => "AddrNotAvailable" | .networkDown => "NetworkDown"
  | .brokenPipe => "BrokenPipe" | .alreadyExists => "AlreadyExists" | .wouldBlock => "WouldBlock"
  | .invalidInput => "InvalidInput" | .invalidData => "InvalidData" | .timedOut => "TimedOut"
  | .writeZero => "WriteZero" | .interrupted => "Interrupted" | .unsupported => "Unsupported"
  | .unexpectedEof => "UnexpectedEof" | .outOfMemory => "OutOfMemory" | .other => "Other"

def showReply : Option Reply → String
  | none => "None"
  | some .ok => "ok"
  | some (.err (.io k)) => "Io(" ++ showKind k ++ ")"
  | some (.err .decode) => "Decode"
  | some (.err .server) => "Server"

def showObs (o : CallObs) : String :=
  toString o.contacts ++ ":" ++ showReply o.result ++ ":" ++ (if o.connected then "1" else "0")

def policyOf (fleet : String) : Option Policy :=
  if fleet = "b" then some Gen.Fleet.policy else if fleet = "a" then some Gen.Fleet.asyncPolicy else none

def loopOf (fleet variant : String) : Option LoopForm :=
  match fleet, variant with
  | "b", "json" => some Gen.Fleet.loopJson
  | "b", "jsonnp" => some Gen.Fleet.loopJson
  | "b", "msg" => some Gen.Fleet.loopMessage
  | "a", "json" => some Gen.Fleet.asyncLoopJson
  | "a", "jsonnp" => some Gen.Fleet.asyncLoopJson
  | "a", "msg" => some Gen.Fleet.asyncLoopMessage
  | _, _ => none

def filterOf (fleet : String) : FilterForm :=
  if fleet = "a" then
    (if Gen.Fleet.asyncFanOutOverTargets then Gen.Fleet.asyncFilter else .noFilter)
  else (if Gen.Fleet.fanOutOverTargets then Gen.Fleet.filter else .noFilter)

def nodeOf (s : String) : Option Node :=
  match s.splitOn "=" with
  | [name, tags, bs] => do
    let bs ← behavioursFor "json" bs
    pure ⟨name, splitList tags "+", bs⟩
  | _ => none

def lifeOpOf : String → Option LifeOp
  | "conn" => some .connectAll
  | "disc" => some .disconnectAll
  | "reconn" => some .reconnect
  | "health" => some .health
  | "call" => some .call
  | _ => none

def healthFormOf (fleet : String) : HealthForm :=
  if fleet = "a" then Gen.Fleet.asyncHealthForm else Gen.Fleet.healthForm

def showLife (x : LifeObs × Bool) : String :=
  let c := if x.2 then "1" else "0"
  match x.1 with
  | .connected b => "conn:" ++ (if b then "ok" else "failed") ++ ":" ++ c
  | .disconnected => "disc:" ++ c
  | .reconnect none => "reconn:-:" ++ c
  | .reconnect (some b) => "reconn:" ++ (if b then "ok" else "failed") ++ ":" ++ c
  | .health n r => "health:" ++ toString n ++ ":" ++ showReply (some r) ++ ":" ++ c
  | .call o => "call:" ++ showObs o

def orDash (xs : List String) : String := if xs.isEmpty then "-" else ",".intercalate xs

def step (st : Unit) (ws : List String) : Unit × String :=
  -- the word `p=…` holds parameters the model does not have (names, tags and methods as strings,
  -- timeouts, delay, params, which handle): the prediction is the same for each of their values
  match ws.filter (fun w => !w.startsWith "p=") with
  | ["opts", idx, fleet, what] =>
    if fleet ≠ "b" ∧ fleet ≠ "a" then (st, idx ++ " bad-op") else
    let enforced := match what with
      | "zero" => some (if fleet = "a" then Gen.Fleet.asyncMaxAttemptsValidated else Gen.Fleet.maxAttemptsValidated)
      | "dup" => some (if fleet = "a" then Gen.Fleet.asyncNamesDistinctAtConstruction else Gen.Fleet.namesDistinctAtConstruction)
      | "dupadd" => some (if fleet = "a" then Gen.Fleet.asyncNamesDistinctAtAdd else Gen.Fleet.namesDistinctAtAdd)
      | _ => none
    match enforced with
    | some b => (st, idx ++ (if b then " rejected" else " accepted"))
    | none => (st, idx ++ " bad-op")
  | ["ux", idx, _fleet, _max, _rounds] =>
    -- rounds of replies that belong to other properties (foreign id, notify flag, absurd length): what
    -- the clients make of them is not predicted; the harness's oracles judge bound and recovery
    (st, idx ++ " rounds ok")
  | ["cx", idx, _fleet, _max, _rounds] =>
    -- rounds of an async operation dropped at a drawn instant, then a healthy node: what the dropped
    -- operation did is not predicted; the harness's oracles judge the recovery (exercised only)
    (st, idx ++ " rounds ok")
  | ["obs", idx, fleet, variant, max, _observers, rounds] =>
    -- rounds of "the node drops one request, then is healthy" on one fleet; who else looks at the
    -- fleet meanwhile is not in the model: the prediction is the same for every number of observers
    match policyOf fleet, loopOf fleet variant with
    | some P, some lf =>
      let round (c : Cache) : List CallObs × Cache :=
        let a := call P lf (natOf max) c [.acceptThenClose]
        if a.result = some .ok then ([obsOf a], a.cache)
        else
          let b := call P lf (natOf max) a.cache a.rest
          ([obsOf a, obsOf b], b.cache)
      let rec go : Nat → Nat → Cache → Option (List CallObs) → String
        | 0, _, _, first => idx ++ " all " ++ joinSp ((first.getD []).map showObs)
        | k+1, i, c, first =>
          let (os, c') := round c
          match first with
          | none => go k (i+1) c' (some os)
          | some f =>
            if f = os then go k (i+1) c' first
            else idx ++ " first " ++ joinSp (f.map showObs) ++ " round " ++ toString i ++ " " ++ joinSp (os.map showObs)
      (st, go (natOf rounds) 0 .none none)
    | _, _ => (st, idx ++ " bad-op")
  | "case" :: idx :: fleet :: variant :: max :: seq :: rest =>
    -- optional 7th word `dead=K,K,…`: the error kinds the harness observed for calls on a dead cached client
    let observed : Option (List IoKind) := match rest with
      | [] => some []
      | [w] => if w.startsWith "dead=" then (splitList (w.drop 5).toString ",").mapM kindOf else none
      | _ => none
    match policyOf fleet, loopOf fleet variant, behavioursFor variant seq, observed with
    | some P, some lf, some bs, some ks =>
      if ks.any (fun k => !(deadKindsOf fleet).contains k) then
        (st, idx ++ " inadmissible-dead-client-kind")
      else
      let (os, hs, n) := runCase P lf (natOf max) ks bs
      let rec' := match n with | some k => toString k | none => "never"
      (st, joinSp ([idx, "s"] ++ os.map showObs ++ ["|", "h"] ++ hs.map showObs ++ ["|", "rec", rec']))
    | _, _, _, _ => (st, idx ++ " bad-op")
  | "life" :: idx :: fleet :: max :: seq :: ops :: rest =>
    let observed : Option (List IoKind) := match rest with
      | [] => some []
      | [w] => if w.startsWith "dead=" then (splitList (w.drop 5).toString ",").mapM kindOf else none
      | _ => none
    match policyOf fleet, loopOf fleet "json", behavioursFor "json" seq, (splitList ops ",").mapM lifeOpOf, observed with
    | some P, some lf, some bs, some os, some ks =>
      if ks.any (fun k => !(deadKindsOf fleet).contains k) then
        (st, idx ++ " inadmissible-dead-client-kind")
      else
      let (obs, hs, n) := runLife P lf (healthFormOf fleet) (natOf max) ks bs os
      let rec' := match n with | some k => toString k | none => "never"
      (st, joinSp ([idx, "o"] ++ obs.map showLife ++ ["|", "h"] ++ hs.map showObs ++ ["|", "rec", rec']))
    | _, _, _, _, _ => (st, idx ++ " bad-op")
  | [op, idx, fleet, max, nodes, req] =>
    if op ≠ "bc" ∧ op ≠ "mr" then (st, idx ++ " bad-op") else
    match policyOf fleet, loopOf fleet "json", (splitList nodes ";").mapM nodeOf with
    | some P, some lf, some ns =>
      let rs := broadcast P lf (filterOf fleet) (natOf max) (splitList req ",") ns
      let addressed := rs.filter (fun r => r.2.contacts > 0) |>.map (·.1)
      (st, joinSp [idx, "addressed", orDash addressed, "results",
                   orDash (rs.map fun r => r.1 ++ "=" ++ showReply r.2.result)])
    | _, _, _ => (st, idx ++ " bad-op")
  | _ :: idx :: _ => (st, idx ++ " bad-op")
  | _ => (st, "bad-op")

end Repe.Driver.Fleet

def main : IO Unit := Repe.Driver.loop Repe.Driver.Fleet.step ()
