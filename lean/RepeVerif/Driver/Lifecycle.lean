import RepeVerif.Model.Lifecycle
import RepeVerif.Model.Peers
import RepeVerif.Gen.Lifecycle
import RepeVerif.Driver.Common
/-! Driver for the `lifecycle` correspondence family (C15).

```
group <g> <entry> <nconn> <nctx> <ndisc> <reg 0|1> <cap> <drain-mode c|a|-> <nctx registered> <regpos>   (no observation)
scen <idx> <phase> <cause> <notifies per user connect callback, comma separated | -> <at N|-> <nreq> <got>
  -> <idx> trace=<c<i>:<P> … d<i>:<x>:<P> …> wire=<first `got` frames> inl=<0|1|-> park=<0|1|-> live=<p|a|-> after=<p|a|->
  -> <idx> hooks=<n>                                                              (cause hsfail)
```

The scenario is turned into a schedule of `Act`s (the canonical one for that phase × cause), the
schedule is run through `Lifecycle.run` with the facts extracted from the source, and the user-visible
part of the resulting state is printed: the hook trace (user callbacks only; with a registry attached
`with_peer_registry`'s own hooks sit at index 0 of both lists and are not printed), the order of the
frames on the wire (as many as the client received), what a gated inline handler / a parked off-reader
handler read from `is_cancelled()`, and the registry lookups. -/
namespace Repe.Driver.Lifecycle
open Repe Repe.Driver Repe.Lifecycle

structure Group where
  entry : String := "listener"
  nconn : Nat := 1
  nctx : Nat := 0
  ndisc : Nat := 1
  reg : Nat := 0
  cap : Nat := 64
  mode : String := "-"
  /-- user callbacks of each kind registered before `with_peer_registry` (hooks run in registration order) -/
  regpos : Nat := 0
  -- registry scripts (`rx` lines): the registry as C18's model, connections ever opened, keys ever
  -- used, `alias` calls still in flight (they take effect after their peer's `remove`)
  rx : Peers.State := {}
  rxConns : List Nat := []
  rxKeys : List String := []
  rxLate : List (Nat × String) := []

/-- index of the registry's insert among the connect hooks / of its remove among the disconnect hooks -/
def Group.regC (g : Group) : Nat := min g.regpos g.nconn
def Group.regD (g : Group) : Nat := min g.regpos g.ndisc

/-- the user callback a hook index stands for (`none` = the registry's own hook) -/
def userOf (reg pos h : Nat) : Option Nat :=
  if reg == 0 then some h else if h == pos then none else some (if h < pos then h else h - 1)
def Group.userC (g : Group) (h : Nat) : Option Nat := userOf g.reg g.regC h
def Group.userD (g : Group) (h : Nat) : Option Nat := userOf g.reg g.regD h

def Group.hasParent (g : Group) : Bool := g.entry == "drain" || g.entry == "conncancel" || g.entry == "adopt"

def Group.cfg (g : Group) : Cfg :=
  ⟨Gen.Lifecycle.facts, g.reg + g.nconn + g.nctx, g.reg + g.ndisc, g.cap, g.hasParent⟩

/-- apply `writerSend` while it is enabled (the writer keeps up) -/
def flush (c : Cfg) (s : St) : Nat → St
  | 0 => s
  | n + 1 => match step c s .writerSend with
    | some s' => flush c s' n
    | none => s

structure Sim where
  st : St
  ok : Bool := true
  inl : Option Bool := none
  snapshot : Option (List Frame) := none

def Sim.act (c : Cfg) (m : Sim) (a : Act) : Sim :=
  if !m.ok then m else
  match step c m.st a with
  | some s' => { m with st := flush c s' 1000 }
  | none => { m with ok := false }

def Sim.acts (c : Cfg) (m : Sim) (as : List Act) : Sim := as.foldl (Sim.act c) m

def isCancelCause (g : Group) (cause : String) : Bool :=
  cause == "cancel" || (cause == "abort" && g.entry == "drain")

/-- hooks `from … nConn-1`; returns the sim and whether a hook panicked -/
def runHooks (g : Group) (c : Cfg) (phase cause : String) (notif : List Nat) (at? : Option Nat) :
    Nat → Nat → Sim → Sim × Bool
  | 0, _, m => (m, false)
  | fuel + 1, h, m =>
    if h ≥ c.nConn then (m, false) else
    let m := m.act c .hookStart
    let user := (g.userC h).isSome
    let u := (g.userC h).getD 0
    let m := if user then (List.range (notif.getD u 0)).foldl (fun m k => m.act c (.hookNotify k)) m else m
    if user && cause == "cpanic" && at? == some u then (m.act c .hookPanic, true)
    else
      let m := if user && phase == "connecting" && at? == some u && isCancelCause g cause
               then m.act c .parentCancel else m
      runHooks g c phase cause notif at? fuel (h + 1) (m.act c .hookReturn)

def simulate (g : Group) (phase cause : String) (notif : List Nat) (at? : Option Nat) (nreq : Nat) : Sim :=
  let c := g.cfg
  let m : Sim := { st := init }
  if cause == "hsfail" then m.act c .handshakeFail else
  -- phase `late`: the connection is served under a token that was cancelled before it was accepted
  let m := if phase == "late" then m.act c .parentCancel else m
  let m := m.act c .handshakeOk
  let (m, panicked) := runHooks g c phase cause notif at? (c.nConn + 1) 0 m
  if panicked then m else
  let m := m.act c .enterReader
  -- the echo round trip that tells the client the reader is up
  -- (in phase `connecting` the request was pipelined while the connect callbacks were running)
  let m := if phase == "late" then m else m.acts c [.recvInline, .inlineReturn (some 1)]
  let m := match phase with
    | "inline" => m.act c .recvInline
    | "parked" => m.act c (.recvOff 2)
    | "parkedfut" => m.act c (.recvOff 2)
    -- off-reader limit 1: a second off-reader request is refused at once with an error response (C16's path)
    | "parkedsat" => m.acts c [.recvOff 2, .recvInline, .inlineReturn (some 5)]
    | "queued" => (List.range nreq).foldl (fun m j => m.acts c [.recvInline, .inlineReturn (some (10 + j))]) m
    | "backlog" => (List.range nreq).foldl (fun m j => m.acts c [.recvInline, .inlineReturn (some (10 + j))]) m
    | _ => m
  -- the strike
  let m := if isCancelCause g cause && phase != "connecting" then m.act c .parentCancel else m
  let inlineBack (m : Sim) : Sim :=
    if phase == "inline" then
      let m := { m with inl := some m.st.token }
      if cause == "hpanic" then m.act c .inlinePanic else m.act c (.inlineReturn (some 2))
    else m
  let m := inlineBack m
  let m := match cause with
    | "close" => m.act c (.readerExit .close)
    | "drop" => m.act c (.readerExit .socketError)
    | "proto" => m.act c (.readerExit .protocolViolation)
    | "protog" => m.act c (.readerExit .protocolViolation)
    | "toobig" => (m.acts c [.recvInline, .inlineReturn (some 4)]).act c (.readerExit .protocolViolation)
    | "rerr" => m.act c (.readerExit .socketError)
    | "werr" => m.acts c [.recvInline, .inlineReturn (some 3), .writerFail, .recvInline, .inlineReturn (some 4)]
    | "malformed" => m.act c (.readerExit .malformedFrame)
    | "malformeds" => m.act c (.readerExit .malformedFrame)
    | "malformedl" => m.act c (.readerExit .malformedFrame)
    | "hpanic" => if phase == "inline" then m else m.acts c [.recvInline, .inlinePanic]
    | "cancel" => m.act c .selectCancelled
    | "abort" => m.act c .abort
    | _ => { m with ok := false }
  let m := if m.st.phase == .draining then
      (if m.st.writer == .finished then m.act c .writerJoined else m.acts c [.writerFinish, .writerJoined]) else m
  if phase == "parked" || phase == "parkedfut" || phase == "parkedsat" then m.act c (.offFinish 2 none) else m

/-! registry as seen through the hooks (`with_peer_registry` first; user connect callback `u` aliases key `u`) -/

def regAfter (g : Group) (tr : List Ev) : Peers.State :=
  tr.foldl (fun r e => match e with
    | .connect h => match g.userC h with
      | none => Peers.insert r 1 1
      | some u => (Peers.alias r 1 (toString u)).1
    | .disconnect h _ => match g.userD h with
      | none => (Peers.remove r 1).1
      | some _ => r
    | _ => r) Peers.State.empty

def presentWith (r : Peers.State) (key : Option String) : Bool :=
  (Peers.get r 1).isSome && match key with
    | some k => (Peers.getBy r k).map (·.id) == some 1
    | none => true

/-- the handle and every alias registered by a connect callback that ran after the insert -/
def fullIn (g : Group) (r : Peers.State) : Bool :=
  presentWith r none && ((List.range (g.nconn + g.nctx)).filter (· ≥ g.regC)).all (fun u => presentWith r (some (toString u)))

def goneFrom (g : Group) (r : Peers.State) : Bool :=
  (Peers.get r 1).isNone && (List.range (g.nconn + g.nctx)).all (fun u => (Peers.getBy r (toString u)).isNone)

def showTrace (g : Group) (phase : String) (tr : List Ev) : String :=
  let rec go (pre : List Ev) (rest : List Ev) (acc : List String) : List String :=
    match rest with
    | [] => acc.reverse
    | e :: rest =>
      let pre' := pre ++ [e]
      let r := regAfter g pre'
      let item : Option String := match e with
        | .connect h => match g.userC h with
          | none => none
          | some u =>
            let p := if g.reg == 0 then "-" else if presentWith r (some (toString u)) then "p" else "a"
            some s!"c{u}:{p}"
        | .disconnect h b => match g.userD h with
          | none => none
          | some u =>
            let x := if phase == "parked" || phase == "parkedsat" then (if b then "1" else "0") else "-"
            let p := if g.reg == 0 then "-" else if goneFrom g r then "a" else if fullIn g r then "p" else "x"
            some s!"d{u}:{x}:{p}"
        | .cancel => none
      go pre' rest (match item with | some s => s :: acc | none => acc)
  let items := go [] tr []
  if items.isEmpty then "-" else ",".intercalate items

def showFrame (g : Group) : Frame → String
  | .connNotify h k => s!"n{(g.userC h).getD 0}.{k}"
  | .otherNotify n => s!"o{n}"
  | .response id => s!"r{id}"

def showWire (g : Group) (log : List Frame) (got : Nat) : String :=
  if got > log.length then "OVERRUN"
  else if got == 0 then "-"
  else ",".intercalate ((log.take got).map (showFrame g))

def parseNotif (s : String) : List Nat := if s == "-" then [] else (s.splitOn ",").map natOf

/-! ### registry scripts: several connections sharing and re-pointing aliases

```
rx <idx> reset <entry>                    (no observation)
rx <idx> open <c> <k1,k2,…|->             connect hook of connection c (peer id c): insert, then alias each key
rx <idx> alias <c> <inline|off> <key>     a handler of c calls registry.alias(c, key)
rx <idx> late <c> <key>                   an off-reader handler of c starts alias(c, key); the call is in flight
rx <idx> close <c> <cause>                c ends: remove(c) (disconnect hook), then the in-flight alias (if any) completes
  -> <idx> ret=<alias results|-> by=<key>:<owner|->,… peers=<c>:<present>:<aliases_for joined by +|->:<key_for|->,…
```
Every `PeerRegistry` method is one critical section (C18), so the script is a sequential history of C18's model. -/

def insSorted [Ord α] (x : α) (l : List α) : List α :=
  if l.any (fun y => compare x y == .eq) then l else
  (l.filter (fun y => compare y x == .lt)) ++ [x] ++ (l.filter (fun y => compare y x == .gt))

def rxDump (g : Group) : String :=
  let by_ := g.rxKeys.map (fun k => k ++ ":" ++ match Peers.getBy g.rx k with | some h => toString h.id | none => "-")
  let ps := g.rxConns.map (fun c =>
    let al := Peers.aliasesFor g.rx c
    s!"{c}:{if (Peers.get g.rx c).isSome then 1 else 0}:{if al.isEmpty then "-" else "+".intercalate al}:{(Peers.keyFor g.rx c).getD "-"}")
  s!"by={if by_.isEmpty then "-" else ",".intercalate by_} peers={if ps.isEmpty then "-" else ",".intercalate ps}"

def rxAlias (g : Group) (c : Nat) (k : String) : Group × Bool :=
  let r := Peers.alias g.rx c k
  ({ g with rx := r.1, rxKeys := insSorted k g.rxKeys }, r.2)

def bits (l : List Bool) : String := if l.isEmpty then "-" else String.join (l.map fun b => if b then "1" else "0")

def rxStep (g : Group) (idx : String) : List String → Group × String
  | ["reset", _entry] => ({ g with rx := {}, rxConns := [], rxKeys := [], rxLate := [] }, "")
  | ["open", c, keys] =>
    let c := natOf c
    let g := { g with rx := Peers.insert g.rx c c, rxConns := insSorted c g.rxConns }
    let ks := if keys == "-" then [] else keys.splitOn ","
    let (g, rets) := ks.foldl (fun (acc : Group × List Bool) k => let r := rxAlias acc.1 c k; (r.1, acc.2 ++ [r.2])) (g, [])
    (g, s!"{idx} ret={bits rets} {rxDump g}")
  | ["alias", c, how, k] =>
    if how != "inline" && how != "off" then (g, idx ++ " bad-op") else
    let (g, r) := rxAlias g (natOf c) k
    (g, s!"{idx} ret={bits [r]} {rxDump g}")
  | ["late", c, k] =>
    let g := { g with rxLate := g.rxLate ++ [(natOf c, k)], rxKeys := insSorted k g.rxKeys }
    (g, s!"{idx} ret=- {rxDump g}")
  | ["close", c, _cause] =>
    let c := natOf c
    let g := { g with rx := (Peers.remove g.rx c).1 }
    let mine := g.rxLate.filter (fun e => e.1 == c)
    let (g, rets) := mine.foldl (fun (acc : Group × List Bool) e => let r := rxAlias acc.1 c e.2; (r.1, acc.2 ++ [r.2])) (g, [])
    let g := { g with rxLate := g.rxLate.filter (fun e => e.1 != c) }
    (g, s!"{idx} ret={bits rets} {rxDump g}")
  | _ => (g, idx ++ " bad-op")

/-! ### handshakes: `hs <idx> <configured path|-> <request path> <end close|malformed|text>`
  -> `<idx> accept hooks=1/1 ctx=<path>?who=7 err=h0c<0|1>`  |  `<idx> reject hooks=0/0 ctx=- err=h1c0` -/
def hsStep (idx cfg req end_ : String) : String :=
  let cfg := if cfg == "-" then "" else cfg
  if !(end_ == "close" || end_ == "malformed" || end_ == "text" || end_ == "frag1" || end_ == "frag3" || end_.startsWith "stall") then idx ++ " bad-op" else
  if pathAccepted cfg.toList req.toList then
    -- accepted: one connect / one disconnect, the handshake-aware hook sees the request's path and query;
    -- the built-in loop reports one Connection error iff the reader returned Err
    -- `frag1`/`frag3`: the upgrade request arrives in pieces (immaterial), then the socket is dropped
    let cause : Cause := if end_ == "close" then .close else if end_ == "text" then .protocolViolation
      else if end_.startsWith "frag" || end_.startsWith "stall" then .socketError else .malformedFrame
    let m := (Sim.mk init true none none).acts ⟨Gen.Lifecycle.facts, 2, 1, 64, false⟩
      [.handshakeOk, .hookStart, .hookReturn, .hookStart, .hookReturn, .enterReader, .readerExit cause, .writerFinish, .writerJoined]
    let nc := (m.st.trace.filter (fun e => match e with | .connect 0 => true | _ => false)).length
    let nd := (m.st.trace.filter (fun e => match e with | .disconnect _ _ => true | _ => false)).length
    s!"{idx} accept hooks={nc}/{nd} ctx={req}?who=7 err=h0c{if cause.isError then 1 else 0}"
  else
    let m := (Sim.mk init true none none).act ⟨Gen.Lifecycle.facts, 2, 1, 64, false⟩ .handshakeFail
    s!"{idx} reject hooks={m.st.trace.length}/{m.st.trace.length} ctx=- err=h1c0"

def step (g : Group) (ws : List String) : Group × String :=
  match ws with
  | "rx" :: idx :: rest => rxStep g idx rest
  | ["hs", idx, cfg, req, end_] => (g, hsStep idx cfg req end_)
  -- an upgrade request delivered in pieces: whether the handshake parser let it through is the environment's choice
  -- (`a` / `r`, recorded); a rejected one is a failed handshake whatever its path
  | ["hs", idx, cfg, req, end_, outcome] =>
    if outcome == "a" then (g, hsStep idx cfg req end_)
    else if outcome == "r" then (g, hsStep idx "/no-such-configured-path" req end_)
    else (g, idx ++ " bad-op")
  | ["hsrun", idx, nrej, nacc] =>
    -- nrej failed handshakes (each: `handshakeFail`, no hook), then nacc accepted connections, each its own run of the model
    let (nrej, nacc) := (natOf nrej, natOf nacc)
    let rej := (Sim.mk init true none none).act ⟨Gen.Lifecycle.facts, 1, 1, 64, false⟩ .handshakeFail
    let acc := (Sim.mk init true none none).acts ⟨Gen.Lifecycle.facts, 1, 1, 64, false⟩
      [.handshakeOk, .hookStart, .hookReturn, .enterReader, .recvInline, .inlineReturn (some 1), .readerExit .close, .writerFinish, .writerJoined]
    let perAccC := (acc.st.trace.filter (fun e => match e with | .connect _ => true | _ => false)).length
    let perAccD := (acc.st.trace.filter (fun e => match e with | .disconnect _ _ => true | _ => false)).length
    let distinct := Gen.Lifecycle.peerIdFetchAdd && (mintIds 0 nacc).eraseDups.length == nacc
    (g, s!"{idx} rejects={nrej} herr={nrej} hooks={rej.st.trace.length * nrej + perAccC * nacc}/{perAccD * nacc} ids={if distinct then "distinct" else "collide"}")
  | ["burst", idx, entry, n, end_] =>
    if !(entry == "adopt" || entry == "listener") || !(end_ == "drop" || end_ == "close" || end_ == "mix") then (g, idx ++ " bad-op") else
    -- n connections minted concurrently: ids from the shared counter, each connection its own lifecycle
    let n := natOf n
    let ids := mintIds 0 n
    let distinct := Gen.Lifecycle.peerIdFetchAdd && ids.eraseDups.length == n
    (g, s!"{idx} ids={if distinct then "distinct" else "collide"} live={ids.length}/{n} disc={ids.length}x1 after=empty")
  | ["group", _, entry, nconn, nctx, ndisc, reg, cap, mode, _nctxRegistered, regpos, _harnessKnobs] =>
    ({ entry, nconn := natOf nconn, nctx := natOf nctx, ndisc := natOf ndisc, reg := natOf reg, cap := natOf cap, mode,
       regpos := natOf regpos }, "")
  | ["scen", idx, phase, cause0, notif, at_, nreq, got] =>
    -- the panic payload (`cpanics`/`cpanicn`/`hpanics`/`hpanicn`) is immaterial: an unwind is an unwind
    let cause := if cause0.startsWith "cpanic" then "cpanic" else if cause0.startsWith "hpanic" then "hpanic" else cause0
    -- `rerr` / `werr`: the transport fails a read / a write with the io::ErrorKind numbered in the nreq field (immaterial)
    let at? := if at_ == "-" then none else some (natOf at_)
    let m := simulate g phase cause (parseNotif notif) at? (natOf nreq)
    if !m.ok then (g, idx ++ " schedule-not-enabled")
    else if cause == "hsfail" then (g, s!"{idx} hooks={m.st.trace.length}")
    else
      let s := m.st
      let inl := match m.inl with | some true => "1" | some false => "0" | none => "-"
      let park := if phase == "parked" || phase == "parkedfut" || phase == "parkedsat" then (if seenByHandlers s then "1" else "0") else "-"
      -- registry while live: after all connect hooks of the trace, before the guard's events
      let liveTr := s.trace.filter (fun e => match e with | .connect _ => true | _ => false)
      let live := if g.reg == 0 || phase == "connecting" || phase == "late" || cause == "cpanic" then "-"
        else if fullIn g (regAfter g liveTr) then "p" else "a"
      let after := if g.reg == 0 then "-" else if goneFrom g (regAfter g s.trace) then "a" else "p"
      -- a handler parked on `cancelled()` returns as soon as the token is cancelled: its response races with the
      -- writer's end, so it may or may not be the last frame on the wire
      let log := if phase == "parkedfut" then s.log ++ [.response 2] else s.log
      (g, s!"{idx} trace={showTrace g phase s.trace} wire={showWire g log (natOf got)} inl={inl} park={park} live={live} after={after}")
  | _ => (g, "bad-op")

end Repe.Driver.Lifecycle

def main : IO Unit := Repe.Driver.loop Repe.Driver.Lifecycle.step {}
