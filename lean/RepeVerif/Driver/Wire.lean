import RepeVerif.Model.Wire
import RepeVerif.Gen.Wire
import RepeVerif.Driver.Common
/-! Driver for the `wire` and `parse` correspondence families (C01, C02). -/
namespace Repe.Driver.Wire
open Repe Repe.Driver

structure St where
  mode : OvMode := .checks
  /-- frames of the `msg` ops since the last `sink` op (what one persistent sink must have received) -/
  frames : List Bytes := []

def headerOfWords (ws : List String) : Option Header :=
  match ws.map natOf with
  | [a,b,c,d,e,f,g,h,i,j,k] => some ⟨a,b,c,d,e,f,g,h,i,j,k⟩
  | _ => none

def showHeader (h : Header) : String :=
  joinSp ([h.length, h.spec, h.version, h.notify, h.reserved, h.id, h.queryLength, h.bodyLength,
    h.queryFormat, h.bodyFormat, h.ec].map toString)

def showErr : WireErr → String
  | .invalidHeaderLength => "InvalidHeaderLength"
  | .invalidSpec => "InvalidSpec"
  | .lengthMismatch => "LengthMismatch"
  | .bufferTooSmall => "BufferTooSmall"
  | .io => "Io"

def showOut {α} (f : α → String) : WOut α → String
  | .ok a => "ok " ++ f a
  | .err e => "err " ++ showErr e
  | .panic => "PANIC"
  | .abort => "ABORT"

def showMsg (m : Message) : String :=
  showHeader m.header ++ " " ++ hexOfBytes m.query ++ " " ++ hexOfBytes m.body

def same (ref x : Bytes) : String := if x = ref then "=" else hexOfBytes x

def fnv64 (bs : Bytes) : Nat :=
  bs.foldl (fun h b => ((h ^^^ b.toNat) * 0x100000001b3) % 2^64) 0xcbf29ce484222325

def hex16 (n : Nat) : String :=
  String.ofList ((List.range 16).reverse.map fun i => hexDigit ((n / 16^i) % 16))

/-- Read frame after frame from one stream with one reader (each successful read consumes exactly its frame). -/
def readAll (reader : Bytes → WOut Bytes) (bs : Bytes) (eof : String := "Io") : String :=
  let rec go (fuel : Nat) (s : Bytes) (acc : List String) : List String × String :=
    match fuel with
    | 0 => (acc.reverse, "runaway")
    | fuel + 1 =>
      match reader s with
      | .ok f => go fuel (s.drop f.length) (s!"{f.length}:{hex16 (fnv64 f)}" :: acc)
      | .err e => (acc.reverse, if e = .io then eof else showErr e)
      | .panic => (acc.reverse, "PANIC")
      | .abort => (acc.reverse, "ABORT")
  let (frames, e) := go 10001 bs []
  s!"n={frames.length} [{",".intercalate frames}] end={e}"

def step (st : St) (ws : List String) : St × String :=
  match ws with
  | ["mode", "checks"] => ({ st with mode := .checks }, "")
  | ["mode", "wraps"] => ({ st with mode := .wraps }, "")
  | "msg" :: idx :: rest =>
    -- msg <idx> <11 fields> <q> <b> <cap>
    -- optional trailing tokens (spare query capacity, short-write sink size) do not change the prediction
    match headerOfWords (rest.take 11), (rest.drop 11).take 3 with
    | some h, [q, b, cap] =>
      match bytesOfHex q, bytesOfHex b with
      | some q, some b =>
        let m : Message := ⟨h, q, b⟩
        let r := m.toVec
        ({ st with frames := r :: st.frames },
         joinSp [idx, hexOfBytes r, same r (emitParts Gen.writeToParts m), same r (m.intoWireBytes (natOf cap)),
              same r (emitParts Gen.writeMessageParts m), same r (emitParts Gen.writeMessageAsyncParts m),
              hexOfBytes (writeMessageStreaming h q b)])
      | _, _ => (st, idx ++ " bad-op")
    | _, _ => (st, idx ++ " bad-op")
  | "build" :: idx :: id :: notify :: ec :: qf :: bf :: q :: b :: _order =>
    -- optional 10th token: order / choice of the builder's setters (the frame is a function of the seven values)
    match bytesOfHex q, bytesOfHex b with
    | some q, some b =>
      let m := (Builder.mk (natOf id) (notify = "1") (natOf ec) (natOf qf) (natOf bf) q b).build
      (st, joinSp [idx, hexOfBytes m.toVec])
    | _, _ => (st, idx ++ " bad-op")
  | ["bodyfmt", idx, which, id, q, _value, body] =>
    -- the builder's serialising body setters: format code of the setter, the serialised value as body
    match bytesOfHex q, bytesOfHex body with
    | some q, some body =>
      let bf := if which = "utf8" then 3 else if which = "json" then 2 else 1
      (st, joinSp [idx, hexOfBytes (Builder.mk (natOf id) false 0 1 bf q body).build.toVec])
    | _, _ => (st, idx ++ " bad-op")
  | ["sink", idx] =>
    -- everything written to one persistent sink since the last `sink`: the frames, in order, nothing else
    let all := st.frames.reverse.flatten
    ({ st with frames := [] }, s!"{idx} n={st.frames.length} {all.length}:{hex16 (fnv64 all)}")
  | "new" :: idx :: rest =>
    match headerOfWords (rest.take 11), (rest.drop 11) with
    | some h, [q, b] =>
      match bytesOfHex q, bytesOfHex b with
      | some q, some b =>
        let m : Message := ⟨h, q, b⟩
        (st, joinSp [idx, showOut (fun _ => "new") (Message.new h q b), toString m.serializedLen])
      | _, _ => (st, idx ++ " bad-op")
    | _, _ => (st, idx ++ " bad-op")
  | ["errmsg", idx, code, msg] =>
    match bytesOfHex msg with
    | some msg => (st, joinSp [idx, hexOfBytes (wireErrorMessage (natOf code) msg).toVec])
    | none => (st, idx ++ " bad-op")
  | "errlike" :: idx :: reqId :: reqQ :: code :: msg :: _staleDeclaredLengths =>
    match bytesOfHex reqQ, bytesOfHex msg with
    | some q, some msg => (st, joinSp [idx, hexOfBytes (createErrorResponseLike (natOf reqId) q (natOf code) msg).toVec])
    | _, _ => (st, idx ++ " bad-op")
  | "resp" :: idx :: reqId :: reqQf :: reqQ :: bf :: body :: _value =>
    match bytesOfHex reqQ, bytesOfHex body with
    | some q, some body =>
      (st, joinSp [idx, hexOfBytes (createResponse (natOf reqId) (natOf reqQf) q (natOf bf) body).toVec])
    | _, _ => (st, idx ++ " bad-op")
  | "cb" :: idx :: _ =>
    -- body callbacks that err / panic / are slow / re-enter: the property is silent about failing callbacks; the
    -- harness asserts the slow and re-entrant ones directly
    (st, idx ++ " ran")
  | "twin" :: idx :: _kind :: rest =>
    -- twin <idx> <kind> <11 header fields> <query> <element bytes> <BEVE payload as produced by the builder route>
    match headerOfWords (rest.take 11), (rest.drop 11) with
    | some h, [q, _raw, payload] =>
      match bytesOfHex q, bytesOfHex payload with
      | some q, some payload => (st, idx ++ " " ++ hexOfBytes (writeMessageSlice h q payload))
      | _, _ => (st, idx ++ " bad-op")
    | _, _ => (st, idx ++ " bad-op")
  | "twinold" :: idx :: _ =>
    -- documented twins compared by the harness (typed/complex slice writers vs builder + write_message)
    (st, idx ++ " =")
  | "readm" :: idx :: kind :: _frag :: streams =>
    -- ONE reused buffer / reader over several streams in a row (a stream may end in an error): each stream is
    -- read as if the buffer were fresh
    let hf := Gen.headerSumForm
    let reader : Option (Bytes → WOut Bytes) :=
      if kind = "0" then some (fun s => (readMessage hf Gen.readAlloc st.mode s).map Message.toVec)
      else if kind = "2" then some (fun s => (readMessage hf Gen.asyncReadAlloc st.mode s).map Message.toVec)
      else if kind = "1" then some (readMessageInto hf Gen.readIntoSumForm Gen.readIntoAlloc st.mode)
      else if kind = "3" then some (readMessageInto hf Gen.asyncReadIntoSumForm Gen.asyncReadIntoAlloc st.mode)
      else none
    -- a stream token `p<k>:<hex>`: the stream itself panics when byte k is asked for, i.e. the reader sees the first k
    -- bytes and then, instead of an end of file, an unwind (the harness catches it and goes on with the same buffer)
    let parse1 (tok : String) : Option (Option Nat × Bytes) :=
      if tok.startsWith "p" then
        match (tok.drop 1).toString.splitOn ":" with
        | [k, h] => (bytesOfHex h).map fun b => (some (natOf k), b)
        | _ => none
      else if tok.startsWith "e" && tok.contains (':' : Char) then
        -- `e<k>.<Kind>:<hex>`: the stream answers one read() at offset k with that io::ErrorKind.  The blocking readers retry
        -- `Interrupted` (the helper behaves like Read::read_exact since fix 0713bc8): the stream is read as if nothing had
        -- happened; every other kind, and every kind for the async readers, ends the read with an I/O error
        match (tok.drop 1).toString.splitOn ":" with
        | [spec, h] =>
          match spec.splitOn ".", bytesOfHex h with
          | [k, kd], some b =>
            if kd = "Interrupted" && (kind = "0" || kind = "1") then some (none, b)
            else some (some (natOf k + 1000000000), b)
          | _, _ => none
        | _ => none
      else (bytesOfHex tok).map fun b => (none, b)
    match reader, streams.mapM parse1 with
    | some rd, some ss =>
      (st, idx ++ " " ++ " | ".intercalate (ss.map fun (pk, b) =>
        match pk with
        | some k => if k ≥ 1000000000 then readAll rd (b.take (k - 1000000000)) else readAll rd (b.take k) "panicked"
        | none => readAll rd b))
    | _, _ => (st, idx ++ " bad-op")
  | "net" :: idx :: _ep :: _h :: _pre =>
    -- hostile bytes against a real endpoint: the model's prediction is C02's totality — the endpoint survives
    (st, idx ++ " survived")
  | ["hdr", idx, h] =>
    match bytesOfHex h with
    | some bs => (st, idx ++ " " ++ showOut showHeader (Header.decode Gen.headerSumForm st.mode bs))
    | none => (st, idx ++ " bad-op")
  | op :: idx :: h :: fragTok =>
    -- optional 4th token: how the harness fragments the stream for the reader (the prediction does not depend on it)
    if fragTok.length > 1 then (st, idx ++ " bad-op") else
    match bytesOfHex h with
    | none => (st, idx ++ " bad-op")
    | some bs =>
      let hf := Gen.headerSumForm
      let r : Option String :=
        if op = "slice" then some (showOut showMsg (Message.fromSlice hf Gen.sliceSumForm st.mode bs))
        else if op = "slicex" then some (showOut showMsg (Message.fromSliceExact hf Gen.sliceSumForm st.mode bs))
        else if op = "view" then some (showOut showMsg (Message.fromSlice hf Gen.viewSumForm st.mode bs))
        else if op = "viewx" then some (showOut showMsg (Message.fromSliceExact hf Gen.viewSumForm st.mode bs))
        else if op = "read0" then some (showOut showMsg (readMessage hf Gen.readAlloc st.mode bs))
        else if op = "read1" then some (showOut hexOfBytes (readMessageInto hf Gen.readIntoSumForm Gen.readIntoAlloc st.mode bs))
        else if op = "read2" then some (showOut showMsg (readMessage hf Gen.asyncReadAlloc st.mode bs))
        else if op = "read3" then some (showOut hexOfBytes (readMessageInto hf Gen.asyncReadIntoSumForm Gen.asyncReadIntoAlloc st.mode bs))
        else if op = "reads0" then some (readAll (fun s => (readMessage hf Gen.readAlloc st.mode s).map Message.toVec) bs)
        else if op = "reads2" then some (readAll (fun s => (readMessage hf Gen.asyncReadAlloc st.mode s).map Message.toVec) bs)
        else if op = "reads1" then some (readAll (readMessageInto hf Gen.readIntoSumForm Gen.readIntoAlloc st.mode) bs)
        else if op = "reads3" then some (readAll (readMessageInto hf Gen.asyncReadIntoSumForm Gen.asyncReadIntoAlloc st.mode) bs)
        else none
      match r with
      | some s => (st, idx ++ " " ++ s)
      | none => (st, idx ++ " bad-op")
  | _ => (st, "bad-op")

end Repe.Driver.Wire

def main : IO Unit := Repe.Driver.loop Repe.Driver.Wire.step {}
